"""Symbolic scalars for engine E2.

A payload element of a SymTensor is either a *concrete* Python value
(bool / int / Fraction; float only for inf/nan) or a `Sym`.

`Sym` has three representations:
  * generic    : a z3 expression of sort Bool / Int / Real (`_e`)
  * lin        : const + sum coeff_i * [XOR atom_i]   where atom_i is a frozenset of Boolean variable
                 names ("bit atoms").  Integer-linear combinations of bits.  `(lin) % 2` collapses to a
                 single atom again, which is the GF(2)-affine normal form used for linear-code
                 identities (decided structurally, without the SAT solver).
  * bx         : Boolean  const XOR [XOR atom]  (result of comparing bit-valued lins)
  * sqrt       : sqrt(radicand) kept un-expanded (abs of complex numbers); comparisons between sqrt
                 forms compare radicands; `**2` returns the radicand.

Branching on a symbolic value (`bool()`, `int()`, `hash()`) asks the active explorer
(`vk.explore`) for a decision; all feasible alternatives are explored by re-execution.

Floats are treated as reals (DESIGN.md section 4.1).
"""
from __future__ import annotations

import math
from fractions import Fraction

import z3


class Unsupported(BaseException):
    """The engine cannot model this operation; the obligation is out of reach (never a verdict)."""


class EngineFault(BaseException):
    """Internal inconsistency of the engine (exit 3)."""


# ----------------------------------------------------------------------------------------------
# active explorer (set by vk.explore)
_EXPLORER = [None]


def set_explorer(ex):
    _EXPLORER[0] = ex


def explorer():
    return _EXPLORER[0]


def side(constraint):
    """Register a side constraint (definition of an auxiliary variable)."""
    ex = _EXPLORER[0]
    if ex is None:
        raise EngineFault("side constraint outside an exploration")
    ex.add_side(constraint)


_FRESH = [0]


def fresh(prefix, sort="real"):
    _FRESH[0] += 1
    name = f"{prefix}!{_FRESH[0]}"
    return z3.Real(name) if sort == "real" else (z3.Int(name) if sort == "int" else z3.Bool(name))


# ----------------------------------------------------------------------------------------------
def norm(v):
    """Normalise a concrete Python/numpy scalar to bool / int / Fraction (float for inf/nan)."""
    if isinstance(v, Sym):
        return v
    if isinstance(v, (bool,)):
        return v
    if isinstance(v, int):
        return v
    if isinstance(v, Fraction):
        return int(v) if v.denominator == 1 else v
    if isinstance(v, float):
        if math.isfinite(v):
            return int(v) if v.is_integer() else Fraction(v)
        return v
    # numpy scalars
    import numpy as np

    if isinstance(v, np.bool_):
        return bool(v)
    if isinstance(v, np.integer):
        return int(v)
    if isinstance(v, np.floating):
        return norm(float(v))
    raise Unsupported(f"cannot normalise scalar of type {type(v)}")


def is_sym(v):
    return isinstance(v, Sym)


def _nf(v):
    """finite Python floats / numpy scalars met in mixed arithmetic are exact rationals (floats are reals)"""
    if isinstance(v, float):
        return norm(v)
    if isinstance(v, (bool, int, Fraction, Sym)):
        return v
    try:
        return norm(v)
    except Unsupported:
        return v


def _tensor_op(opname, sym, tensor, reflected):
    """Sym <op> torch.Tensor: lift the scalar to a 0-dim SymTensor and let torch dispatch (the symbolic mode handles it)"""
    import operator

    import torch

    from .tensor import SymTensor, as_oarr

    dt = {"real": torch.float32, "int": torch.int64, "bool": torch.bool}[sym.sort]
    if dt != torch.bool and tensor.dtype.is_floating_point:
        dt = tensor.dtype
    t0 = SymTensor(as_oarr(sym), None, dt)
    f = getattr(operator, opname)
    return f(tensor, t0) if reflected else f(t0, tensor)


def _is_tensor(o):
    return type(o).__module__.startswith("torch") or type(o).__name__ == "SymTensor"


def _zconst(v, real):
    if isinstance(v, bool):
        v = int(v)
    if isinstance(v, int):
        return z3.RealVal(v) if real else z3.IntVal(v)
    if isinstance(v, Fraction):
        return z3.RealVal(f"{v.numerator}/{v.denominator}")
    if isinstance(v, float):
        raise Unsupported(f"non-finite float {v} in symbolic arithmetic")
    raise EngineFault(f"_zconst {type(v)}")


def _is_real_val(v):
    return isinstance(v, Fraction) and v.denominator != 1


def _atom_expr(atom):
    vs = sorted(atom)
    e = z3.Bool(vs[0])
    for n in vs[1:]:
        e = z3.Xor(e, z3.Bool(n))
    return e


class Sym:
    __slots__ = ("_e", "lin", "bx", "rad", "__weakref__")

    def __init__(self, e=None, lin=None, bx=None, rad=None):
        self._e = e
        self.lin = lin  # (const, tuple of (atom, coeff) sorted) or None
        self.bx = bx  # (const_bool, atom)
        self.rad = rad  # radicand (Sym or concrete) for sqrt form

    # ------------------------------------------------------------------ constructors
    @staticmethod
    def bit(name):
        return Sym(lin=(0, ((frozenset([name]), 1),)))

    @staticmethod
    def boolvar(name):
        return Sym(bx=(False, frozenset([name])))

    @staticmethod
    def real(name):
        return Sym(z3.Real(name))

    @staticmethod
    def int(name):
        return Sym(z3.Int(name))

    # ------------------------------------------------------------------ z3 view
    @property
    def e(self):
        if self._e is None:
            if self.lin is not None:
                c, terms = self.lin
                real = _is_real_val(c) or any(_is_real_val(k) for _, k in terms)
                acc = None
                for atom, k in terms:
                    one = _zconst(k, real)
                    t = z3.If(_atom_expr(atom), one, _zconst(0, real))
                    acc = t if acc is None else acc + t
                if c != 0 or acc is None:
                    acc = _zconst(c, real) if acc is None else acc + _zconst(c, real)
                self._e = acc
            elif self.bx is not None:
                c, atom = self.bx
                a = _atom_expr(atom)
                self._e = z3.Not(a) if c else a
            elif self.rad is not None:
                s = fresh("sqrt")
                r = zreal(self.rad)
                side(z3.And(s >= 0, s * s == r))
                self._e = s
            else:
                raise EngineFault("empty Sym")
        return self._e

    @property
    def sort(self):
        """'bool' | 'int' | 'real'"""
        if self._e is None:
            if self.bx is not None:
                return "bool"
            if self.rad is not None:
                return "real"
            c, terms = self.lin
            return "real" if (_is_real_val(c) or any(_is_real_val(k) for _, k in terms)) else "int"
        s = self._e.sort()
        if s == z3.BoolSort():
            return "bool"
        if s == z3.IntSort():
            return "int"
        if s == z3.RealSort():
            return "real"
        raise EngineFault(f"unexpected sort {s}")

    def __repr__(self):
        if self.lin is not None and self._e is None:
            c, terms = self.lin
            return "Lin(%s%s)" % (c, "".join(f" + {k}*[{'^'.join(sorted(a))}]" for a, k in terms))
        if self.bx is not None and self._e is None:
            return "BX(%s ^ %s)" % (int(self.bx[0]), "^".join(sorted(self.bx[1])))
        if self.rad is not None and self._e is None:
            return f"Sqrt({self.rad!r})"
        return f"Sym({self.e})"

    # ------------------------------------------------------------------ concretisation
    def __bool__(self):
        ex = _EXPLORER[0]
        if ex is None:
            raise EngineFault("bool() of a symbolic value outside an exploration")
        return ex.decide(as_bool(self))

    def concretize(self):
        """Fork until this value is concrete (finite domains only)."""
        ex = _EXPLORER[0]
        if ex is None:
            raise EngineFault("concretisation outside an exploration")
        if self.bx is not None:
            return bool(self)
        if self.lin is not None:
            c, terms = self.lin
            val = c
            for atom, k in terms:
                if ex.decide(Sym(bx=(False, atom))):
                    val = val + k
            return norm(val)
        if self.sort == "bool":
            return bool(self)
        if self.sort == "int":
            return ex.decide_value(self)
        # real-sorted values with finitely many feasible values (e.g. a ratio of counts); an infinite domain exhausts the
        # enumeration budget and the obligation becomes undecided
        return ex.decide_value(self)

    def __int__(self):
        v = self.concretize()
        return int(v)

    __index__ = __int__

    def __float__(self):
        v = self.concretize()
        return float(v)

    def __hash__(self):
        return hash(self.concretize())

    def __round__(self, nd=None):
        if self.sort in ("int", "bool") and not nd:
            return self
        return sround(self)

    # ------------------------------------------------------------------ arithmetic
    def __add__(self, o):
        return _tensor_op("add", self, o, False) if _is_tensor(o) else add(self, o)

    def __radd__(self, o):
        return _tensor_op("add", self, o, True) if _is_tensor(o) else add(o, self)

    def __sub__(self, o):
        return _tensor_op("sub", self, o, False) if _is_tensor(o) else sub(self, o)

    def __rsub__(self, o):
        return _tensor_op("sub", self, o, True) if _is_tensor(o) else sub(o, self)

    def __mul__(self, o):
        return _tensor_op("mul", self, o, False) if _is_tensor(o) else mul(self, o)

    def __rmul__(self, o):
        return _tensor_op("mul", self, o, True) if _is_tensor(o) else mul(o, self)

    def __truediv__(self, o):
        return _tensor_op("truediv", self, o, False) if _is_tensor(o) else div(self, o)

    def __rtruediv__(self, o):
        return _tensor_op("truediv", self, o, True) if _is_tensor(o) else div(o, self)

    def __floordiv__(self, o):
        return _tensor_op("floordiv", self, o, False) if _is_tensor(o) else floordiv(self, o)

    def __rfloordiv__(self, o):
        return _tensor_op("floordiv", self, o, True) if _is_tensor(o) else floordiv(o, self)

    def __mod__(self, o):
        return _tensor_op("mod", self, o, False) if _is_tensor(o) else mod(self, o)

    def __rmod__(self, o):
        return _tensor_op("mod", self, o, True) if _is_tensor(o) else mod(o, self)

    def __pow__(self, o):
        return spow(self, o)

    def __neg__(self):
        return mul(-1, self)

    def __pos__(self):
        return self

    def __abs__(self):
        return sabs(self)

    def __eq__(self, o):
        return _tensor_op("eq", self, o, False) if _is_tensor(o) else eq(self, o)

    def __ne__(self, o):
        return _tensor_op("ne", self, o, False) if _is_tensor(o) else lnot(eq(self, o))

    def __lt__(self, o):
        return _tensor_op("lt", self, o, False) if _is_tensor(o) else lt(self, o)

    def __le__(self, o):
        return _tensor_op("le", self, o, False) if _is_tensor(o) else le(self, o)

    def __gt__(self, o):
        return _tensor_op("gt", self, o, False) if _is_tensor(o) else lt(o, self)

    def __ge__(self, o):
        return _tensor_op("ge", self, o, False) if _is_tensor(o) else le(o, self)

    def __and__(self, o):
        return land(self, o)

    __rand__ = __and__

    def __or__(self, o):
        return lor(self, o)

    __ror__ = __or__

    def __xor__(self, o):
        return lxor(self, o)

    __rxor__ = __xor__

    def __invert__(self):
        if self.sort == "bool":
            return lnot(self)
        # ~x on integers == -x-1
        return sub(mul(-1, self), 1)


# ----------------------------------------------------------------------------------------------
# helpers on representations
def _lin_of(v):
    """Return lin form (const, dict atom->coeff) of v, or None."""
    if isinstance(v, Sym):
        if v.lin is not None:
            return v.lin[0], dict(v.lin[1])
        if v.bx is not None:
            c, atom = v.bx
            return (1, {atom: -1}) if c else (0, {atom: 1})
        return None
    if isinstance(v, bool):
        return int(v), {}
    if isinstance(v, (int, Fraction)):
        return v, {}
    return None


def _mk_lin(c, terms):
    terms = {a: k for a, k in terms.items() if k != 0}
    c = norm(c)
    if not terms:
        return c
    items = tuple(sorted(((a, norm(k)) for a, k in terms.items()), key=lambda t: sorted(t[0])))
    return Sym(lin=(c, items))


def as_bit(v):
    """If v is a {0,1}-valued single-atom lin, return (const_bit, atom); concrete 0/1 -> (v, None)."""
    if isinstance(v, Sym):
        if v.bx is not None:
            return (1 if v.bx[0] else 0), v.bx[1]
        if v.lin is not None:
            c, terms = v.lin
            if len(terms) == 1:
                atom, k = terms[0]
                if c == 0 and k == 1:
                    return 0, atom
                if c == 1 and k == -1:
                    return 1, atom
        return None
    if isinstance(v, bool):
        return int(v), None
    if isinstance(v, (int, Fraction)) and v in (0, 1):
        return int(v), None
    return None


def mk_bit(c, atom):
    if not atom:
        return int(c) & 1
    return Sym(lin=((1, ((atom, -1),)) if (c & 1) else (0, ((atom, 1),))))


def is_int_like(v):
    """True when the value is known to be integer valued."""
    if isinstance(v, Sym):
        return v.sort in ("int", "bool")
    return isinstance(v, (bool, int)) or (isinstance(v, Fraction) and v.denominator == 1)


def zreal(v):
    """z3 Real expression for a scalar."""
    if isinstance(v, Sym):
        s = v.sort
        if s == "real":
            return v.e
        if s == "int":
            return z3.ToReal(v.e)
        return z3.If(v.e, z3.RealVal(1), z3.RealVal(0))
    return _zconst(v, True)


def zint(v):
    if isinstance(v, Sym):
        s = v.sort
        if s == "int":
            return v.e
        if s == "bool":
            return z3.If(v.e, z3.IntVal(1), z3.IntVal(0))
        raise EngineFault("zint of a real-sorted value")
    if isinstance(v, Fraction):
        if v.denominator != 1:
            raise EngineFault("zint of a non-integral constant")
        v = int(v)
    return _zconst(v, False)


def znum(a, b):
    """Coerce two scalars to a common numeric z3 sort; returns (ea, eb, is_real)."""
    ra = (a.sort == "real") if isinstance(a, Sym) else _is_real_val(a)
    rb = (b.sort == "real") if isinstance(b, Sym) else _is_real_val(b)
    if ra or rb:
        return zreal(a), zreal(b), True
    return zint(a), zint(b), False


def as_bool(v):
    """Sym (any sort) or concrete -> z3 Bool expr or Python bool (truthiness)."""
    if isinstance(v, Sym):
        if v.sort == "bool":
            return v.e
        if v.lin is not None:
            r = ne(v, 0)
            return r.e if isinstance(r, Sym) else r
        return v.e != 0
    return bool(v)


def zbool(v):
    r = as_bool(v)
    return r if not isinstance(r, bool) else z3.BoolVal(r)


def _isnonfinite(v):
    return isinstance(v, float)


# ----------------------------------------------------------------------------------------------
# arithmetic
def add(a, b):
    a, b = _nf(a), _nf(b)
    if not isinstance(a, Sym) and not isinstance(b, Sym):
        if isinstance(a, float) or isinstance(b, float):
            return float(a) + float(b)
        return norm(a + b)
    la, lb = _lin_of(a), _lin_of(b)
    if la is not None and lb is not None:
        c = la[0] + lb[0]
        t = dict(la[1])
        for atom, k in lb[1].items():
            t[atom] = t.get(atom, 0) + k
        return _mk_lin(c, t)
    if not isinstance(a, Sym) and a == 0 and not isinstance(a, float):
        return b
    if not isinstance(b, Sym) and b == 0 and not isinstance(b, float):
        return a
    ea, eb, _ = znum(a, b)
    return Sym(ea + eb)


def sub(a, b):
    a, b = _nf(a), _nf(b)
    if not isinstance(a, Sym) and not isinstance(b, Sym):
        if isinstance(a, float) or isinstance(b, float):
            return float(a) - float(b)
        return norm(a - b)
    la, lb = _lin_of(a), _lin_of(b)
    if la is not None and lb is not None:
        c = la[0] - lb[0]
        t = dict(la[1])
        for atom, k in lb[1].items():
            t[atom] = t.get(atom, 0) - k
        return _mk_lin(c, t)
    if not isinstance(b, Sym) and b == 0 and not isinstance(b, float):
        return a
    ea, eb, _ = znum(a, b)
    return Sym(ea - eb)


def mul(a, b):
    a, b = _nf(a), _nf(b)
    if not isinstance(a, Sym) and not isinstance(b, Sym):
        if isinstance(a, float) or isinstance(b, float):
            return float(a) * float(b)
        return norm(a * b)
    if not isinstance(a, Sym):
        a, b = b, a
    # a is Sym
    if not isinstance(b, Sym):
        if isinstance(b, float):
            raise Unsupported("symbolic * non-finite")
        b = norm(b)
        if b == 0:
            return 0
        if b == 1:
            return a if a.sort != "bool" else add(a, 0)
        la = _lin_of(a)
        if la is not None:
            return _mk_lin(la[0] * b, {atom: k * b for atom, k in la[1].items()})
        ea, eb, _ = znum(a, b)
        return Sym(ea * eb)
    # both symbolic
    ba, bb = as_bit(a), as_bit(b)
    if ba is not None and bb is not None and ba[1] == bb[1]:
        # same atom: (c1^A)*(c2^A) = (c1^A) if c1==c2 else 0
        return add(a, 0) if ba[0] == bb[0] else 0
    if a.rad is not None and b.rad is not None and a is b:
        return a.rad
    ea, eb, _ = znum(a, b)
    return Sym(ea * eb)


def div(a, b):
    a, b = _nf(a), _nf(b)
    if not isinstance(a, Sym) and not isinstance(b, Sym):
        if isinstance(a, float) or isinstance(b, float):
            return float(a) / float(b) if b != 0 else math.copysign(math.inf, float(a)) if a != 0 else math.nan
        if b == 0:
            if a == 0:
                return math.nan
            return math.inf if a > 0 else -math.inf
        return norm(Fraction(a) / Fraction(b))
    if not isinstance(b, Sym):
        if isinstance(b, float):
            if math.isinf(b):
                return 0
            raise Unsupported("symbolic / nan")
        b = norm(b)
        if b == 0:
            raise Unsupported("symbolic / 0")
        return mul(a, Fraction(1) / Fraction(b))
    if not isinstance(a, Sym) and not isinstance(a, float) and a == 0:
        # 0 / sym : assume divisor non-zero is NOT sound in general; keep the term
        pass
    return Sym(zreal(a) / zreal(b))


def floordiv(a, b):
    a, b = _nf(a), _nf(b)
    if not isinstance(a, Sym) and not isinstance(b, Sym):
        return norm(a // b)
    if isinstance(b, Sym):
        raise Unsupported("// by a symbolic divisor")
    b = norm(b)
    if b <= 0:
        raise Unsupported("// by a non-positive divisor")
    if is_int_like(a) and is_int_like(b):
        return Sym(zint(a) / zint(b))  # z3 int division floors for positive divisors
    return Sym(z3.ToInt(zreal(a) / zreal(b)))


def mod(a, b):
    a, b = _nf(a), _nf(b)
    """Python/torch.remainder semantics (sign of the divisor); only positive concrete divisors."""
    if not isinstance(a, Sym) and not isinstance(b, Sym):
        if isinstance(a, float) or isinstance(b, float):
            return math.fmod(a, b) if not (math.isinf(a)) else math.nan
        return norm(a % b)
    if isinstance(b, Sym):
        raise Unsupported("% by a symbolic divisor")
    b = norm(b)
    if isinstance(b, float) or b <= 0:
        raise Unsupported("% by a non-positive divisor")
    la = _lin_of(a)
    if la is not None and b == 2 and is_int_like(la[0]) and all(is_int_like(k) for k in la[1].values()):
        c = int(la[0]) & 1
        atom = frozenset()
        for at, k in la[1].items():
            if int(k) & 1:
                atom = atom ^ at
        return mk_bit(c, atom)
    if is_int_like(a) and is_int_like(b):
        return Sym(zint(a) % zint(b))
    ra = zreal(a)
    rb = zreal(b)
    return Sym(ra - rb * z3.ToReal(z3.ToInt(ra / rb)))


def spow(a, p):
    a, p = _nf(a), _nf(p)
    if not isinstance(a, Sym) and not isinstance(p, Sym):
        if isinstance(a, float) or isinstance(p, float):
            return float(a) ** float(p)
        p = norm(p)
        if isinstance(p, int):
            if p >= 0:
                return norm(a**p)
            return norm(Fraction(1) / Fraction(a) ** (-p))
        if p == Fraction(1, 2):
            return ssqrt(a)
        return norm(float(a) ** float(p))
    if isinstance(p, Sym):
        raise Unsupported("symbolic exponent")
    p = norm(p)
    if p == Fraction(1, 2):
        return ssqrt(a)
    if not isinstance(a, Sym):
        raise EngineFault("spow")
    if not isinstance(p, int):
        raise Unsupported(f"power {p} of a symbolic value")
    if p == 0:
        return 1
    if p < 0:
        return div(1, spow(a, -p))
    if p == 2 and a.rad is not None:
        return a.rad
    if p >= 1:
        b = as_bit(a)
        if b is not None:
            return add(a, 0)  # bit**p == bit
    r = a
    for _ in range(p - 1):
        r = Sym(znum(r, a)[0] * znum(r, a)[1])
    return r


def ssqrt(a):
    if not isinstance(a, Sym):
        if isinstance(a, float):
            return math.sqrt(a) if a >= 0 else math.nan
        a = norm(a)
        if a < 0:
            return math.nan
        # exact rational square roots stay exact
        fa = Fraction(a)
        rn, rd = math.isqrt(fa.numerator), math.isqrt(fa.denominator)
        if rn * rn == fa.numerator and rd * rd == fa.denominator:
            return norm(Fraction(rn, rd))
        return norm(math.sqrt(float(fa)))
    return Sym(rad=a)


def sabs(a):
    if not isinstance(a, Sym):
        return abs(a)
    if a.rad is not None:
        return a
    if a.sort == "bool":
        return add(a, 0)
    b = as_bit(a)
    if b is not None:
        return a
    e = a.e
    return Sym(z3.If(e >= 0, e, -e))


def sround(a):
    """round-half-even is not modelled; integer-valued inputs are returned unchanged, reals go through floor(x+1/2)
    which differs from torch.round only at exact .5 ties (stated in the assumptions)."""
    if not isinstance(a, Sym):
        if isinstance(a, float):
            return a
        return norm(round(Fraction(a)))
    if a.sort in ("int", "bool"):
        return add(a, 0)
    return Sym(z3.ToInt(a.e + z3.RealVal("1/2")))


def sfloor(a):
    if not isinstance(a, Sym):
        return norm(math.floor(a)) if not isinstance(a, float) else a
    if a.sort in ("int", "bool"):
        return add(a, 0)
    return Sym(z3.ToInt(a.e))


def strunc(a):
    """truncation toward zero (tensor.long()/int())"""
    if not isinstance(a, Sym):
        if isinstance(a, float):
            raise Unsupported("int cast of non-finite")
        return int(a)
    if a.sort in ("int", "bool"):
        return add(a, 0)
    e = a.e
    return Sym(z3.If(e >= 0, z3.ToInt(e), -z3.ToInt(-e)))


def ssign(a):
    if not isinstance(a, Sym):
        if isinstance(a, float):
            return math.copysign(1, a) if not math.isnan(a) else a
        return (a > 0) - (a < 0)
    e = zreal(a) if a.sort == "real" else zint(a)
    one, zero, mone = (z3.RealVal(1), z3.RealVal(0), z3.RealVal(-1)) if a.sort == "real" else (z3.IntVal(1), z3.IntVal(0), z3.IntVal(-1))
    return Sym(z3.If(e > 0, one, z3.If(e < 0, mone, zero)))


# ----------------------------------------------------------------------------------------------
# comparisons and logic
def _cmp_lin1(d, pred):
    """d = c + k*[atom] (single term): evaluate predicate pred(value) for atom in {0,1}."""
    c, terms = d.lin
    atom, k = terms[0]
    v0, v1 = pred(c), pred(c + k)
    if v0 == v1:
        return bool(v0)
    # true exactly when atom == 1 (v1) else when atom == 0
    return Sym(bx=(not v1, atom))


def eq(a, b):
    a, b = _nf(a), _nf(b)
    if not isinstance(a, Sym) and not isinstance(b, Sym):
        return a == b
    if isinstance(a, float) or isinstance(b, float):
        return False
    if isinstance(a, Sym) and isinstance(b, Sym) and a is b:
        return True
    sa = a.sort if isinstance(a, Sym) else None
    sb = b.sort if isinstance(b, Sym) else None
    if sa == "bool" and sb == "bool":
        if a.bx is not None and b.bx is not None:
            atom = a.bx[1] ^ b.bx[1]
            c = a.bx[0] ^ b.bx[0]
            if not atom:
                return not c
            return Sym(bx=(not c, atom))
        return Sym(a.e == b.e)
    if sa == "bool" and isinstance(b, bool):
        return a if b else lnot(a)
    if sb == "bool" and isinstance(a, bool):
        return b if a else lnot(b)
    la, lb = _lin_of(a), _lin_of(b)
    if la is not None and lb is not None:
        d = sub(a, b)
        if not isinstance(d, Sym):
            return d == 0
        if d.lin is not None and len(d.lin[1]) == 1:
            return _cmp_lin1(d, lambda v: v == 0)
        if d.lin is not None and len(d.lin[1]) == 2:
            # c + k1*A + k2*B == 0
            c, ((A, k1), (B, k2)) = d.lin
            sols = [(x, y) for x in (0, 1) for y in (0, 1) if c + k1 * x + k2 * y == 0]
            if not sols:
                return False
            if sols == [(0, 0), (1, 1)]:
                return Sym(bx=(True, A ^ B)) if (A ^ B) else True
            if sols == [(0, 1), (1, 0)]:
                return Sym(bx=(False, A ^ B)) if (A ^ B) else False
        return Sym(d.e == 0)
    if isinstance(a, Sym) and isinstance(b, Sym) and a.rad is not None and b.rad is not None:
        return eq(a.rad, b.rad)
    ea, eb, _ = znum(a, b)
    return Sym(ea == eb)


def ne(a, b):
    return lnot(eq(a, b))


def lt(a, b):
    a, b = _nf(a), _nf(b)
    if not isinstance(a, Sym) and not isinstance(b, Sym):
        return a < b
    if isinstance(a, float):
        if math.isnan(a):
            return False
        return a < 0  # -inf < anything finite ; +inf < x false
    if isinstance(b, float):
        if math.isnan(b):
            return False
        return b > 0
    la, lb = _lin_of(a), _lin_of(b)
    if la is not None and lb is not None:
        d = sub(a, b)
        if not isinstance(d, Sym):
            return d < 0
        if len(d.lin[1]) == 1:
            return _cmp_lin1(d, lambda v: v < 0)
        lo, hi = lin_range(d)
        if hi < 0:
            return True
        if lo >= 0:
            return False
        return Sym(d.e < 0)
    if isinstance(a, Sym) and isinstance(b, Sym) and a.rad is not None and b.rad is not None:
        return lt(a.rad, b.rad)
    ea, eb, _ = znum(a, b)
    return Sym(ea < eb)


def le(a, b):
    a, b = _nf(a), _nf(b)
    if not isinstance(a, Sym) and not isinstance(b, Sym):
        return a <= b
    if isinstance(a, float):
        if math.isnan(a):
            return False
        return a < 0
    if isinstance(b, float):
        if math.isnan(b):
            return False
        return b > 0
    la, lb = _lin_of(a), _lin_of(b)
    if la is not None and lb is not None:
        d = sub(a, b)
        if not isinstance(d, Sym):
            return d <= 0
        if len(d.lin[1]) == 1:
            return _cmp_lin1(d, lambda v: v <= 0)
        lo, hi = lin_range(d)
        if hi <= 0:
            return True
        if lo > 0:
            return False
        return Sym(d.e <= 0)
    if isinstance(a, Sym) and isinstance(b, Sym) and a.rad is not None and b.rad is not None:
        return le(a.rad, b.rad)
    ea, eb, _ = znum(a, b)
    return Sym(ea <= eb)


def lin_range(v):
    """(min, max) of a lin value assuming its atoms range freely (an over-approximation)."""
    c, terms = v.lin
    lo = c + sum(k for _, k in terms if k < 0)
    hi = c + sum(k for _, k in terms if k > 0)
    return lo, hi


def lnot(a):
    if not isinstance(a, Sym):
        return not a
    if a.bx is not None:
        return Sym(bx=(not a.bx[0], a.bx[1]))
    if a.sort != "bool":
        return eq(a, 0)
    return Sym(z3.Not(a.e))


def land(a, b):
    a, b = _nf(a), _nf(b)
    sa = isinstance(a, Sym)
    sb = isinstance(b, Sym)
    if not sa and not sb:
        if isinstance(a, bool) and isinstance(b, bool):
            return a and b
        return a & b
    if (sa and a.sort != "bool") or (sb and b.sort != "bool") or (not sa and not isinstance(a, bool)) or (not sb and not isinstance(b, bool)):
        # integer bitwise and: only 0/1 operands are modelled
        ba, bb = as_bit(a), as_bit(b)
        if ba is None or bb is None:
            raise Unsupported("bitwise & on non-bit symbolic integers")
        return mul(a, b)
    if not sa:
        return b if a else False
    if not sb:
        return a if b else False
    return Sym(z3.And(a.e, b.e))


def lor(a, b):
    a, b = _nf(a), _nf(b)
    sa = isinstance(a, Sym)
    sb = isinstance(b, Sym)
    if not sa and not sb:
        if isinstance(a, bool) and isinstance(b, bool):
            return a or b
        return a | b
    if (sa and a.sort != "bool") or (sb and b.sort != "bool") or (not sa and not isinstance(a, bool)) or (not sb and not isinstance(b, bool)):
        ba, bb = as_bit(a), as_bit(b)
        if ba is None or bb is None:
            raise Unsupported("bitwise | on non-bit symbolic integers")
        return sub(add(a, b), mul(a, b))
    if not sa:
        return True if a else b
    if not sb:
        return True if b else a
    return Sym(z3.Or(a.e, b.e))


def lxor(a, b):
    a, b = _nf(a), _nf(b)
    sa = isinstance(a, Sym)
    sb = isinstance(b, Sym)
    if not sa and not sb:
        return a ^ b
    boolish = lambda v, s: (v.sort == "bool") if s else isinstance(v, bool)
    if boolish(a, sa) and boolish(b, sb):
        if not sa:
            return lnot(b) if a else b
        if not sb:
            return lnot(a) if b else a
        if a.bx is not None and b.bx is not None:
            atom = a.bx[1] ^ b.bx[1]
            c = a.bx[0] ^ b.bx[0]
            return Sym(bx=(c, atom)) if atom else c
        return Sym(z3.Xor(a.e, b.e))
    ba, bb = as_bit(a), as_bit(b)
    if ba is None or bb is None:
        raise Unsupported("bitwise ^ on non-bit symbolic integers")
    return mod(add(a, b), 2)


def ite(c, a, b):
    a, b = _nf(a), _nf(b)
    if not isinstance(c, Sym):
        return a if c else b
    if not isinstance(a, Sym) and not isinstance(b, Sym):
        if isinstance(a, float) or isinstance(b, float):
            raise Unsupported("ite over non-finite constants")
        if isinstance(a, bool) and isinstance(b, bool):
            if a == b:
                return a
            return c if a else lnot(c)
        if a == b:
            return a
    if isinstance(a, Sym) and a is b:
        return a
    cb = zbool(c)
    abool = (a.sort == "bool") if isinstance(a, Sym) else isinstance(a, bool)
    bbool = (b.sort == "bool") if isinstance(b, Sym) else isinstance(b, bool)
    if abool and bbool:
        return Sym(z3.If(cb, zbool(a), zbool(b)))
    ea, eb, _ = znum(a, b)
    return Sym(z3.If(cb, ea, eb))


def smin(a, b):
    a, b = _nf(a), _nf(b)
    c = lt(b, a)
    return ite(c, b, a)


def smax(a, b):
    a, b = _nf(a), _nf(b)
    c = lt(a, b)
    return ite(c, b, a)


# ----------------------------------------------------------------------------------------------
# uninterpreted real functions with per-occurrence axioms (DESIGN 4.3)
_UF = {}


def _uf(name):
    if name not in _UF:
        _UF[name] = z3.Function(name, z3.RealSort(), z3.RealSort())
    return _UF[name]


def uf_apply(name, a):
    """Apply an axiomatised real function; concrete arguments are evaluated in float64 and returned as exact rationals."""
    if not isinstance(a, Sym):
        fa = float(a)
        table = {
            "exp": math.exp,
            "log": lambda v: math.log(v) if v > 0 else (-math.inf if v == 0 else math.nan),
            "log2": lambda v: math.log2(v) if v > 0 else (-math.inf if v == 0 else math.nan),
            "log10": lambda v: math.log10(v) if v > 0 else (-math.inf if v == 0 else math.nan),
            "tanh": math.tanh,
            "atanh": lambda v: math.atanh(v) if abs(v) < 1 else (math.copysign(math.inf, v) if abs(v) == 1 else math.nan),
            "sigmoid": lambda v: 1 / (1 + math.exp(-v)) if v > -700 else 0.0,
            "sin": math.sin,
            "cos": math.cos,
        }
        return norm(table[name](fa))
    f = _uf(name)
    x = zreal(a)
    y = f(x)
    ex = _EXPLORER[0]
    if ex is not None:
        ex.note_uf(name, x, y)
    return Sym(y)
