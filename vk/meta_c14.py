"""Evidence metadata for C14 (merged into vk/meta.py PROPS["C14"]): constellation part (contracts/c14.py) and Gray utilities (contracts/c14_gray.py)."""

META = {
    "level": "proof",
    "trusted_base": [
        "ground evaluation (contracts/c14.py, about 60 lines of exact Fraction arithmetic independent of /repo): distinctness, label bijection, mean |c|^2, nearest-neighbour pairs and Hamming distances "
        "computed on the exact rationals of the float32 values stored in the buffers the real constructors registered",
        "engine E1 in BV(64) mode for binary_to_gray / gray_to_binary (see contracts/c14_gray.py): the real source is executed over 64-bit vectors, the while loop unrolled 65 times with an unwinding assertion",
        "the link 'label -> point' is observed by calling the real forward() on every row of the published bit_patterns table (1-D and (1, b) layouts); C05 proves that forward() applies this one-symbol map at every position",
    ],
    "assumptions": [
        "all admissible configurations are enumerated: BPSK, QPSK +-normalize, PSK 4..64 +-gray, QAM 4..256 +-gray +-normalize, PAM 2..64 +-gray +-normalize, DPSK 2..16 +-gray, DBPSK, DQPSK, OQPSK +-normalize, "
        "pi/4-QPSK +-gray (both constellations), identity (quick tier: <= 16 points)",
        "unit average energy is demanded when normalize=True (QAM, PAM, QPSK, OQPSK) and for the PSK-type schemes without such an option (BPSK, PSK, DPSK family, pi/4-QPSK); tolerance 1e-6 on mean |c|^2 (float32 tables)",
        "nearest neighbours = pairs whose Euclidean distance d satisfies d <= dmin*(1+1e-6) + 2^-19*max|coordinate| (1e-6 relative tie window plus the float32 error of tables computed in float32 from float32 angles/levels; "
        "the next-nearest pairs of every enumerated table are at >= 1.41 dmin, far outside the window)",
        "Gray labelling is demanded where it is requested by an option (PSK, QAM, PAM, DPSK, pi/4-QPSK), fixed by a subclass (DQPSK) or documented by the class (QPSK)",
        "BPSK and identity publish no bit_patterns table: the label of point i is the one-bit word i; checked through forward()",
        "Gray utilities: proved for all operands below 2^64 (BV mode); negative operands in unbounded integer mode",
    ],
    "out_of_reach": [
        "binary_array_to_gray / gray_array_to_binary convert each element with int(num) (full concretisation): bounded stand-in only (all ints < 2^12 as list / int64 / int32 / int16 / uint8 / float tensors, "
        "seeded ints < 2^60, empty inputs): elementwise map of the scalar functions, dtype / device / shape preserved, input unmodified",
        "custom constellations passed to PSKModulator(constellation=...)",
    ],
}
