"""Evidence metadata for C13 (merged into vk/meta.py PROPS["C13"])."""

META = {
    "level": "proof",
    "trusted_base": [
        "RNG contract stub and moment lemma L-moment as in C07 (fresh symbols for torch.randn; E|LOS + sum_j C_j g_j|^2 = |LOS|^2 + sum_j |C_j|^2 for independent zero-mean unit-variance g_j; disjoint symbols => independence)",
        "re-execution of the real functions at chosen points of the draw space (contracts/c07.py:eval_at) to obtain LOS = h(g=0) and the coefficients C_j = h(e_j) - h(0); contracts/c07.py normalisers (polynomial / sqrt-square normal form)",
        "C07 noise algebra (contracts/c07.py:noise_algebra) applied to the noise stage of FlatFadingChannel.forward with the fading draws held fixed and symbolic",
    ],
    "assumptions": [
        "torch.randn entries are independent, mean 0, variance 1 (assumed, never sampled)",
        "shapes: 1-D (3,), (4,); (B,L) in {(2,3), (2,2), (1,4)}; (B,C,H,W) in {(2,1,2,1), (1,2,1,2), (2,2,1,1)}; real and complex inputs; coherence times 1..L+1 for L in 1..7 in C13.expand (quick tier: a subset), 1..4 elsewhere; "
        "K-factor symbolic (K >= 0, passed through the real RicianFadingChannel-style constructor path) and on the grid 0..100; noise by symbolic power, by power 1e-3/1e3 and by SNR in {-20, 0, 10, 40} dB",
        "tolerance 1e-6 relative (+1e-12) on equalities involving float constants (2**0.5, sqrt(K/(K+1)) evaluated in float32 for concrete K)",
        "C13.forward rebuilds the expanded gain in the SPEC from the blocks the real generator returns for the same draws (index i // T); the generator's law is C13.generate, the expansion is C13.expand",
        "log-normal fading: structure only (shape, one gain per block and batch item, each gain depends on the symbols of its own position only, noise stage as C07); its moments involve E exp(sigma g), outside the moment calculus; "
        "registered without the harness' model-based differential cross-check because exp is uninterpreted in the solver model",
        "supplied csi/noise: csi and noise given in the flattened (B, L) layout the channel works in (and (L,) for 1-D input)",
    ],
    "out_of_reach": [
        "gain statistics on 1e6 blocks (empirical E|h|^2, K estimate): follow from the proved coefficients plus the RNG contract; not sampled",
        "log-normal shadowing mean/variance (E exp) - see assumptions",
    ],
}
