"""Evidence metadata for C09."""

META = {
    "level": "proof",
    "trusted_base": [
        "the whole real ChannelCodeModel.forward is executed symbolically (encoder, modulator, IdentityConstraint, channel, demodulator, decoder are the real objects; only the channel's perturbation is supplied by the harness through the real LambdaChannel)",
        "minimum distance of each constellation is computed exactly (rationals of the stored float32 values); displacements are constrained to |delta|^2 < (1-1e-6) (d_min/2)^2",
        "C17 (stage order / fold), C01, C02, C05, C06 for the composition argument",
    ],
    "assumptions": [
        "bit flips are placed as sign flips of the corresponding symbol component, which is the effect of a flipped code bit for BPSK/QPSK; for other constellations the bounded-error clause is the displacement clause of the property",
        "pairings: 8 (code, decoder) x 6 modulations where the path budget allows (quick: <= 16 code bits per call)",
        "soft-decision chains: Wagner / SC min-sum / soft Reed-Muller behind BPSK and QPSK soft demodulation (noise variance symbolic for the ideal channel, grid {0.1, 2.5} for displaced symbols); displaced QPSK for 8-bit codes and BP decoders are not composed here (C10/C11/C15 cover the stages)",
    ],
    "out_of_reach": ["Berlekamp-Massey decoder inside the chain: bounded stand-in (seeded random messages and flip patterns)"],
}
