"""TorchFunctionMode that executes unmodified torch code on SymTensors (DESIGN.md 3.3)."""
from __future__ import annotations

import numpy as np
import torch
from torch.overrides import TorchFunctionMode

from . import sym as S
from .tensor import SymTensor, lift, lower

HANDLERS = {}  # func -> (handler, flags)
PROP_HANDLERS = {}  # property name -> handler
OPS_USED = set()
EPOCH = [0]  # bumped by every in-place write; invalidates lowered caches

NATIVE_NAMES = {
    "dim", "size", "numel", "is_complex", "is_floating_point", "__len__", "stride", "storage_offset", "ndimension",
    "is_contiguous", "element_size", "nelement", "get_device", "is_sparse", "is_quantized", "is_nested", "type",
    "_is_view", "is_inference", "is_signed", "is_set_to", "has_names", "is_shared", "is_pinned", "data_ptr",
    "requires_grad_", "retain_grad", "register_hook", "is_same_size", "is_conj", "is_neg", "dim_order", "__reduce_ex__",
    "is_grad_enabled", "set_grad_enabled", "_has_compatible_shallow_copy_type", "is_tensor", "is_storage", "get_default_dtype",
    "set_default_dtype", "manual_seed", "seed", "initial_seed", "get_rng_state", "set_rng_state", "is_autocast_enabled",
    "_get_tracing_state", "is_warn_always_enabled", "finfo", "iinfo", "result_type", "promote_types", "can_cast", "__dlpack__",
    "is_floating_point", "is_nonzero_", "_is_zerotensor", "is_leaf", "__get__name__", "broadcast_shapes", "set_num_threads",
    "get_num_threads", "is_inference_mode_enabled", "_C._get_tracing_state", "typename", "__hash__", "__deepcopy__",
}
NATIVE_PROPS = {
    "shape", "dtype", "device", "requires_grad", "grad", "grad_fn", "is_leaf", "ndim", "layout", "is_cuda", "is_cpu", "is_meta",
    "names", "is_sparse", "is_quantized", "output_nr", "_version", "is_mkldnn", "is_xpu", "is_mps", "itemsize", "nbytes", "_base",
    "is_nested", "retains_grad", "is_sparse_csr", "is_ipu", "is_xla", "is_ort", "is_vulkan", "is_maia", "is_mtia", "_grad", "_backward_hooks",
    "_post_accumulate_grad_hooks", "volatile", "name", "is_hpu",
}

INPLACE_DUNDER = {
    "__setitem__", "__iadd__", "__isub__", "__imul__", "__itruediv__", "__ifloordiv__", "__imod__", "__ixor__", "__ior__", "__iand__",
    "__ilshift__", "__irshift__", "__ipow__",
}


def reg(*funcs, nometa=False):
    def deco(h):
        for f in funcs:
            HANDLERS[f] = (h, nometa)
        return h

    return deco


def regprop(name):
    def deco(h):
        PROP_HANDLERS[name] = h
        return h

    return deco


class Res:
    """Payload result of a symbolic handler; dtype None => taken from the meta oracle."""

    __slots__ = ("re", "im", "dtype")

    def __init__(self, re, im=None, dtype=None):
        self.re = re
        self.im = im
        self.dtype = dtype


def _walk(o, f):
    if isinstance(o, torch.Tensor):
        return f(o)
    if isinstance(o, (list, tuple)):
        r = [_walk(i, f) for i in o]
        if isinstance(o, torch.Size):
            return o
        try:
            return type(o)(r)
        except TypeError:
            return type(o)(*r)  # namedtuple
    if isinstance(o, dict):
        return {k: _walk(v, f) for k, v in o.items()}
    return o


def _any(o, p):
    if isinstance(o, torch.Tensor):
        return p(o)
    if isinstance(o, S.Sym):
        return p(o)
    if isinstance(o, (list, tuple)) and not isinstance(o, torch.Size):
        return any(_any(i, p) for i in o)
    if isinstance(o, dict):
        return any(_any(v, p) for v in o.values())
    return False


def _is_symbolic(o):
    if isinstance(o, S.Sym):
        return True
    return isinstance(o, SymTensor) and not o.is_concrete()


def _is_symt(o):
    return isinstance(o, (SymTensor, S.Sym))


def _lower_cached(t):
    if not isinstance(t, SymTensor):
        return t
    c = getattr(t, "_lowc", None)
    if c is not None and c[0] == EPOCH[0]:
        return c[1]
    t._low = None
    r = lower(t)
    t._low = None
    t._lowc = (EPOCH[0], r)
    return r


def _to_meta(t):
    with torch._C.DisableTorchFunctionSubclass():
        if isinstance(t, SymTensor):
            return torch.empty(tuple(t.shape), dtype=t.dtype, device="meta")
        return torch.empty(tuple(t.shape), dtype=t.dtype, device="meta")


class MetaMismatch(S.EngineFault):
    pass


def _wrap(res, meta):
    """Combine handler payload with meta shape/dtype."""
    if isinstance(res, Res):
        if isinstance(meta, torch.Tensor):
            if tuple(meta.shape) != tuple(res.re.shape):
                raise MetaMismatch(f"shape: symbolic {tuple(res.re.shape)} vs torch {tuple(meta.shape)}")
            dt = meta.dtype
            if res.dtype is not None and res.dtype != dt:
                raise MetaMismatch(f"dtype: symbolic {res.dtype} vs torch {dt}")
        else:
            dt = res.dtype
            if dt is None:
                raise S.EngineFault("handler gave no dtype and no meta result is available")
        im = res.im
        if dt.is_complex and im is None:
            from .tensor import oarr

            im = oarr(res.re.shape, 0)
        if not dt.is_complex and im is not None:
            raise MetaMismatch("complex payload for a real dtype")
        return SymTensor(res.re, im, dt)
    if isinstance(res, (tuple, list)) and any(isinstance(r, Res) for r in res):
        metas = list(meta) if isinstance(meta, (tuple, list)) else [None] * len(res)
        out = [_wrap(r, m) for r, m in zip(res, metas)]
        return tuple(out) if isinstance(res, tuple) else out
    return res


RNG_FUNCS = {
    torch.rand: ("uniform", "shape"),
    torch.rand_like: ("uniform", "like"),
    torch.randn: ("normal", "shape"),
    torch.randn_like: ("normal", "like"),
}
RNG_UNSUPPORTED = {"bernoulli", "randint", "randint_like", "randperm", "normal", "multinomial", "poisson", "uniform_", "normal_", "exponential_", "bernoulli_", "random_", "cauchy_", "log_normal_", "geometric_"}


def rng_request(func, args, kwargs):
    """(law, shape, dtype) of a torch RNG call"""
    law, how = RNG_FUNCS[func]
    if how == "like":
        x = args[0]
        return law, tuple(x.shape), kwargs.get("dtype") or x.dtype
    shape = args
    if len(shape) == 1 and isinstance(shape[0], (tuple, list, torch.Size)):
        shape = tuple(shape[0])
    if "size" in kwargs:
        shape = tuple(kwargs["size"])
    return law, tuple(int(v) for v in shape), kwargs.get("dtype") or torch.get_default_dtype()


class SymMode(TorchFunctionMode):
    def __init__(self, strict_meta=True, rng=None):
        super().__init__()
        self.strict_meta = strict_meta
        self.rng = rng  # object with .draw(law, shape, dtype) -> tensor  (contract stub for torch.rand*/randn*)

    def __torch_function__(self, func, types, args=(), kwargs=None):
        kwargs = kwargs or {}
        name = getattr(func, "__name__", None) or str(func)
        if func in RNG_FUNCS:
            if self.rng is None:
                raise S.Unsupported(f"random number generation ({name}) without an RNG contract stub")
            law, shape, dtype = rng_request(func, args, kwargs)
            OPS_USED.add("rng:" + name)
            return self.rng.draw(law, shape, dtype)
        if name in RNG_UNSUPPORTED:
            raise S.Unsupported(f"random number generation through {name} has no contract stub")
        # ---- property getters
        if name == "__get__":
            prop = getattr(getattr(func, "__self__", None), "__name__", "")
            if prop in PROP_HANDLERS and isinstance(args[0], SymTensor):
                OPS_USED.add("prop:" + prop)
                return PROP_HANDLERS[prop](args[0])
            with torch._C.DisableTorchFunctionSubclass():
                return func(*args, **kwargs)
        if name == "__set__":
            with torch._C.DisableTorchFunctionSubclass():
                return func(*args, **kwargs)
        if name in NATIVE_NAMES:
            with torch._C.DisableTorchFunctionSubclass():
                return func(*args, **kwargs)
        has_sym = _any((args, kwargs), _is_symt)
        if not has_sym:
            # only real tensors / python values: run natively and lift what comes out
            with torch._C.DisableTorchFunctionSubclass():
                out = func(*args, **kwargs)
            inplace = name in INPLACE_DUNDER or (name.endswith("_") and not name.endswith("__"))
            if inplace:
                return out
            return _walk(out, lambda t: lift(t) if not isinstance(t, torch.nn.Parameter) else t)
        symbolic = _any((args, kwargs), _is_symbolic)
        inplace = name in INPLACE_DUNDER or (name.endswith("_") and not name.endswith("__")) or "out" in kwargs
        ent = HANDLERS.get(func)
        if not symbolic and not inplace and not (ent and ent[1] == "always"):
            largs = _walk(args, _lower_cached)
            lkw = _walk(kwargs, _lower_cached)
            with torch._C.DisableTorchFunctionSubclass():
                out = func(*largs, **lkw)
            return _walk(out, lift)
        if ent is None:
            raise S.Unsupported(f"torch operation not in the symbolic op table: {name} ({func})")
        h, nometa = ent
        OPS_USED.add(name)
        if inplace:
            EPOCH[0] += 1
        meta = None
        if not nometa and not inplace:
            try:
                margs = _walk(args, _to_meta)
                mkw = _walk(kwargs, _to_meta)
                margs = _strip_sym_scalars(margs)
                mkw = _strip_sym_scalars(mkw)
                with torch._C.DisableTorchFunctionSubclass():
                    meta = func(*margs, **mkw)
            except NotImplementedError:
                meta = None
            except S.Unsupported:
                meta = None
        res = h(*args, **kwargs)
        return _wrap(res, meta)


def _strip_sym_scalars(o):
    """Replace Sym scalars among arguments by a neutral Python float for the meta run."""
    if isinstance(o, S.Sym):
        return 1.0 if o.sort == "real" else (True if o.sort == "bool" else 1)
    if isinstance(o, (list, tuple)) and not isinstance(o, torch.Size):
        r = [_strip_sym_scalars(i) for i in o]
        try:
            return type(o)(r)
        except TypeError:
            return type(o)(*r)
    if isinstance(o, dict):
        return {k: _strip_sym_scalars(v) for k, v in o.items()}
    return o


class NativeRNGMode(TorchFunctionMode):
    """native replay / stand-in: torch.rand*/randn* return the values recorded in (or drawn for) the witness"""

    def __init__(self, rng):
        super().__init__()
        self.rng = rng

    def __torch_function__(self, func, types, args=(), kwargs=None):
        kwargs = kwargs or {}
        if func in RNG_FUNCS:
            law, shape, dtype = rng_request(func, args, kwargs)
            return self.rng.draw(law, shape, dtype)
        return func(*args, **kwargs)
