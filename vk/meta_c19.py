"""Evidence metadata for C19 (merged into vk/meta.py PROPS["C19"] by the integrator)."""

META = {
    "level": "proof",
    "trusted_base": [
        "PyTorch FakeTensorMode + ShapeEnv: meta kernels return the output sizes of the real kernels, and ShapeEnv records a guard (or narrows a value range) for every "
        "size-dependent decision taken on the explored path (the mechanism torch.compile relies on); differential check of the symbolic size expressions against real tensors on every run (C19.shape_*/native_crosscheck)",
        "vk.e3.sym2z3: translation of ShapeEnv's sympy integer expressions (Add, Mul, Pow, FloorDiv, Mod/PythonMod, CeilDiv, Max/Min, relations, And/Or/Not) into z3 integer arithmetic, `//` = floor division; "
        "each explored representative is checked to lie in the z3 region translated from its own guards",
        "z3 5.x soundness (unsat answers) on linear integer arithmetic with div/mod by constants; the single nonlinear clause (latent numel) is discharged after abstracting the two latent extents by fresh integers "
        "under the linear facts proved just before",
        "vk.e3.stride2_stages: L is read from the real encoder (number of main-path stages containing a stride-(2,2) convolution); the sidecar only names the attribute holding the main path (model / g_a / layers)",
        "vk.e3.TaintAnalysis (about 350 lines): AST taint analysis over the real source; torch operations are assumed to be autograd-recording",
        "PyTorch autograd computes the derivative of the composition of the differentiable operations it records (DESIGN 4.2)",
        "vk.e3.MiniSym: straight-line arithmetic evaluator over the AST of calculate_num_filters_factor_image (floats as reals)",
    ],
    "assumptions": [
        "shape contracts are proved for ALL integers B>=1 and all H, W that are positive multiples of 2^L (L read from the module: Bourtsoulatze 2, Kurka 2, Tung Q 4, Tung Q2 / NOMA 2, WZ / WZ-small / WZ-conditional 4); channel dimension static; "
        "reduced widths (the widths do not enter any size expression except as the constant channel extent)",
        "'documented' latent size: C_doc from the constructor argument (num_transmitted_filters / M / conv_depth), spatial factor f_doc from the docstrings ('H//4', 'H/16', 'contains 4 strided layers') or the bandwidth_ratio property (1/4); "
        "documented bandwidth ratio := C_doc/(3*f_doc^2) real channel uses per source sample, consistent with calculate_num_filters_factor_image; Kurka documents no spatial factor: 2^L from the module is used",
        "quick tier: the symbolic runs disable the mkldnn convolution backend (its selection heuristics add batch==1 numel-threshold guards that multiply the guard cases); assumption: backend selection does not change output sizes. "
        "The thorough tier keeps the default backend and proves every threshold case",
        "Kurka 2020: decoder(encoder(x)) is the composition performed by the real DeepJSCCFeedbackModel.forward (base layer, zero-padding of the latent to 256 channels, real AWGNChannel); num_filters=256 is hard-coded",
        "value range: only Bourtsoulatze 2019 (explicit Sigmoid in the constructor) and Kurka 2020 (docstring '[0, 1]') document a range; the Tung / NOMA / WZ decoders document none and end in ResidualBlockUpsample / AFModule / ResidualBlock",
        "taint analysis limits: flow-insensitive, no alias analysis (in-place writes through aliases are not seen - the PAPRConstraint in-place defect is found by gradcheck, not by taint), control dependence (masks, branches) not tracked, "
        "calls followed to depth 3 inside kaira, user-supplied callables (NonlinearChannel.nonlinear_fn) assumed to propagate",
        "gradcheck: float64 inputs, RNG re-seeded inside the wrapped function; channels configured by snr_db pass only at eps=1e-3/atol=5e-4 because kaira/utils/snr.py:snr_to_noise_power round-trips the noise power through float32",
        "end-to-end: complex-output channels (phase noise, flat fading) cannot feed the real-valued image decoders inside DeepJSCCModel; they are covered by gradcheck + taint only. Zero gradients that the bare autoencoder "
        "decoder(encoder(x)) also has (dead ReLU units at reduced width) are not attributed to constraint+channel",
    ],
    "out_of_reach": [
        "numerical agreement of gradients with finite differences is floating point: bounded (gradcheck) only",
        "model-level wrappers that contain a power constraint (Yilmaz2024DeepJSCCWZModel, Yilmaz2023DeepJSCCNOMAModel) defeat ShapeEnv (data-dependent `if torch.any(zero_mask)` / `if current_power < 1e-10`; fixed-size device embedding): bounded on {16,32,48,64} x {1,2,5}",
        "calculate_num_filters_factor_image is float-based (`res.is_integer()`): proved over the reals, float behaviour bounded",
        "xie2023_dt_deepjscc (digital/discrete-task model) is not an analog DeepJSCC encoder/decoder pair and is not covered",
    ],
    "explanation": (
        "E3 runs the real nn.Module objects under FakeTensorMode/ShapeEnv with symbolic batch, height and width; the resulting size expressions and guards are translated to z3 and the shape contract "
        "(round trip, documented latent size and bandwidth ratio, guard coverage with case split, cover + canary) is proved for all admissible sizes; every z3 model is replayed on the real module before it is "
        "reported. Differentiability is checked structurally (autograd graph reachability; AST taint analysis of the real forward methods and their kaira callees for detach/item/float/re-wrap/.data/numpy/no_grad on "
        "signal-dependent values) and natively (gradcheck under a frozen RNG; end-to-end backward through encoder, constraint, channel, decoder)."
    ),
}
