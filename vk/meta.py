"""Per-property metadata for evidence files: trusted base, assumptions, out-of-reach fragments."""

COMMON_TRUSTED = [
    "CPython 3.12 evaluation of the unmodified kaira functions (engine E2 executes the real function objects)",
    "vk symbolic op table (numpy-on-object-array semantics of each torch op; shapes/dtypes pinned to PyTorch meta kernels on every call; values cross-checked against real kernels on random inputs every run)",
    "z3 4.x/5.x soundness (unsat answers)",
    "vk.sym GF(2)-affine normal form (xor of bit atoms) and exact rational arithmetic",
]
COMMON_ASSUMPTIONS = [
    "floats are treated as real numbers: rounding, overflow, NaN/inf and denormals of float32/float64 are not modelled (DESIGN.md 4.1)",
    "integer / bool payloads (uint8, int32, int64, bool tensors) are mathematical integers in the symbolic engine: wrap-around and truncation are invisible to discharged obligations; they are covered only by the bounded carrier sweeps (contracts/dtypes.py, C20.hard_decoders_dtypes_bounded) and by the differential cross-check, which runs the real kernels",
    "objects are examined from the states the contracts put them in (fresh, after one earlier call with another batch size / kind / alphabet, after use-and-reset, after add-after-call); arbitrary longer call histories are not quantified over except where an obligation says so (C16 accumulators, C17 step lists)",
    "configurations (code parameters, orders, shapes/layouts) are enumerated up to the stated grid; 'proved' means for all input values per enumerated configuration",
    "torch operations behave as documented; device is CPU",
]

PROPS = {
    "C01": {
        "level": "proof",
        "trusted_base": ["vk.ground exact GF(2) rank / span kernel (closed obligations on matrices the real constructors produced)", "lemma L-rank (rank-nullity): rowspace(G) in ker H, rank G = k, rank H = n-k => ker H = rowspace(G)"],
        "assumptions": [],
        "out_of_reach": ["bodies of compute_null_space_matrix / row_reduction / get_generator_matrix (data-dependent elimination on concrete matrices): covered by closed obligations - exhaustively for ALL binary matrices with k*n <= 12 (thorough 16) and through the invariant of every constructed code - not symbolically"],
    },
    "C04": {
        "level": "proof",
        "trusted_base": ["vk.ground exact GF(2) matrix product (closed obligation G.R = I on the matrices the real constructors produced)"],
        "assumptions": [],
        "out_of_reach": ["body of compute_right_pseudo_inverse (data-dependent elimination loops on concrete matrices): closed obligations - exhaustively for ALL full-rank binary matrices with k*n <= 12 (thorough 16), per constructed code, and through the symbolic client obligation inverse_encode(forward(m)) == m"],
    },
    "C03": {
        "level": "proof",
        "trusted_base": ["vk.ground exact minimum-distance enumeration (Gray-code walk over the row space, k<=24; MacWilliams via the dual when n-k<=24), GF(2)[x] bitmask arithmetic independent of /repo", "C01 contract forward(x) == x.G ties the enumerated row space of the published G to the encoder's output"],
        "assumptions": ["advertised distance read from minimum_distance()/minimum_distance/delta/error_correction_capability; repetition codes advertise d = n by documentation only"],
        "out_of_reach": ["true minimum distance of codes with min(k, n-k) > 24 (thorough tier: BCH(63, .) with 24 < k < 39): the distance clauses are not claimed for them; their designed distance rests on the BCH-root clauses of C03.cyclic_structure plus the BCH bound (a theorem, not checked here)"],
    },
    "C02": {
        "level": "proof",
        "trusted_base": ["C01 contract forward(m) == m.G (received words are built as m.G xor e from the published G)", "advertised capability t = floor((d-1)/2) read as in C03"],
        "assumptions": [],
        "out_of_reach": ["BerlekampMasseyDecoder beyond the path budget (n >= 15 in the quick tier): it converts every received bit with int(round(.item())), so symbolic execution degenerates into one path per (codeword, pattern) pair - done path-completely for n = 7 (C02.berlekamp_massey_paths), bounded stand-in (exhaustive where small, seeded sample otherwise) for larger codes; its field operations are under contract in C18", "ReedMullerDecoder (majority logic): .item()-driven loops over partitions: bounded stand-in only"],
    },
    "C12": {
        "level": "proof",
        "trusted_base": ["RNG contract stub: torch.rand_like is replaced by fresh symbols constrained to [0,1); the draws are universally quantified inputs of every obligation", "moment lemma L-moment: P(u < p) = p for u uniform on [0,1) and p in [0,1]; distinct symbols are independent"],
        "assumptions": ["torch.rand_like yields independent uniform [0,1) variates (assumed contract on the dependency, never proved here)", "bipolar inputs contain at least one -1 (this is how the channels recognise the format; part of the precondition)"],
        "out_of_reach": ["the statistical statement itself (empirical rates) - it follows from the proved per-element law plus the RNG contract and is not sampled"],
    },
}

# per-property META dicts contributed by separate modules (vk/meta_c18.py, vk/meta_c19.py, ...)
import importlib as _il
import pkgutil as _pk
import os as _os

for _m in _pk.iter_modules([_os.path.dirname(__file__)]):
    if _m.name.startswith("meta_c"):
        try:
            PROPS[_m.name[5:].upper()] = _il.import_module(f"vk.{_m.name}").META
        except Exception:  # pragma: no cover
            pass
