"""Spec-function helpers: written against payload object arrays with vk.sym arithmetic, independent of the torch op table.
They work identically on symbolic payloads and on payloads lifted from real tensors (native replay / stand-in)."""
from __future__ import annotations

from fractions import Fraction

import numpy as np
import torch

from . import sym as S
from .tensor import P, PC, payload


def conj(claims):
    acc = True
    for c in claims:
        acc = S.land(acc, c)
        if acc is False:
            return False
    return acc


def disj(claims):
    acc = False
    for c in claims:
        acc = S.lor(acc, c)
        if acc is True:
            return True
    return acc


def all_eq(a, b):
    """elementwise equality of two payload arrays (same shape required)"""
    a, b = np.asarray(a, dtype=object), np.asarray(b, dtype=object)
    if a.shape != b.shape:
        return False
    return conj(S.eq(p, q) for p, q in zip(a.reshape(-1), b.reshape(-1)))


def all_close(a, b, rtol=Fraction(1, 10**6), atol=Fraction(1, 10**9)):
    a, b = np.asarray(a, dtype=object), np.asarray(b, dtype=object)
    if a.shape != b.shape:
        return False
    return conj(S.le(S.sabs(S.sub(p, q)), S.add(atol, S.mul(rtol, S.sabs(q)))) for p, q in zip(a.reshape(-1), b.reshape(-1)))


def shape_is(t, shape):
    return tuple(t.shape) == tuple(shape)


def is_bits(a):
    return conj(S.lor(S.eq(v, 0), S.eq(v, 1)) for v in np.asarray(a, dtype=object).reshape(-1))


def gf2_vecmat(v, M):
    """v (length k payload) times concrete integer matrix M (k x n list of lists) over GF(2)"""
    k = len(M)
    n = len(M[0]) if k else 0
    out = []
    for j in range(n):
        acc = 0
        for i in range(k):
            if M[i][j] % 2:
                acc = S.add(acc, v[i])
        out.append(S.mod(acc, 2))
    return out


def blockwise(x, bs, f):
    """apply f to consecutive blocks of the last axis; x is a payload array"""
    x = np.asarray(x, dtype=object)
    lead = x.shape[:-1]
    L = x.shape[-1]
    assert L % bs == 0
    outs = None
    for pos in np.ndindex(*lead):
        row = []
        for b in range(L // bs):
            row.extend(f(list(x[pos][b * bs : (b + 1) * bs])))
        if outs is None:
            outs = np.empty(lead + (len(row),), dtype=object)
        outs[pos] = row
    return outs


def weight(v):
    acc = 0
    for x in np.asarray(v, dtype=object).reshape(-1):
        acc = S.add(acc, x)
    return acc


def int_matrix(t):
    """concrete tensor -> list of lists of ints"""
    with torch._C.DisableTorchFunctionSubclass():
        return [[int(round(float(v))) for v in row] for row in t.detach().to(torch.float64).tolist()]
