"""Evidence metadata for C10 (soft-input decoders)."""

META = {
    "level": "proof",
    "trusted_base": [
        "C01 contract forward(m) == m.G (the ML codebook is enumerated from the published G of the single-parity-check code; noise-free inputs are built from the real encoder's output in the same run)",
        "min-sum specification (contracts/c10.py:minsum_update_spec): for every Tanner-graph edge (v,c), alpha * prod_{v'!=v} sign(m_v'c) * min_{v'!=v} |m_v'c|, offset towards zero by beta (sign * max(. - beta, 0), Chen et al. 2005), messages limited to +-500 first (the function's documented numerical-stability clamp), degree-1 checks send 0; edges in variable-major order",
        "vk/ops_soft.py piecewise mode (ite(c,k1,k2)*y == ite(c,k1*y,k2*y), remainder of finite-valued terms per case) and its scoped model of torch's 'sequence containing a tensor is a tuple of indices' rule; torch.min/max(dim) keep their structseq type",
        "vk.ground-style exact evaluation of the index tables built by the real BeliefPropagationDecoder constructor (closed obligations)",
    ],
    "assumptions": [
        "Wagner: k = 1..5 (quick) / 1..8 (thorough) for 1-D input, (2,n) batches k <= 3/4, two blocks per row k <= 2/3; the ML claim is proved for EVERY real input (ties and zeros included, no tie-freeness precondition needed)",
        "min-sum: parity-check matrices with n <= 8 (hand-written tree / cycle / irregular / degree-1 and degree-2 checks plus the catalogue's random sparse ones), (alpha, beta) in {(1,0), (0.75,0), (0.75,0.2)}, batch 1-2; whole decoder with 1 and 3 (thorough 1-3) iterations, one common symbolic magnitude a > 0; scale invariance proved directly for t in {1/3,1/2,2,7} and as a corollary of the check-update contract for every t > 0",
        "soft Reed-Muller: symbolic proof for RM(0,1), RM(0,2), RM(1,2), RM(0,3), RM(1,3) with common and per-position magnitudes; RM(2,3) and m >= 4 bounded only",
        "relative tolerance 1e-6 on real-valued equalities (float constants 0.75, 0.2 are the exact rationals of the stored doubles)",
    ],
    "out_of_reach": [
        "BeliefPropagationDecoder.compute_cv: log2 of complex numbers, 2**x, arctanh / 105-term Taylor series, clamps at 0.999: bounded stand-in C10.bp_native (all codewords for k <= 8 at magnitudes 0.5..50, exact/Taylor arctanh, 1/5/10 iterations; exact posteriors by enumeration on cycle-free graphs, n <= 12, inputs in [-1.5, 1.5] so that every message stays inside the clipping range 2 atanh(0.999) = 7.6, tolerance 2e-3)",
        "soft ReedMullerDecoder for RM(2,3) and m >= 4: solver budget; bounded exhaustive over codewords (C10.rm_soft_native, m <= 4 quick / 5 thorough)",
        "Wagner ML for k > 8: 2^k codewords x (k+2) paths exceed the budget; the noise-free clause is proved up to k = 6 (quick) / 10 (thorough)",
    ],
}
