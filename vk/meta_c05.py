"""Evidence metadata for C05 (merged into vk/meta.py PROPS["C05"])."""

META = {
    "level": "proof",
    "trusted_base": [
        "vk/ops_mod1.py: `<<` by a concrete amount = multiplication by 2^s; integer `a | b` = a + b only when both operands are carry-free combinations of bit atoms "
        "(non-negative, coefficients distinct powers of two) with disjoint supports; argmin/argmax over Euclidean distances (sqrt forms / concrete non-negative numbers) decided on the radicands "
        "(x -> x^2 strictly increasing on x >= 0, first index preserved); torch.conj evaluated on payloads also for concrete operands",
        "table lookups with symbolic indices are ITE chains over the REAL buffers (constellation, bit_patterns, bit_to_symbol_map, qpsk, qpsk_rotated) the real constructors registered; "
        "stored float32 values are taken as exact rationals",
        "composition argument (paper step, not re-proved by the solver): one-symbol round trip + 'symbol i is the one-symbol map of bit group i' + 'the decision on group i is the one-symbol decision on y_i for ALL y' "
        "=> round trip for every length and every (B, .) layout of the enumerated kinds; DPSK: differential step y[i] = y[i-1]*shift(group i) proved symbolically, pairs/triples exhaustively",
    ],
    "assumptions": [
        "modules are in eval() after reset_state() (the property's own precondition for schemes with memory); the obligations also prove that forward leaves the carry-over state untouched in eval()",
        "lengths proved: 1..3 symbols (memoryless, <= 16 points; 1..2 symbols up to 64 points; 1 symbol for 256-QAM), all ordered pairs and triples for DPSK <= 4 points, pairs for 8/16 points "
        "(quick; triples in the thorough tier), layouts 1-D, (1, .), (2, .)",
        "DPSK hard decisions: every bit pattern is one explored path on which the real kernels (complex64 multiply, torch.angle, float32 modulo) run; this part is exact float behaviour, not real arithmetic",
        "DPSK n = 1 symbol is not demodulated (the demodulator documents that it needs two symbols)",
        "OQPSK: the first quadrature decision (start-up, no transmitted bit) is not constrained",
        "interpretation: unit of the 'offset' of OQPSK is one symbol, as the property states (the implementation delays the quadrature stream by one full symbol, not half)",
    ],
    "out_of_reach": [
        "DPSKDemodulator hard decision for ARBITRARY received values (torch.angle / atan2 of symbolic data): no per-symbol dependency proof for the DPSK demodulator; "
        "sequences longer than 3 symbols are covered by the bounded stand-in C05.long_sequences only (seeded random sequences up to 257 / 1000 symbols)",
        "custom constellations passed to PSKModulator(constellation=...), training-mode state carry-over between calls, CUDA branch of QAMDemodulator (random tie-breaking noise)",
    ],
}
