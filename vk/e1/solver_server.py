"""Out-of-process z3 worker for E1.  z3's timeout / interrupt is not honoured in every phase of a quantified query; the
parent therefore sends each query (SMT-LIB text) to this small child process and kills it on a hard deadline.
Protocol: one JSON header line {"n": <bytes>, "timeout": ms, "names": [...]} followed by n bytes of SMT-LIB; one JSON reply line."""
import json
import sys


def main():
    import z3

    inp, out = sys.stdin.buffer, sys.stdout.buffer
    while True:
        line = inp.readline()
        if not line:
            return
        hdr = json.loads(line)
        txt = inp.read(hdr["n"]).decode()
        rep = {}
        try:
            s = z3.Solver()
            s.set("timeout", int(hdr["timeout"]))
            s.from_string(txt)
            r = s.check()
            rep["res"] = str(r)
            if r == z3.sat:
                m = s.model()
                want = set(hdr.get("names", []))
                rep["model"] = {d.name(): str(m[d]) for d in m.decls() if d.name() in want and d.arity() == 0}
            elif r == z3.unknown:
                rep["why"] = s.reason_unknown()
        except BaseException as e:  # noqa
            rep = {"res": "unknown", "why": f"{type(e).__name__}: {e}"}
        out.write((json.dumps(rep) + "\n").encode())
        out.flush()


if __name__ == "__main__":
    main()
