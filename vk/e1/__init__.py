"""Engine E1 'vcgen': ast -> verification conditions for the pure-integer functions of kaira (DESIGN.md 3.2).

Modules
  source.py         reads the function under contract from the working tree (KAIRA_REPO, default /repo) on every run:
                    importlib -> real function object -> inspect.getsource -> ast.  No copy of kaira code lives here.
  contract.py       sidecar contract objects (requires / ensures / raises / post ghosts + witnesses / loop invariants,
                    variants, ghost updates, role bindings / lemma hints / per-configuration axiom instances / memo tables)
  theory.py         GF2POLY + GF2QUOT: uninterpreted symbols, axioms written once as polymorphic lambdas (z3 | int | numpy),
                    exhaustive instance tests against vk.ground, consistency probe
  vcgen.py          the symbolic executor (mode "vc") and, with the same expression/statement semantics, the concrete
                    interpreter (mode "concrete") used for the differential check and for invariant monitoring
  check.py          verify_function(): VC generation, discharge (out-of-process z3 with a hard deadline, cvc5 second opinion),
                    verdict rules, concrete search on the real function, cover and differential guards
  solver_server.py  the z3 worker process
  selftest.py       seeded mutations on a scratch copy outside /repo and /verif

Supported subset (anything else => verdict "undecided", detail "outside E1: ..."):
  statements   assignment (name, tuple, self.attr inside __init__, memo-table stores are dropped), augmented assignment,
               if/elif/else, while (cut by a sidecar invariant + variant; without one: followed if the guard is concrete,
               unrolled W+1 times with an unwinding assertion in BV mode), for-in-range (desugared to while) and for over a
               list of concrete length, return, raise <Exception>("literal"), break, continue, pass, assert
  expressions  int/bool constants, names, + - * // % ** (literal exponent) << >> & | ^, unary - / not, comparisons, and/or
               (all operands evaluated; they are pure), conditional expressions, attribute reads on records, list literals,
               indexing a concrete-length list, isinstance/hasattr (decided from the declared types), len, hash(int),
               int.bit_length(), record construction (the real __init__ is inlined), x.__class__(...), calls/operators/
               properties on records that have a contract (replaced by the contract)
Encodings     Python ints are z3 Int.  x & 1 -> x mod 2;  x >> c, x << c (literal c) -> div / mul by 2^c;  x % c (literal
               c > 2) -> ite(0 <= x < c, x, x mod c);  // and % by a symbolic divisor carry the obligation divisor > 0 (z3 div/mod
               are floor division there);  x.bit_length() -> deg(x) + 1 with the obligation x >= 0;  x ^ y -> xor(x, y);
               x | y -> bor(x, y);  x << e (symbolic) -> shl(x, e) with the obligation e >= 0;  x >> e (symbolic), x & y
               (y not the literal 1), x ** e (symbolic e) are outside E1.
               BV mode (contract.mode == "bv64"): ints are 64-bit vectors (precondition 0 <= n < 2^64), comparisons are
               unsigned, >> is a logical shift, << + - * carry no-overflow obligations.
Dropped       docstrings; type annotations; decorators (recorded; @property transparent); isinstance/hasattr guards become
               preconditions (their TypeError / NotImplemented branches are dead under the declared types); exception message
               contents (literal and f-string); stores into memo tables (cache invariant assumed).
"""
