"""Engine E1 'vcgen': ast -> verification conditions for the pure-integer functions of kaira (see DESIGN.md 3.2)."""
