"""E1 verification-condition generator: symbolic execution of the *real* function's ast against its sidecar contract.

One executor, two uses:
  mode "vc"        inputs are z3 constants; loops with a sidecar invariant are cut (init / preserve / variant VCs),
                   calls to functions that have a contract are replaced by that contract (modular), constructors are inlined;
                   BV mode unrolls `while` loops W+1 times with an unwinding assertion.
  mode "concrete"  inputs are Python ints / records; the same expression and statement semantics run natively (loops
                   iterate, callees are interpreted from their own source) - used for the differential check against the
                   real function, and for monitoring invariants on reachable states when the solver cannot decide a VC.
"""
from __future__ import annotations

import ast
import copy

import z3

from . import theory as T
from .contract import CONTRACTS, NS, Rec
from .source import FnSrc, Outside, all_names, assigned_names, loops_in, returns_in


class PyExc(Exception):
    """a Python exception raised by the interpreted code (concrete mode)"""

    def __init__(self, name, msg=""):
        super().__init__(f"{name}: {msg}")
        self.name = name


class RoleMissing(Exception):
    pass


class ClassRef:
    def __init__(self, name):
        self.name = name


class CacheRef:
    """an opaque memo table attribute (sidecar `caches`): membership is non-deterministic, a hit returns what the sidecar's
    cache invariant says the table holds for that key"""

    def __init__(self, base, attr):
        self.base, self.attr = base, attr


class ExcVal:
    def __init__(self, name):
        self.name = name


class _NotImpl:
    def __repr__(self):
        return "NotImplemented"


NOTIMPL = _NotImpl()
EXC_NAMES = {"ValueError", "TypeError", "RuntimeError", "NotImplementedError", "IndexError", "ZeroDivisionError", "KeyError"}


class VC:
    def __init__(self, name, hyps, goal, kind="vc", line=0, lemma_for=None):
        self.name, self.hyps, self.goal, self.kind, self.line = name, list(hyps), goal, kind, line
        self.lemma_for = lemma_for


class St:
    def __init__(self, locals_, pc, ghosts):
        self.locals, self.pc, self.ghosts = locals_, pc, ghosts
        self.calls = []  # (callee short name, {post ghost: term})
        self.heads = []  # stack of loop-head records

    def copy(self):
        s = St(_cp(self.locals), list(self.pc), dict(self.ghosts))
        s.calls = list(self.calls)
        s.heads = list(self.heads)
        return s


def _cp(v):
    if isinstance(v, dict):
        return {k: _cp(x) for k, x in v.items()}
    if isinstance(v, list):
        return [_cp(x) for x in v]
    return v  # ints, z3 terms, Recs (treated as immutable after construction)


def is_sym(v):
    return isinstance(v, z3.ExprRef)


def is_intlike(v):
    return (isinstance(v, int) and not isinstance(v, bool)) or isinstance(v, (z3.ArithRef, z3.BitVecRef))


def is_boollike(v):
    return isinstance(v, (bool, z3.BoolRef))


class Exec:
    def __init__(self, src: FnSrc, contract, cfg=None, mode="vc", root=None, feasible=None, field_of=None, depth=0, monitor=None, fuel=None):
        self.src, self.C, self.cfg, self.mode, self.root = src, contract, cfg, mode, root
        self.bv = contract is not None and contract.mode.startswith("bv") and mode == "vc"
        self.W = int(contract.mode[2:]) if self.bv else 0
        self.vcs = []
        self.notes = list(src.drops)
        self.feasible = feasible or (lambda pc: True)
        self.loop_ord = {id(n): i for i, n in enumerate(loops_in(src.fn))}
        self.ret_ord = {id(n): i for i, n in enumerate(returns_in(src.fn))}
        self.n = 0
        self.depth = depth
        self.monitor = monitor if monitor is not None else []
        self.fuel = fuel if fuel is not None else [200000]
        self.names_seen = {}
        if depth > 12:
            raise Outside("recursion depth")

    # ------------------------------------------------------------------------------------------ helpers
    def note(self, s):
        if s not in self.notes:
            self.notes.append(s)

    def fresh(self, hint, like=None, sort="int"):
        self.n += 1
        nm = f"{hint}!{self.n}"
        if like is not None:
            if isinstance(like, Rec):
                return Rec(like.cls, **{k: (v if isinstance(v, Rec) and v.cls == "FiniteBifield" else self.fresh(f"{hint}.{k}", v)) for k, v in like.f.items()})
            if is_boollike(like):
                return z3.Bool(nm)
            if isinstance(like, z3.BitVecRef) or (self.bv and is_intlike(like)):
                return z3.BitVec(nm, self.W)
            if is_intlike(like):
                return z3.Int(nm)
            raise Outside(f"cannot havoc a value of kind {type(like).__name__}")
        if sort == "bool":
            return z3.Bool(nm)
        if self.bv:
            return z3.BitVec(nm, self.W)
        return z3.Int(nm)

    def emit(self, name, st, goal, kind="vc", line=0, extra_hyps=()):
        k = self.names_seen.get(name, 0)
        self.names_seen[name] = k + 1
        if k:
            name = f"{name}#{k}"
        if isinstance(goal, bool):
            goal = z3.BoolVal(goal)
        v = VC(name, list(st.pc) + list(extra_hyps), goal, kind, line)
        self.vcs.append(v)
        return v

    def module(self):
        return self.src.module

    def key_of(self, cls, name):
        return f"{self.src.relpath}:{cls}.{name}"

    def has_attr(self, cls, name):
        c = getattr(self.module(), cls, None)
        return c is not None and hasattr(c, name)

    # --------------------------------------------------------------------------------------- int ops
    def truth(self, v):
        if isinstance(v, bool) or isinstance(v, z3.BoolRef):
            return v
        if isinstance(v, int):
            return v != 0
        if isinstance(v, z3.ArithRef):
            return v != 0
        if isinstance(v, z3.BitVecRef):
            return v != 0
        if isinstance(v, list):
            return len(v) > 0
        if v is None:
            return False
        if isinstance(v, Rec):
            if self.has_attr(v.cls, "__bool__") or self.has_attr(v.cls, "__len__"):
                raise Outside("truth value of a record with __bool__/__len__")
            return True
        raise Outside(f"truth value of {type(v).__name__}")

    def b2i(self, v):
        """bool used as int"""
        if isinstance(v, bool):
            return int(v)
        if isinstance(v, z3.BoolRef):
            return z3.If(v, z3.BitVecVal(1, self.W), z3.BitVecVal(0, self.W)) if self.bv else z3.If(v, 1, 0)
        return v

    def binop(self, op, l, r, st, line=0):
        if isinstance(l, Rec) or isinstance(r, Rec):
            return self.rec_binop(op, l, r, st, line)
        l, r = self.b2i(l), self.b2i(r)
        if not (is_intlike(l) and is_intlike(r)):
            raise Outside(f"operator {type(op).__name__} on {type(l).__name__}/{type(r).__name__}")
        conc = isinstance(l, int) and isinstance(r, int)
        if conc:
            return self.py_binop(op, l, r)
        if self.bv:
            return self.bv_binop(op, l, r, st, line)
        if isinstance(op, ast.Add):
            return l + r
        if isinstance(op, ast.Sub):
            return l - r
        if isinstance(op, ast.Mult):
            return l * r
        if isinstance(op, (ast.FloorDiv, ast.Mod)):
            if isinstance(r, int):
                if r <= 0:
                    raise Outside("// or % by a non-positive literal")
            else:
                self.emit(f"L{line}.divisor_positive", st, r > 0, line=line)
            if isinstance(op, ast.Mod) and isinstance(r, int) and r > 2:
                return z3.If(z3.And(l >= 0, l < r), l, l % r)  # same value; spares the solver a div/mod elimination
            return l / r if isinstance(op, ast.FloorDiv) else l % r  # z3 div/mod = floor semantics for positive divisors
        if isinstance(op, ast.BitXor):
            return T.xor(l, r)
        if isinstance(op, ast.BitOr):
            return T.bor(l, r)
        if isinstance(op, ast.BitAnd):
            if isinstance(r, int) and r == 1:
                return l % 2
            if isinstance(l, int) and l == 1:
                return r % 2
            raise Outside("`&` with an operand other than the literal 1 on unbounded ints")
        if isinstance(op, ast.LShift):
            if isinstance(r, int):
                if r < 0:
                    raise Outside("negative literal shift")
                return l * (2**r)
            self.emit(f"L{line}.shift_count_nonneg", st, r >= 0, line=line)
            return T.shl(l, r)
        if isinstance(op, ast.RShift):
            if isinstance(r, int):
                if r < 0:
                    raise Outside("negative literal shift")
                return l / (2**r)
            raise Outside("`>>` by a symbolic amount on unbounded ints")
        if isinstance(op, ast.Pow):
            if isinstance(r, int) and r >= 0:
                out = 1
                for _ in range(r):
                    out = out * l
                return out
            raise Outside("`**` with a symbolic exponent")
        raise Outside(f"operator {type(op).__name__}")

    def py_binop(self, op, l, r):
        try:
            if isinstance(op, ast.Add):
                return l + r
            if isinstance(op, ast.Sub):
                return l - r
            if isinstance(op, ast.Mult):
                return l * r
            if isinstance(op, ast.FloorDiv):
                return l // r
            if isinstance(op, ast.Mod):
                return l % r
            if isinstance(op, ast.BitXor):
                return l ^ r
            if isinstance(op, ast.BitOr):
                return l | r
            if isinstance(op, ast.BitAnd):
                return l & r
            if isinstance(op, ast.LShift):
                if r > 4096:
                    raise Outside("huge shift")
                return l << r
            if isinstance(op, ast.RShift):
                return l >> r
            if isinstance(op, ast.Pow):
                if r < 0 or r > 4096:
                    raise Outside("negative or huge exponent")
                return l**r
        except (ValueError, ZeroDivisionError) as e:
            raise PyExc(type(e).__name__, str(e))
        raise Outside(f"operator {type(op).__name__}")

    def bvv(self, v):
        return z3.BitVecVal(v, self.W) if isinstance(v, int) else v

    def bv_binop(self, op, l, r, st, line):
        W = self.W
        if isinstance(l, int) and not (0 <= l < 2**W) or isinstance(r, int) and not (0 <= r < 2**W):
            raise Outside("BV mode: literal outside [0, 2^W)")
        lz, rz = self.bvv(l), self.bvv(r)
        if isinstance(op, ast.BitXor):
            return lz ^ rz
        if isinstance(op, ast.BitOr):
            return lz | rz
        if isinstance(op, ast.BitAnd):
            return lz & rz
        if isinstance(op, ast.RShift):
            return z3.LShR(lz, rz)  # operands are non-negative (< 2^W) by the mode's precondition
        if isinstance(op, ast.LShift):
            self.emit(f"L{line}.bv_shift_keeps_bits", st, z3.And(z3.ULT(rz, W), z3.LShR(lz << rz, rz) == lz), line=line)
            return lz << rz
        if isinstance(op, ast.Add):
            self.emit(f"L{line}.bv_add_no_overflow", st, z3.BVAddNoOverflow(lz, rz, False), line=line)
            return lz + rz
        if isinstance(op, ast.Sub):
            self.emit(f"L{line}.bv_sub_no_underflow", st, z3.UGE(lz, rz), line=line)
            return lz - rz
        if isinstance(op, ast.Mult):
            self.emit(f"L{line}.bv_mul_no_overflow", st, z3.BVMulNoOverflow(lz, rz, False), line=line)
            return lz * rz
        raise Outside(f"BV mode operator {type(op).__name__}")

    def compare(self, op, l, r, st, line=0):
        if isinstance(r, CacheRef) and isinstance(op, (ast.In, ast.NotIn)):
            if self.mode == "concrete":
                return isinstance(op, ast.NotIn)  # a miss; hits are observationally identical under the cache invariant
            hit = self.fresh("cache_hit", sort="bool")
            return hit if isinstance(op, ast.In) else z3.Not(hit)
        if isinstance(l, Rec) or isinstance(r, Rec):
            if isinstance(op, (ast.Eq, ast.NotEq)):
                recv, other = (l, r) if isinstance(l, Rec) else (r, l)
                if not self.has_attr(recv.cls, "__eq__") or "__eq__" not in getattr(self.module(), recv.cls).__dict__:
                    raise Outside(f"== on {recv.cls} (identity comparison)")
                res = self.call_key(self.key_of(recv.cls, "__eq__"), [recv, other], st, line)
                if res is NOTIMPL:
                    raise Outside("== returning NotImplemented")
                if isinstance(op, ast.Eq):
                    return res
                return (not res) if isinstance(res, bool) else z3.Not(res)
            raise Outside("ordering comparison of records")
        if l is None or r is None:
            if isinstance(op, (ast.Is, ast.Eq)):
                return l is r
            if isinstance(op, (ast.IsNot, ast.NotEq)):
                return l is not r
        l, r = self.b2i(l), self.b2i(r)
        if not (is_intlike(l) and is_intlike(r)):
            raise Outside(f"comparison of {type(l).__name__} and {type(r).__name__}")
        if isinstance(l, int) and isinstance(r, int):
            return {ast.Eq: l == r, ast.NotEq: l != r, ast.Lt: l < r, ast.LtE: l <= r, ast.Gt: l > r, ast.GtE: l >= r}[type(op)]
        if self.bv:
            for v in (l, r):
                if isinstance(v, int) and not (0 <= v < 2**self.W):
                    raise Outside("BV mode: comparison with a literal outside [0, 2^W)")
            lz, rz = self.bvv(l), self.bvv(r)
            tbl = {ast.Eq: lambda: lz == rz, ast.NotEq: lambda: lz != rz, ast.Lt: lambda: z3.ULT(lz, rz), ast.LtE: lambda: z3.ULE(lz, rz), ast.Gt: lambda: z3.UGT(lz, rz), ast.GtE: lambda: z3.UGE(lz, rz)}
        else:
            tbl = {ast.Eq: lambda: l == r, ast.NotEq: lambda: l != r, ast.Lt: lambda: l < r, ast.LtE: lambda: l <= r, ast.Gt: lambda: l > r, ast.GtE: lambda: l >= r}
        if type(op) not in tbl:
            raise Outside(f"comparison {type(op).__name__}")
        return z3.simplify(tbl[type(op)]()) if False else tbl[type(op)]()

    def rec_binop(self, op, l, r, st, line):
        names = {ast.Mult: "__mul__", ast.Mod: "__mod__", ast.Add: "__add__", ast.Pow: "__pow__", ast.Sub: "__sub__", ast.BitXor: "__xor__"}
        nm = names.get(type(op))
        if nm is None or not isinstance(l, Rec) or not self.has_attr(l.cls, nm):
            raise Outside(f"operator {type(op).__name__} on records")
        res = self.call_key(self.key_of(l.cls, nm), [l, r], st, line)
        if res is NOTIMPL:
            raise Outside("operator returned NotImplemented (reflected operators are not modelled)")
        return res

    # ------------------------------------------------------------------------------------ expressions
    def ev(self, e, st):
        line = getattr(e, "lineno", 0)
        if isinstance(e, ast.Constant):
            if isinstance(e.value, (bool, int)) or e.value is None:
                return e.value
            if isinstance(e.value, str):
                return e.value
            raise Outside(f"constant {e.value!r}")
        if isinstance(e, ast.Name):
            if e.id in st.locals:
                return st.locals[e.id]
            if e.id == "NotImplemented":
                return NOTIMPL
            if e.id in EXC_NAMES:
                return ExcVal(e.id)
            if isinstance(getattr(self.module(), e.id, None), type):
                return ClassRef(e.id)
            raise Outside(f"name {e.id} (unbound or unsupported global)")
        if isinstance(e, ast.BinOp):
            return self.binop(e.op, self.ev(e.left, st), self.ev(e.right, st), st, line)
        if isinstance(e, ast.UnaryOp):
            v = self.ev(e.operand, st)
            if isinstance(e.op, ast.Not):
                t = self.truth(v)
                return (not t) if isinstance(t, bool) else z3.Not(t)
            if isinstance(e.op, ast.USub) and is_intlike(v) and not self.bv:
                return -v
            raise Outside(f"unary {type(e.op).__name__}")
        if isinstance(e, ast.BoolOp):
            vals = [self.truth(self.ev(x, st)) for x in e.values]  # operands are pure; all are evaluated (see DESIGN 3.2 restrictions)
            if all(isinstance(v, bool) for v in vals):
                return all(vals) if isinstance(e.op, ast.And) else any(vals)
            return T.AND(*vals) if isinstance(e.op, ast.And) else T.OR(*vals)
        if isinstance(e, ast.Compare):
            l = self.ev(e.left, st)
            acc = []
            for op, rr in zip(e.ops, e.comparators):
                r = self.ev(rr, st)
                acc.append(self.compare(op, l, r, st, line))
                l = r
            return acc[0] if len(acc) == 1 else T.AND(*acc)
        if isinstance(e, ast.IfExp):
            c = self.truth(self.ev(e.test, st))
            if isinstance(c, bool):
                return self.ev(e.body if c else e.orelse, st)
            a, b = self.ev(e.body, st), self.ev(e.orelse, st)
            return self.ite(c, a, b)
        if isinstance(e, ast.Attribute):
            base = self.ev(e.value, st)
            return self.getattr(base, e.attr, st, line)
        if isinstance(e, ast.Call):
            return self.call(e, st)
        if isinstance(e, ast.List):
            return [self.ev(x, st) for x in e.elts]
        if isinstance(e, ast.Tuple):
            return tuple(self.ev(x, st) for x in e.elts)
        if isinstance(e, ast.JoinedStr):
            self.note("f-string contents of exception messages")
            return "<f-string>"
        if isinstance(e, ast.Subscript):
            base = self.ev(e.value, st)
            idx = self.ev(e.slice, st)
            if isinstance(base, CacheRef):
                return self.C.caches[base.attr](self, base.base, idx, st)
            if isinstance(base, (list, tuple)) and isinstance(idx, int):
                try:
                    return base[idx]
                except IndexError:
                    raise PyExc("IndexError")
            raise Outside("subscript with symbolic index or non-list base")
        raise Outside(f"expression {type(e).__name__}")

    def ite(self, c, a, b):
        if isinstance(a, Rec) and isinstance(b, Rec) and a.cls == b.cls and a.f.keys() == b.f.keys():
            return Rec(a.cls, **{k: (a.f[k] if a.f[k] is b.f[k] else self.ite(c, a.f[k], b.f[k])) for k in a.f})
        if is_boollike(a) and is_boollike(b):
            return z3.If(c, a if is_sym(a) else z3.BoolVal(a), b if is_sym(b) else z3.BoolVal(b))
        if is_intlike(a) and is_intlike(b):
            if self.bv:
                return z3.If(c, self.bvv(a), self.bvv(b))
            return z3.If(c, a, b)
        raise Outside("conditional merge of values that are not int/bool/same-class records")

    def getattr(self, base, attr, st, line):
        if isinstance(base, Rec):
            if attr in base.f:
                return base.f[attr]
            if self.C is not None and attr in self.C.caches:
                self.note(f"memo table .{attr}: transparent cache (hit is non-deterministic; a hit returns what the constructor would build)")
                return CacheRef(base, attr)
            if attr == "__class__":
                return ClassRef(base.cls)
            cls = getattr(self.module(), base.cls)
            if isinstance(cls.__dict__.get(attr), property):
                return self.call_key(self.key_of(base.cls, attr), [base], st, line)
            raise Outside(f"attribute {base.cls}.{attr}")
        raise Outside(f"attribute .{attr} on {type(base).__name__}")

    def call(self, e, st):
        line = e.lineno
        if e.keywords:
            raise Outside("keyword arguments")
        f = e.func
        if isinstance(f, ast.Name):
            if f.id == "isinstance" and len(e.args) == 2:
                v = self.ev(e.args[0], st)
                c = self.ev(e.args[1], st)
                self.note("isinstance guards are decided from the declared parameter types (TypeError/NotImplemented branches become preconditions)")
                if isinstance(c, ClassRef):
                    return isinstance(v, Rec) and v.cls == c.name
                if isinstance(e.args[1], ast.Name) and e.args[1].id == "int":
                    return is_intlike(v)
                raise Outside("isinstance against an unsupported type")
            if f.id == "hasattr" and len(e.args) == 2:
                v = self.ev(e.args[0], st)
                nm = self.ev(e.args[1], st)
                self.note("hasattr(...) is decided from the declared parameter types")
                if isinstance(v, Rec):
                    return nm in v.f or self.has_attr(v.cls, nm)
                if is_intlike(v):
                    return hasattr(0, nm)
                raise Outside("hasattr on unsupported value")
            if f.id == "len" and len(e.args) == 1:
                v = self.ev(e.args[0], st)
                if isinstance(v, (list, tuple)):
                    return len(v)
                raise Outside("len of a non-list")
            if f.id == "hash" and len(e.args) == 1:
                v = self.ev(e.args[0], st)
                if is_intlike(v) and not self.bv:
                    return T.pyhash(v)
                raise Outside("hash of a non-int")
            if f.id in EXC_NAMES:
                for a in e.args:
                    if not isinstance(a, (ast.Constant, ast.JoinedStr)):
                        raise Outside("exception argument that is not a literal message")
                    if isinstance(a, ast.JoinedStr):
                        self.note("f-string contents of exception messages")
                return ExcVal(f.id)
            if f.id in st.locals:
                tgt = st.locals[f.id]
                if isinstance(tgt, Rec) and self.has_attr(tgt.cls, "__call__"):
                    return self.call_key(self.key_of(tgt.cls, "__call__"), [tgt] + [self.ev(a, st) for a in e.args], st, line)
                raise Outside("call of a local callable")
            if isinstance(getattr(self.module(), f.id, None), type):
                return self.construct(f.id, [self.ev(a, st) for a in e.args], st, line)
            if callable(getattr(self.module(), f.id, None)) and getattr(getattr(self.module(), f.id), "__module__", None) == self.module().__name__:
                return self.call_key(f"{self.src.relpath}:{f.id}", [self.ev(a, st) for a in e.args], st, line)
            raise Outside(f"call of {f.id}")
        if isinstance(f, ast.Attribute):
            base = self.ev(f.value, st)
            args = [self.ev(a, st) for a in e.args]
            if isinstance(base, Rec):
                if f.attr == "__class__":
                    return self.construct(base.cls, args, st, line)
                if f.attr in base.f:
                    tgt = base.f[f.attr]
                    if isinstance(tgt, Rec) and self.has_attr(tgt.cls, "__call__"):
                        return self.call_key(self.key_of(tgt.cls, "__call__"), [tgt] + args, st, line)
                    raise Outside("call of a field value")
                if self.has_attr(base.cls, f.attr):
                    return self.call_key(self.key_of(base.cls, f.attr), [base] + args, st, line)
                raise Outside(f"method {base.cls}.{f.attr}")
            if is_intlike(base) and f.attr == "bit_length" and not args:
                if isinstance(base, int):
                    return base.bit_length()
                if self.bv:
                    raise Outside("bit_length in BV mode")
                self.emit(f"L{line}.bit_length_arg_nonneg", st, base >= 0, line=line)
                return T.deg(base) + 1
            if isinstance(base, list) and f.attr == "append" and len(args) == 1:
                base.append(args[0])
                return None
            raise Outside(f"method .{f.attr} on {type(base).__name__}")
        if isinstance(f, ast.Call) or True:
            tgt = self.ev(f, st)
            args = [self.ev(a, st) for a in e.args]
            if isinstance(tgt, ClassRef):
                return self.construct(tgt.name, args, st, line)
            if isinstance(tgt, Rec) and self.has_attr(tgt.cls, "__call__"):
                return self.call_key(self.key_of(tgt.cls, "__call__"), [tgt] + args, st, line)
            raise Outside("call of a computed callee")

    # ---------------------------------------------------------------------------------------- calls
    def construct(self, cls, args, st, line):
        """constructors are inlined: the real __init__ body runs on a fresh record"""
        src = FnSrc(self.key_of(cls, "__init__"), self.root)
        rec = Rec(cls)
        sub = Exec(src, None, self.cfg, self.mode, self.root, self.feasible, depth=self.depth + 1, monitor=self.monitor, fuel=self.fuel)
        sub.bv, sub.W, sub.vcs, sub.n, sub.names_seen = self.bv, self.W, self.vcs, self.n + 1000 * (self.depth + 1), self.names_seen
        params = src.params
        if len(args) > len(params) - 1:
            raise Outside("constructor arity")
        loc = {params[0]: rec}
        for i, p in enumerate(params[1:]):
            if i < len(args):
                loc[p] = args[i]
            elif p in src.defaults:
                loc[p] = sub.ev(src.defaults[p], st)
            else:
                raise PyExc("TypeError", "missing constructor argument")
        saved = st.locals
        st.locals = loc
        try:
            flows = sub.block(src.fn.body, st)
        finally:
            st.locals = saved
        self.n = max(self.n, sub.n)
        for n_ in sub.notes:
            self.note(n_)
        if len(flows) != 1 or flows[0][0] is not st or flows[0][1] not in ("next",) and not (flows[0][1] == "return" and flows[0][2][0] is None):
            raise Outside(f"constructor {cls}.__init__ with branching control flow")
        return rec

    def call_key(self, key, args, st, line):
        if self.mode == "concrete":
            return self.call_concrete(key, args)
        C = CONTRACTS.get(key)
        if C is None:
            raise Outside(f"call to {key.split(':')[1]} which has no contract (modular verification needs one)")
        src = FnSrc(key, self.root)
        if len(args) != len(src.params):
            raise Outside("call arity")
        for p, v in zip(src.params, args):
            t = C.types.get(p)
            ok = (t in ("int",) and is_intlike(v)) or (t == "bool" and is_boollike(v)) or (isinstance(v, Rec) and v.cls == t)
            if not ok:
                raise Outside(f"argument {p} of {C.short}: contract declares {t}, call site passes {v.cls if isinstance(v, Rec) else type(v).__name__}")
        a = NS(**dict(zip(src.params, args)))
        idx = len(st.calls)
        tag = f"L{line}.call_{C.short}"
        if C.requires is not None:
            self.emit(f"{tag}.requires", st, C.requires(a), line=line)
        for exc, cond in C.raises:
            self.emit(f"{tag}.no_{exc}", st, T.NOT(cond(a)), line=line)
        res = self.fresh_result(C, a, f"r{idx}_{src.name}")
        w = {g: self.fresh(f"w{idx}_{g}") for g in C.post_ghosts}
        cl = C.ensures(a, res, NS(**w)) if C.ensures else {}
        for name, f in cl.items():
            st.pc.append(f if is_sym(f) else z3.BoolVal(bool(f)))
        st.calls.append((C.short, w))
        self.note(f"call to {C.short} replaced by its contract")
        return res

    def fresh_result(self, C, a, hint):
        t = C.returns
        if t == "int":
            return self.fresh(hint)
        if t == "bool":
            return self.fresh(hint, sort="bool")
        if t == "BinaryPolynomial":
            return Rec(t, value=self.fresh(hint + ".value"))
        if t == "FiniteBifieldElement":
            p = getattr(a, C.result_field_of)
            fld = p if p.cls == "FiniteBifield" else p.field
            return Rec(t, field=fld, value=self.fresh(hint + ".value"))
        raise Outside(f"contract result type {t}")

    def call_concrete(self, key, args):
        src = FnSrc(key, self.root)
        self.fuel[0] -= 1
        sub = Exec(src, CONTRACTS.get(key), self.cfg, "concrete", self.root, depth=self.depth + 1, monitor=self.monitor, fuel=self.fuel)
        out = sub.run_concrete(dict(zip(src.params, args)))
        for n_ in sub.notes:
            self.note(n_)
        if out[0] == "raise":
            raise PyExc(out[1])
        return out[1]

    # ------------------------------------------------------------------------------------ statements
    def block(self, stmts, st):
        flows = [(st, "next", None)]
        for s in stmts:
            new = []
            for (x, k, p) in flows:
                if k != "next":
                    new.append((x, k, p))
                    continue
                try:
                    new.extend(self.stmt(s, x))
                except PyExc as ex:
                    if self.mode != "concrete":
                        raise Outside(f"python exception {ex.name} on concrete operands during VC generation")
                    new.append((x, "raise", (ex.name, getattr(s, "lineno", 0))))
            flows = new
        return flows

    def assign(self, target, val, st):
        if isinstance(target, ast.Name):
            st.locals[target.id] = val
        elif isinstance(target, ast.Tuple):
            if not isinstance(val, (tuple, list)) or len(val) != len(target.elts):
                raise Outside("tuple assignment shape")
            for t, v in zip(target.elts, val):
                self.assign(t, v, st)
        elif isinstance(target, ast.Attribute) and isinstance(target.value, ast.Name):
            base = st.locals.get(target.value.id)
            if isinstance(base, Rec) and self.src.name == "__init__" and target.value.id == self.src.params[0]:
                base.f[target.attr] = val
            elif isinstance(base, Rec) and target.attr.startswith("_") and target.attr not in base.f:
                self.note(f"write to cache attribute .{target.attr} (memoisation of a pure function; dropped)")
            else:
                raise Outside("attribute assignment outside a constructor")
        elif isinstance(target, ast.Subscript) and isinstance(self.ev(target.value, st), CacheRef):
            self.note("store into a memo table (dropped; the cache invariant is an assumption)")
        else:
            raise Outside(f"assignment target {type(target).__name__}")

    def stmt(self, s, st):
        self.fuel[0] -= 1
        if self.fuel[0] < 0:
            raise Outside("interpreter fuel exhausted")
        line = getattr(s, "lineno", 0)
        if isinstance(s, ast.Assign):
            v = self.ev(s.value, st)
            for t in s.targets:
                self.assign(t, v, st)
            return [(st, "next", None)]
        if isinstance(s, ast.AnnAssign):
            self.note("type annotations")
            if s.value is not None:
                self.assign(s.target, self.ev(s.value, st), st)
            return [(st, "next", None)]
        if isinstance(s, ast.AugAssign):
            if not isinstance(s.target, ast.Name):
                raise Outside("augmented assignment to a non-name")
            cur = self.ev(ast.Name(id=s.target.id, ctx=ast.Load()), st)
            st.locals[s.target.id] = self.binop(s.op, cur, self.ev(s.value, st), st, line)
            return [(st, "next", None)]
        if isinstance(s, ast.Expr):
            if isinstance(s.value, ast.Constant) and isinstance(s.value.value, str):
                return [(st, "next", None)]
            self.ev(s.value, st)
            return [(st, "next", None)]
        if isinstance(s, ast.Pass):
            return [(st, "next", None)]
        if isinstance(s, ast.Return):
            v = self.ev(s.value, st) if s.value is not None else None
            return [(st, "return", (v, self.ret_ord.get(id(s), -1), line))]
        if isinstance(s, ast.Raise):
            if s.exc is None or s.cause is not None:
                raise Outside("re-raise / raise from")
            v = self.ev(s.exc, st)
            if isinstance(v, ExcVal):
                return [(st, "raise", (v.name, line))]
            raise Outside("raise of a non-literal exception")
        if isinstance(s, ast.Break):
            return [(st, "break", None)]
        if isinstance(s, ast.Continue):
            return [(st, "continue", None)]
        if isinstance(s, ast.Assert):
            c = self.truth(self.ev(s.test, st))
            if self.mode == "concrete":
                if not c:
                    raise PyExc("AssertionError")
            else:
                self.emit(f"L{line}.assert", st, c, line=line)
                st.pc.append(c if is_sym(c) else z3.BoolVal(c))
            return [(st, "next", None)]
        if isinstance(s, ast.If):
            return self.if_(s, st)
        if isinstance(s, ast.While):
            return self.while_(s, st)
        if isinstance(s, ast.For):
            return self.for_(s, st)
        raise Outside(f"statement {type(s).__name__}")

    def if_(self, s, st):
        c = self.truth(self.ev(s.test, st))
        if isinstance(c, bool):
            return self.block(s.body if c else s.orelse, st)
        st_t, st_f = st.copy(), st.copy()
        st_t.pc.append(c)
        st_f.pc.append(z3.Not(c))
        n0 = len(st.pc) + 1
        ft = self.block(s.body, st_t) if self.feasible(st_t.pc) else []
        ff = self.block(s.orelse, st_f) if self.feasible(st_f.pc) else []
        if len(ft) == 1 and len(ff) == 1 and ft[0][1] == "next" and ff[0][1] == "next":
            m = self.merge(c, ft[0][0], ff[0][0], st, n0)
            if m is not None:
                return [(m, "next", None)]
        return ft + ff

    def absorbs(self, c, va, vb):
        """BV unrolling: if the solver shows  not c => va == vb  the iteration is a no-op once the guard is false, and the
        merged value is simply va (sound: under c it is va, under not c it equals vb)"""
        try:
            s = z3.Solver()
            s.set("timeout", 2000)
            s.add(z3.Not(c), self.bvv(va) != self.bvv(vb))
            return s.check() == z3.unsat
        except z3.Z3Exception:
            return False

    def merge(self, c, a, b, base, n0, absorb=False):
        if len(a.calls) != len(base.calls) or len(b.calls) != len(base.calls) or any(a.ghosts.get(k) is not b.ghosts.get(k) for k in set(a.ghosts) | set(b.ghosts)):
            return None
        if a.locals.keys() != b.locals.keys():
            return None
        out = St({}, list(base.pc), dict(a.ghosts))
        out.calls, out.heads = list(base.calls), list(base.heads)
        try:
            for k in a.locals:
                va, vb = a.locals[k], b.locals[k]
                if va is vb or (isinstance(va, (int, bool)) and isinstance(vb, (int, bool)) and type(va) is type(vb) and va == vb):
                    out.locals[k] = va
                elif isinstance(va, list) or isinstance(vb, list):
                    if isinstance(va, list) and isinstance(vb, list) and len(va) == len(vb) and all(x is y for x, y in zip(va, vb)):
                        out.locals[k] = va
                    else:
                        return None
                elif absorb and is_intlike(va) and is_intlike(vb) and self.absorbs(c, va, vb):
                    out.locals[k] = va
                else:
                    out.locals[k] = self.ite(c, va, vb)
        except (Outside, z3.Z3Exception):
            return None
        ea, eb = a.pc[n0:], b.pc[n0:]
        if ea:
            out.pc.append(z3.Implies(c, z3.And(*ea)))
        if eb:
            out.pc.append(z3.Implies(z3.Not(c), z3.And(*eb)))
        return out

    # ------------------------------------------------------------------------------------------ loops
    def env(self, st, L, a):
        r = {}
        for role, local in L.roles.items():
            if local not in st.locals:
                raise RoleMissing(f"role '{role}' is bound to local '{local}', which is not defined at the loop head")
            r[role] = st.locals[local]
        return NS(old=a, r=NS(**r), g=NS(**st.ghosts))

    def while_(self, s, st, guard=None, post_iter=None, ordinal=None):
        """guard/post_iter are supplied by for_ when a `for ... in range` loop is desugared"""
        if s.orelse:
            raise Outside("loop else-clause")
        k = self.loop_ord[id(s)] if ordinal is None else ordinal
        L = self.C.loops.get(k) if self.C is not None else None
        guard = guard or (lambda x: self.truth(self.ev(s.test, x)))
        if self.mode == "concrete":
            return self.loop_concrete(s, st, k, L, guard, post_iter)
        if L is None:
            return self.loop_unroll(s, st, k, guard, post_iter)
        a = self.args_ns
        # ghosts of this loop get their initial values
        e0 = self.env(st, L, a)
        for g, init in L.ghosts.items():
            st.ghosts[g] = init(e0)
        e0 = self.env(st, L, a)
        self.emit(f"loop{k}.init", st, L.inv(e0), line=s.lineno)
        mod = assigned_names(s.body) | (post_iter[1] if post_iter else set())
        head = st
        shape = {}
        for nme in sorted(mod):
            if nme in head.locals:
                v = head.locals[nme]
                if isinstance(v, (list, tuple)):
                    raise Outside(f"loop {k} modifies the list '{nme}' (needs sequences)")
                head.locals[nme] = self.fresh(nme, like=v)
                shape[nme] = head.locals[nme]
        for g in L.ghosts:
            head.ghosts[g] = self.fresh("ghost_" + g)
        eh = self.env(head, L, a)
        inv_h = L.inv(eh)
        head.pc.append(inv_h)
        v0 = L.variant(eh)
        ncalls = len(head.calls)
        c = guard(head)
        out = []
        if not (isinstance(c, bool) and c is True):
            ex = head.copy()
            if not isinstance(c, bool):
                ex.pc.append(z3.Not(c))
            if self.feasible(ex.pc):
                out.append((ex, "next", None))
        if isinstance(c, bool) and c is False:
            return out
        body = head.copy()
        if not isinstance(c, bool):
            body.pc.append(c)
        flows = self.block(s.body, body)
        for (x, kind, p) in flows:
            if kind in ("next", "continue"):
                if post_iter:
                    post_iter[0](x)
                # structural frame: havoced variables keep their shape (class, field object)
                for nme, hv in shape.items():
                    nv = x.locals.get(nme)
                    if isinstance(hv, Rec) != isinstance(nv, Rec) or (isinstance(hv, Rec) and (hv.cls != nv.cls or any(isinstance(hv.f[q], Rec) and hv.f[q] is not nv.f.get(q) for q in hv.f))):
                        raise Outside(f"loop {k}: variable '{nme}' changes its class or field across an iteration")
                post = self.env(x, L, a)
                calls = {}
                for nm_, w in x.calls[ncalls:]:
                    calls.setdefault(nm_, []).append(NS(**w))
                if L.update is not None:
                    newg = L.update(eh, post, calls)
                    for g, t in newg.items():
                        x.ghosts[g] = t
                    post = self.env(x, L, a)
                hyps = []
                for i, h in enumerate(L.hints):
                    f = h(eh, post, calls)
                    v = self.emit(f"loop{k}.hint{i}", x, f, line=s.lineno, extra_hyps=hyps)
                    v.kind = "lemma"
                    hyps.append(f)
                self.emit(f"loop{k}.preserve", x, L.inv(post), line=s.lineno, extra_hyps=hyps)
                self.emit(f"loop{k}.variant", x, T.AND(L.variant(post) < v0, v0 >= 0), line=s.lineno, extra_hyps=hyps)
            elif kind == "break":
                out.append((x, "next", None))
            else:
                out.append((x, kind, p))
        return out

    def loop_unroll(self, s, st, k, guard, post_iter):
        """no invariant: concrete guards are simply followed; in BV mode symbolic guards are unrolled W+1 times"""
        cur = st
        bound = (self.W + 1) if self.bv else 1 << 16
        it = 0
        while True:
            c = guard(cur)
            if isinstance(c, bool):
                if not c:
                    return [(cur, "next", None)]
                flows = self.block(s.body, cur)
                nxt = []
                done = []
                for (x, kind, p) in flows:
                    if kind in ("next", "continue"):
                        if post_iter:
                            post_iter[0](x)
                        nxt.append(x)
                    elif kind == "break":
                        done.append((x, "next", None))
                    else:
                        done.append((x, kind, p))
                if len(nxt) == 1 and not done:
                    cur = nxt[0]
                    it += 1
                    if it > 4096:
                        raise Outside("concrete loop bound")
                    continue
                # forking inside an unrolled loop: continue each continuation recursively
                out = list(done)
                for x in nxt:
                    out.extend(self.loop_unroll(s, x, k, guard, post_iter))
                return out
            if not self.bv:
                raise Outside(f"loop {k} has a symbolic guard and no sidecar invariant")
            if it >= bound:
                self.emit(f"loop{k}.unwind", cur, z3.Not(c), line=s.lineno)
                cur.pc.append(z3.Not(c))
                self.note(f"BV mode: while-loop {k} unrolled {bound} times with an unwinding assertion")
                return [(cur, "next", None)]
            body = cur.copy()
            n0 = len(cur.pc) + 1
            body.pc.append(c)
            flows = self.block(s.body, body)
            if len(flows) != 1 or flows[0][1] not in ("next", "continue"):
                raise Outside(f"BV loop {k}: body with break/return/raise")
            if post_iter:
                post_iter[0](flows[0][0])
            skip = cur.copy()
            skip.pc.append(z3.Not(c))
            m = self.merge(c, flows[0][0], skip, cur, n0, absorb=True)
            if m is None:
                raise Outside(f"BV loop {k}: body state cannot be merged")
            cur = m
            it += 1

    def loop_concrete(self, s, st, k, L, guard, post_iter):
        a = self.args_ns
        if L is not None:
            try:
                self.env(st, L, a)
            except RoleMissing:
                L = None  # invariant not applicable to this source: run without monitoring
        if L is not None:
            e0 = self.env(st, L, a)
            for g, init in L.ghosts.items():
                st.ghosts[g] = init(e0)
            if not _truthy(L.inv(self.env(st, L, a))):
                self.monitor.append((f"loop{k}.init", "invariant false on entry"))
        it = 0
        while True:
            c = guard(st)
            if not isinstance(c, bool):
                raise Outside("symbolic guard in concrete mode")
            if not c:
                return [(st, "next", None)]
            it += 1
            if it > 100000:
                raise Outside("concrete loop does not terminate within 100000 iterations")
            if L is not None:
                pre = self.env(st, L, a)
                pre = NS(old=pre.old, r=NS(**dict(pre.r.__dict__)), g=NS(**dict(pre.g.__dict__)))
                v0 = L.variant(pre)
                ncalls = len(st.calls)
            flows = self.block(s.body, st)
            (x, kind, p) = flows[0]
            if kind in ("next", "continue"):
                if post_iter:
                    post_iter[0](x)
                if L is not None:
                    post = self.env(x, L, a)
                    if L.update is not None:
                        calls = {}
                        for nm_, w in x.calls[ncalls:]:
                            calls.setdefault(nm_, []).append(NS(**w))
                        try:
                            x.ghosts.update(L.update(pre, post, calls))
                        except (KeyError, IndexError):
                            pass
                        post = self.env(x, L, a)
                    if not _truthy(L.inv(post)):
                        self.monitor.append((f"loop{k}.preserve", f"invariant false after iteration {it}"))
                    v1 = L.variant(post)
                    if not (v1 < v0 and v0 >= 0):
                        self.monitor.append((f"loop{k}.variant", f"variant {v0} -> {v1} at iteration {it}"))
                continue
            if kind == "break":
                return [(x, "next", None)]
            return [(x, kind, p)]

    def for_(self, s, st):
        if s.orelse:
            raise Outside("loop else-clause")
        it = s.iter
        k = self.loop_ord[id(s)]
        if isinstance(it, ast.Call) and isinstance(it.func, ast.Name) and it.func.id == "range" and 1 <= len(it.args) <= 2 and isinstance(s.target, ast.Name):
            args = [self.ev(x, st) for x in it.args]
            lo, hi = (0, args[0]) if len(args) == 1 else (args[0], args[1])
            var = s.target.id
            cnt = f"__for{k}"
            st.locals[cnt] = lo

            def guard(x):
                g = self.compare(ast.Lt(), x.locals[cnt], hi, x)
                if isinstance(g, bool):
                    if g:
                        x.locals[var] = x.locals[cnt]
                    return g
                x.locals[var] = x.locals[cnt]
                return g

            def bump(x):
                x.locals[cnt] = self.binop(ast.Add(), x.locals[cnt], 1, x)

            return self.while_(s, st, guard=guard, post_iter=(bump, {cnt, var}), ordinal=k)
        seq = self.ev(it, st)
        if isinstance(seq, (list, tuple)):
            items = list(seq)
            flows = [(st, "next", None)]
            for item in items:
                new = []
                for (x, kind, p) in flows:
                    if kind != "next":
                        new.append((x, kind, p))
                        continue
                    self.assign(s.target, item, x)
                    for (y, k2, p2) in self.block(s.body, x):
                        if k2 == "continue":
                            new.append((y, "next", None))
                        elif k2 == "break":
                            new.append((y, "broke", None))
                        else:
                            new.append((y, k2, p2))
                flows = new
            return [(x, "next" if kind == "broke" else kind, p) for (x, kind, p) in flows]
        raise Outside("for-loop over something other than range(...) or a concrete-length list")

    # ------------------------------------------------------------------------------------------- run
    def check_roles(self):
        if self.C is None:
            return
        names = all_names(self.src.fn)
        nloops = len(self.loop_ord)
        for k, L in self.C.loops.items():
            if k >= nloops:
                raise RoleMissing(f"contract names loop ordinal {k} but the function has {nloops} loop(s)")
            for role, local in L.roles.items():
                if local not in names and not local.startswith("__for"):
                    raise RoleMissing(f"role '{role}' is bound to local '{local}', which no longer exists in {self.src.qualname}")

    def run_vc(self, inputs):
        """inputs: {param: symbolic value}.  Returns list of exits [(kind, payload, st)]; VCs accumulate in self.vcs"""
        C = self.C
        self.check_roles()
        a = NS(**inputs)
        self.args_ns = a
        st = St(dict(inputs), [], {})
        if C.requires is not None:
            st.pc.append(C.requires(a))
        e = NS(old=a, r=NS(), g=NS())
        for g, init in C.ghosts.items():
            st.ghosts[g] = init(e)
        flows = self.block(self.src.fn.body, st)
        exits = []
        for (x, kind, p) in flows:
            if kind == "next":
                kind, p = "return", (None, -1, 0)
            if kind == "return":
                res, ordn, line = p
                exits.append(("return", res, x, ordn))
                self.post_vcs(a, res, x, ordn, line)
            elif kind == "raise":
                name, line = p
                exits.append(("raise", name, x, line))
                conds = [c for (n_, c) in C.raises if n_ == name]
                self.emit(f"raise_{name}@L{line}.declared", x, T.OR(*[c(a) for c in conds]) if conds else False, line=line)
            else:
                raise Outside(f"{kind} outside a loop")
        return exits

    def post_vcs(self, a, res, x, ordn, line):
        C = self.C
        t = C.returns
        ok = (t == "int" and is_intlike(res)) or (t == "bool" and is_boollike(res)) or (isinstance(res, Rec) and res.cls == t) or (t == "any") or (t == "list" and isinstance(res, list))
        if not ok:
            raise Outside(f"return value of kind {res.cls if isinstance(res, Rec) else type(res).__name__} where the contract declares {t}")
        e = NS(old=a, r=NS(**{k: v for k, v in x.locals.items()}), g=NS(**x.ghosts), res=res)
        wf = C.witness.get(ordn, C.witness.get("*"))
        calls = {}
        for nm_, w_ in x.calls:
            calls.setdefault(nm_, []).append(NS(**w_))
        e.calls = calls
        if wf is not None:
            try:
                w = wf(e)
            except (AttributeError, KeyError, IndexError) as err:
                raise RoleMissing(f"witness of return #{ordn} refers to a local or callee that no longer exists: {err}")
        else:
            w = {g: x.ghosts[g] for g in C.post_ghosts if g in x.ghosts}
        missing = [g for g in C.post_ghosts if g not in w]
        if missing:
            raise Outside(f"no witness for post ghosts {missing} at return #{ordn}")
        wn = NS(**w)
        hyps = []
        for i, h in enumerate(C.hints.get(ordn, ())):
            try:
                f = h(e, res, wn)
            except (AttributeError, KeyError, IndexError) as err:
                raise RoleMissing(f"hint {i} of return #{ordn} refers to a local or callee that no longer exists: {err}")
            v = self.emit(f"ret{ordn}.hint{i}", x, f, line=line, extra_hyps=hyps)
            v.kind = "lemma"
            hyps.append(f)
        for name, f in (C.ensures(a, res, wn) if C.ensures else {}).items():
            self.emit(f"ret{ordn}.{name}", x, f, line=line, extra_hyps=hyps)
        for exc, cond in C.raises:
            self.emit(f"ret{ordn}.not_{exc}_case", x, T.NOT(cond(a)), line=line)

    def run_concrete(self, inputs):
        """returns ("return", value) | ("raise", exception name)"""
        a = NS(**inputs)
        self.args_ns = a
        st = St(dict(inputs), [], {})
        if self.C is not None:
            e = NS(old=a, r=NS(), g=NS())
            for g, init in self.C.ghosts.items():
                st.ghosts[g] = init(e)
        flows = self.block(self.src.fn.body, st)
        (x, kind, p) = flows[0]
        self.final = x
        if kind == "next":
            return ("return", None)
        if kind == "return":
            return ("return", p[0])
        if kind == "raise":
            return ("raise", p[0])
        raise Outside(f"{kind} outside a loop")


def _truthy(f):
    if isinstance(f, z3.ExprRef):
        return z3.is_true(z3.simplify(f))
    return bool(f)
