"""Seeded-mutation self-test of engine E1 (DESIGN.md section 5).

Copies kaira/models/fec/algebra.py from the repository into a scratch directory created with tempfile.mkdtemp (outside
/repo and /verif, removed afterwards), applies one textual mutation at a time and runs the *same* obligations against the
mutated copy (the VC generator takes the source root as a parameter).  Each catalogue mutation must make its named
obligation fail with an input that replays on the mutated function; each benign edit must still verify.

    /verif/.venv/bin/python -m vk.e1.selftest         (cwd /verif, PYTHONPATH=/repo:/verif)
"""
from __future__ import annotations

import os
import shutil
import sys
import tempfile
import time
import warnings

warnings.filterwarnings("ignore")
ROOT = os.path.dirname(os.path.dirname(os.path.dirname(os.path.abspath(__file__))))
sys.path.insert(0, ROOT)
REL = "kaira/models/fec/algebra.py"


def _between(text, start, end):
    i = text.index(start)
    j = text.index(end, i)
    return i, j


def mut_replace(old, new, within=None, count=1):
    def f(text):
        lo, hi = (0, len(text)) if within is None else _between(text, *within)
        seg = text[lo:hi]
        assert seg.count(old) >= 1, f"mutation pattern not found: {old!r}"
        seg = seg.replace(old, new, count)
        return text[:lo] + seg + text[hi:]

    return f


MUL = ("    def __mul__(self, other: \"BinaryPolynomial\")", "    def __mod__(")
MOD = ("    def __mod__(self, modulus", "    def evaluate(")
GCD = ("    def gcd(self, other", "    def div(")
POW = ("    def __pow__(self, exponent", "    def minimal_polynomial(")

# (name, mutation, obligation id, config, expectation, vc-name prefix that must carry the verdict (or None = any))
CATALOGUE = [
    ("mul: `a <<= 1` moved before the `if`",
     mut_replace("            if b & 1:  # If the current bit of b is 1\n                result ^= a  # XOR (equivalent to addition in GF(2))\n            a <<= 1  # Multiply a by x (shift left)\n",
                 "            a <<= 1  # Multiply a by x (shift left)\n            if b & 1:  # If the current bit of b is 1\n                result ^= a  # XOR (equivalent to addition in GF(2))\n", MUL),
     "C18.poly_mul", "-", "refuted", "loop0.preserve"),
    ("mod: shift off by one",
     mut_replace("shift = remainder_degree - modulus_degree\n", "shift = remainder_degree - modulus_degree - 1\n", MOD),
     "C18.poly_mod", "-", "refuted", None),
    ("pow: `exponent >>= 1` -> `exponent -= 1`",
     mut_replace("            exponent >>= 1\n", "            exponent -= 1\n", POW),
     "C18.elem_pow", "m=4", "refuted", "loop0.preserve"),
    ("gcd: returns b",
     mut_replace("            a, b = b, a % b\n\n        return a\n", "            a, b = b, a % b\n\n        return b\n", GCD),
     "C18.poly_gcd", "-", "refuted", "ret3."),
    ("field table: modulus of GF(2^4) changed to the reducible x^4+x^2+1",
     mut_replace("4: 0b10011,", "4: 0b10101,"),
     "C18.field_ground", "m=4", "refuted", "modulus_irreducible"),
    ("BENIGN mod: loop-local `shift` renamed consistently",
     mut_replace("shift", "sh_amount", MOD, count=-1),
     "C18.poly_mod", "-", "discharged", None),
    ("BENIGN mod: two independent statements reordered",
     mut_replace("        modulus_degree = modulus.degree\n        modulus_value = modulus.value\n", "        modulus_value = modulus.value\n        modulus_degree = modulus.degree\n", MOD),
     "C18.poly_mod", "-", "discharged", None),
    ("BENIGN mul: loop-carried locals keep their names, comment/blank-line edits only",
     mut_replace("        # Implement polynomial multiplication in GF(2)\n", "\n        # carry-less multiplication\n\n", MUL),
     "C18.poly_mul", "-", "discharged", None),
    ("ROLE mod: loop-carried `remainder` renamed (role binding no longer matches => undecided, never refuted)",
     mut_replace("remainder", "rem_x", MOD, count=-1),
     "C18.poly_mod", "-", "undecided", "vcgen"),
]


def main():
    import importlib

    from vk import harness as H

    importlib.import_module("contracts.c18")
    from vk.e1 import source as SRC

    repo = SRC.repo_root()
    orig = open(os.path.join(repo, REL)).read()
    tmp = tempfile.mkdtemp(prefix="e1_selftest_")
    assert not os.path.abspath(tmp).startswith(("/repo", "/verif")), tmp
    rows = []
    ok_all = True
    try:
        only = os.environ.get("E1_SELFTEST_ONLY")
        for i, (name, mut, ob, cfg, expect, prefix) in enumerate(CATALOGUE):
            if only and str(i) not in only.split(","):
                continue
            root = os.path.join(tmp, f"mut{i}")
            os.makedirs(os.path.join(root, os.path.dirname(REL)))
            text = mut(orig)
            assert text != orig, f"mutation {name!r} did not change the text"
            with open(os.path.join(root, REL), "w") as fh:
                fh.write(text)
            spec = H.REGISTRY[ob]
            t0 = time.time()
            os.environ["KAIRA_REPO"] = root
            try:
                if spec.engine == "E1":
                    from vk.e1.check import verify_function

                    res = verify_function(spec, spec.function, cfg, "quick", 0, root=root)
                else:
                    res = spec.body(spec, cfg, "quick", 0)
            finally:
                os.environ["KAIRA_REPO"] = repo
            proof = [r for r in res if r.kind in ("proof", "ground")]
            bad = [r for r in proof if r.verdict != "discharged"]
            if expect == "discharged":
                ok = not bad and len(proof) > 0 and all(r.verdict == "discharged" for r in res)
                obs = f"{len(proof)} VCs discharged" if ok else "; ".join(f"{r.ob.split('/', 1)[1]}={r.verdict}" for r in bad + [r for r in res if r.kind == "crosscheck" and r.verdict != "discharged"])
            elif expect == "undecided":
                hit = [r for r in bad if r.verdict == "undecided" and (prefix is None or r.ob.split("/", 1)[1].startswith(prefix))]
                ok = bool(hit) and not any(r.verdict in ("refuted", "error") for r in res)
                obs = (hit[0].ob.split("/", 1)[1] + " undecided: " + hit[0].detail[:110]) if hit else "; ".join(f"{r.ob.split('/', 1)[1]}={r.verdict}" for r in bad)
            else:
                hit = [r for r in bad if r.verdict == "refuted" and (r.replay_confirmed or r.kind == "ground") and (prefix is None or r.ob.split("/", 1)[1].startswith(prefix))]
                ok = bool(hit)
                obs = (f"{hit[0].ob.split('/', 1)[1]} refuted, witness {hit[0].witness}, replayed on the mutated function" if hit else "NOT DETECTED: " + ("; ".join(f"{r.ob.split('/', 1)[1]}={r.verdict}" for r in bad) or "all discharged"))
                if hit:
                    obs += f" (+{len([r for r in bad if r.verdict == 'refuted']) - 1} more refuted, {len([r for r in bad if r.verdict == 'undecided'])} undecided)"
            ok_all &= ok
            rows.append((("PASS" if ok else "FAIL"), name, f"{ob} @ {cfg} expected {expect}", obs, round(time.time() - t0, 1)))
            print(f"{'PASS' if ok else 'FAIL'}  {name}\n      {ob} @ {cfg}: expected {expect}; observed: {obs}  [{time.time() - t0:.1f}s]", flush=True)
    finally:
        shutil.rmtree(tmp, ignore_errors=True)
    print(f"selftest: {sum(r[0] == 'PASS' for r in rows)}/{len(rows)} passed; scratch dir {tmp} removed: {not os.path.exists(tmp)}")
    return 0 if ok_all else 1


if __name__ == "__main__":
    sys.exit(main())
