"""Sidecar contract objects consumed by E1 (see DESIGN.md 3.1 / 3.2)."""
from __future__ import annotations

import dataclasses


class NS:
    """attribute namespace"""

    def __init__(*args, **kw):  # no named 'self': contracts use a.self for the receiver
        args[0].__dict__.update(kw)

    def __repr__(self):
        return "NS(" + ", ".join(f"{k}={v!r}" for k, v in self.__dict__.items()) + ")"


class Rec:
    """record value: class name + fields (ints: python int / z3 term; or nested Rec)"""

    __slots__ = ("cls", "f")

    def __init__(self, cls, **f):
        object.__setattr__(self, "cls", cls)
        object.__setattr__(self, "f", dict(f))

    def __getattr__(self, n):
        f = object.__getattribute__(self, "f")
        if n in f:
            return f[n]
        raise AttributeError(n)

    def __repr__(self):
        return f"{self.cls}({', '.join(f'{k}={v}' for k, v in self.f.items())})"


@dataclasses.dataclass
class Loop:
    roles: dict  # role name -> loop-carried local name (checked against the ast)
    inv: callable  # e -> bool/z3  (e.old params at entry, e.r roles, e.g ghosts)
    variant: callable  # e -> int/z3
    ghosts: dict = dataclasses.field(default_factory=dict)  # ghost name -> initial value e -> term (set at loop entry)
    update: callable = None  # (pre, post, calls) -> {ghost: term} applied at the back edge
    hints: tuple = ()  # extra lemmas (e -> formula) proved first, then assumed, for the preservation VC


@dataclasses.dataclass
class Contract:
    key: str  # "<file>:<Class.method>"
    types: dict  # parameter -> "int" | "bool" | record class name
    returns: str = "int"
    mode: str = "int"  # "int" (unbounded, theory GF2POLY) | "bv64"
    requires: callable = None  # a -> formula
    ensures: callable = None  # (a, res, w) -> {clause name: formula};  w = post ghosts (existential witnesses)
    raises: tuple = ()  # ((exception name, a -> condition), ...): raises E  <=>  condition
    post_ghosts: tuple = ()
    witness: dict = dataclasses.field(default_factory=dict)  # return ordinal (or "*") -> e -> {post ghost: term}
    native_witness: callable = None  # (a, res) -> {post ghost: int}   for concrete evaluation of `ensures`
    ghosts: dict = dataclasses.field(default_factory=dict)
    loops: dict = dataclasses.field(default_factory=dict)  # loop ordinal -> Loop
    theory: tuple = ("core",)
    small: callable = None  # cfg -> iterable of {param: concrete abstract value}  (exhaustive small inputs)
    small_desc: str = ""
    result_field_of: str = "self"  # for field-element results: which parameter's field the result lives in
    hints: dict = dataclasses.field(default_factory=dict)  # return ordinal -> tuple of (e, res, w) -> formula
    note: str = ""
    extra: callable = None  # (cfg, module) -> [(label, z3 formula)]: per-configuration axiom instances / ground facts
    caches: dict = dataclasses.field(default_factory=dict)  # attribute name -> (ex, base, key, st) -> value the memo table holds for key

    @property
    def short(self):
        return self.key.split(":", 1)[1]


CONTRACTS = {}


def register(c: Contract):
    CONTRACTS[c.key] = c
    return c
