"""E1 driver: generate the VCs of one function from the working tree, discharge them, and apply the soundness guards.

verify_function(spec, key, cfg, tier, seed) -> list[ObResult]
   cover            the precondition is satisfiable by a concrete input on which the real function runs
   <vc name>        one result per verification condition (z3; on unknown: concrete search on the real function)
   __crosscheck__   the AST interpreter (same expression/statement semantics as VC generation) agrees with the real
                    function on the contract's exhaustive small-input set
"""
from __future__ import annotations

import itertools
import subprocess
import tempfile
import time
import traceback
import os

import z3

from ..harness import ObResult
from . import theory as T
from .contract import CONTRACTS, NS, Rec
from .source import FnSrc, Outside, load_module
from .vcgen import NOTIMPL, Exec, PyExc, RoleMissing, _truthy

ALG = "kaira/models/fec/algebra.py"
_FIELDS = {}


def cfg_m(cfg):
    s = str(cfg)
    for part in s.replace(",", " ").split():
        if part.startswith("m="):
            return int(part[2:])
    return None


def field_rec(mod, m):
    k = (id(mod), m)
    if k not in _FIELDS:
        F = mod.FiniteBifield(m)
        _FIELDS[k] = Rec("FiniteBifield", m=int(F.m), size=int(F.size), modulus=Rec("BinaryPolynomial", value=int(F.modulus.value)))
    return _FIELDS[k]


def realize(v, mod):
    if isinstance(v, Rec):
        if v.cls == "BinaryPolynomial":
            return mod.BinaryPolynomial(v.value)
        if v.cls == "FiniteBifieldElement":
            return mod.FiniteBifieldElement(mod.FiniteBifield(v.field.m), v.value)
        if v.cls == "FiniteBifield":
            return mod.FiniteBifield(v.m)
        raise Outside(f"realize {v.cls}")
    return v


def abstract(o, mod):
    if o is NotImplemented:
        return NOTIMPL
    if o is None or isinstance(o, (bool, int)):
        return o
    if isinstance(o, (list, tuple)):
        return [abstract(x, mod) for x in o]
    n = type(o).__name__
    if n == "BinaryPolynomial":
        return Rec(n, value=o.value)
    if n == "FiniteBifieldElement":
        return Rec(n, field=field_rec(mod, o.field.m), value=o.value)
    if n == "FiniteBifield":
        return field_rec(mod, o.m)
    raise Outside(f"abstract {n}")


def same(a, b):
    if isinstance(a, Rec) or isinstance(b, Rec):
        if not (isinstance(a, Rec) and isinstance(b, Rec)) or a.cls != b.cls or a.f.keys() != b.f.keys():
            return False
        return all(same(a.f[k], b.f[k]) for k in a.f)
    if isinstance(a, list) or isinstance(b, list):
        return isinstance(a, list) and isinstance(b, list) and len(a) == len(b) and all(same(x, y) for x, y in zip(a, b))
    return type(a) is type(b) and a == b


def plain(v):
    """witness representation of an abstract value"""
    if isinstance(v, Rec):
        if v.cls == "FiniteBifield":
            return {"m": v.m}
        return v.value
    return v


def sym_inputs(C, src, cfg, bv=False):
    out = {}
    mod = src.module
    for p in src.params:
        t = C.types.get(p)
        if t == "int":
            out[p] = z3.BitVec(p, int(C.mode[2:])) if bv else z3.Int(p)
        elif t == "bool":
            out[p] = z3.Bool(p)
        elif t == "BinaryPolynomial":
            out[p] = Rec(t, value=z3.Int(f"{p}.value"))
        elif t == "FiniteBifieldElement":
            out[p] = Rec(t, field=field_rec(mod, cfg_m(cfg)), value=z3.Int(f"{p}.value"))
        elif t == "FiniteBifield":
            out[p] = field_rec(mod, cfg_m(cfg))
        else:
            raise Outside(f"parameter {p}: no declared type in the contract")
    return out


def input_vars(inputs):
    out = {}
    for p, v in inputs.items():
        if isinstance(v, Rec):
            if "value" in v.f and isinstance(v.value, z3.ExprRef):
                out[p] = v.value
        elif isinstance(v, z3.ExprRef):
            out[p] = v
    return out


def concretise(inputs, vals):
    out = {}
    for p, v in inputs.items():
        if isinstance(v, Rec) and p in vals:
            out[p] = Rec(v.cls, **dict(v.f, value=vals[p]))
        elif p in vals:
            out[p] = vals[p]
        else:
            out[p] = v
    return out


# ------------------------------------------------------------------------------------------------ native side
class _NativeTimeout(BaseException):
    pass


class _time_limit:
    """wall-clock limit for one call of the real function (a mutated or defective loop may not terminate)"""

    def __init__(self, seconds):
        self.seconds = seconds

    def __enter__(self):
        import signal
        import threading

        self.active = threading.current_thread() is threading.main_thread()
        if self.active:
            def handler(signum, frame):
                raise _NativeTimeout()

            self.old = signal.signal(signal.SIGALRM, handler)
            signal.setitimer(signal.ITIMER_REAL, self.seconds)
        return self

    def __exit__(self, *a):
        import signal

        if self.active:
            signal.setitimer(signal.ITIMER_REAL, 0)
            signal.signal(signal.SIGALRM, self.old)
        return False


def run_real(src, args):
    """run the real function object; returns ("return", abstract value) | ("raise", name)"""
    mod = src.module
    real = [realize(a, mod) for a in args]
    try:
        with _time_limit(2.0):
            if src.is_property:
                r = src.pyobj(real[0])
            else:
                r = src.pyobj(*real)
    except _NativeTimeout:
        return ("raise", "DoesNotTerminate(2s)")
    except Exception as e:
        return ("raise", type(e).__name__)
    return ("return", abstract(r, mod))


def native_contract(C, src, inp):
    """evaluate the contract on the real function for one concrete input.  Returns None if the precondition excludes the
    input, else list of failing clause names (empty = contract holds)"""
    a = NS(**inp)
    if C.requires is not None and not _truthy(C.requires(a)):
        return None
    out = run_real(src, [inp[p] for p in src.params])
    fails = []
    expected = [exc for exc, cond in C.raises if _truthy(cond(a))]
    if out[0] == "raise":
        if out[1] not in expected:
            fails.append(f"raises:{out[1]}")
        return fails
    if expected:
        fails.append(f"no_raise:{expected[0]}")
        return fails
    res = out[1]
    t = C.returns
    if isinstance(res, Rec) != (t not in ("int", "bool", "any", "list")) or (isinstance(res, Rec) and res.cls != t):
        fails.append("result_type")
        return fails
    w = {}
    if C.post_ghosts:
        try:
            w = C.native_witness(a, res)
        except Exception as e:  # no witness exists (e.g. division by a zero gcd)
            fails.append(f"witness:{type(e).__name__}")
            return fails
    for name, f in (C.ensures(a, res, NS(**w)) if C.ensures else {}).items():
        if not _truthy(f):
            fails.append(name)
    return fails


def small_inputs(C, src, cfg, limit=None):
    it = C.small(cfg) if C.small else []
    mod = src.module
    n = 0
    for d in it:
        inp = {}
        for p in src.params:
            t = C.types.get(p)
            v = d[p]
            if t == "BinaryPolynomial":
                v = Rec(t, value=v)
            elif t == "FiniteBifieldElement":
                v = Rec(t, field=field_rec(mod, cfg_m(cfg)), value=v)
            elif t == "FiniteBifield":
                v = field_rec(mod, cfg_m(cfg))
            inp[p] = v
        yield inp
        n += 1
        if limit and n >= limit:
            return


def interp(src, C, cfg, inp, root=None, monitor=None):
    ex = Exec(src, C, cfg, "concrete", root, monitor=monitor)
    try:
        return ex.run_concrete(dict(inp)), ex
    except PyExc as e:
        return ("raise", e.name), ex


# ------------------------------------------------------------------------------------------------ solving
_FEAS = {}


def feasible(pc):
    s = z3.Solver()
    s.set("timeout", 300)
    s.add(*[p if isinstance(p, z3.ExprRef) else z3.BoolVal(bool(p)) for p in pc])
    return s.check() != z3.unsat


_SERVER = {}


def _server():
    import subprocess as sp
    import sys

    key = os.getpid()
    p = _SERVER.get(key)
    if p is None or p.poll() is not None:
        env = dict(os.environ)
        env["PYTHONPATH"] = os.path.dirname(os.path.dirname(os.path.dirname(os.path.abspath(__file__)))) + os.pathsep + env.get("PYTHONPATH", "")
        p = sp.Popen([sys.executable, "-W", "ignore", os.path.join(os.path.dirname(os.path.abspath(__file__)), "solver_server.py")], stdin=sp.PIPE, stdout=sp.PIPE, stderr=sp.DEVNULL, env=env)
        _SERVER.clear()
        _SERVER[key] = p
    return p


def _guarded_check(s, timeout_ms, ivars=None):
    """Run the query in the out-of-process z3 worker (vk/e1/solver_server.py) under a hard deadline; the worker is killed and
    respawned if it does not answer.  Returns (result string, {param: value string} or None, note)."""
    import json
    import select

    txt = s.to_smt2().encode()
    names = {str(v): p for p, v in (ivars or {}).items()}
    for attempt in (0, 1):
        p = _server()
        try:
            p.stdin.write((json.dumps({"n": len(txt), "timeout": int(timeout_ms), "names": list(names)}) + "\n").encode() + txt)
            p.stdin.flush()
        except (BrokenPipeError, OSError):
            p.kill()
            continue
        ready, _, _ = select.select([p.stdout], [], [], timeout_ms / 1000.0 * 1.25 + 3.0)
        if not ready:
            p.kill()
            p.wait()
            return "unknown", None, "hard timeout (solver process killed)"
        line = p.stdout.readline()
        if not line:
            p.kill()
            continue
        rep = json.loads(line)
        model = None
        if rep.get("model") is not None:
            model = {names[k]: v for k, v in rep["model"].items() if k in names}
        return rep["res"], model, rep.get("why", "")
    return "unknown", None, "solver process unavailable"


def _conjuncts(g):
    if z3.is_and(g):
        out = []
        for c in g.children():
            out.extend(_conjuncts(c))
        return out
    return [g]


def solve_vc(vc, axioms, timeout_ms, use_cvc5=False, ivars=None):
    """unsat for every conjunct of the goal => 'unsat'.  Otherwise the first undecided conjunct is reported.
    Returns (result, model values {param: int} or None, seconds, backend, detail)."""
    t0 = time.time()
    g = vc.goal if isinstance(vc.goal, z3.ExprRef) else z3.BoolVal(bool(vc.goal))
    backend = "z3"
    notes = []
    for i, cj in enumerate(_conjuncts(g)):
        s = z3.Solver()
        s.set("timeout", timeout_ms)
        s.add(axioms)
        for h in vc.hyps:
            s.add(h if isinstance(h, z3.ExprRef) else z3.BoolVal(bool(h)))
        s.add(z3.Not(cj))
        r, model, why = _guarded_check(s, timeout_ms, ivars)
        if r == "unsat":
            continue
        where = f"conjunct {i}: {str(cj)[:160]}"
        if r == "sat":
            try:
                model = {p: int(v) for p, v in (model or {}).items()}
            except ValueError:
                model = None
            return "sat", model, time.time() - t0, backend, where
        detail = f"z3: unknown ({why}) on {where}"
        if use_cvc5 and os.path.exists("/usr/bin/cvc5"):
            r2 = cvc5_check(s, max(2000, timeout_ms // 2))
            detail += f"; cvc5: {r2}"
            if r2 == "unsat":
                backend = "cvc5"
                notes.append(f"conjunct {i} by cvc5")
                continue
        return "unknown", None, time.time() - t0, backend, detail
    return "unsat", None, time.time() - t0, backend, "; ".join(notes)


def cvc5_check(solver, timeout_ms):
    try:
        txt = "(set-logic ALL)\n" + solver.to_smt2().replace("(set-info :status unknown)", "")
        with tempfile.NamedTemporaryFile("w", suffix=".smt2", delete=False, dir=os.path.join(os.path.dirname(__file__), "..", "..", "scratch")) as fh:
            fh.write(txt)
            path = fh.name
        try:
            out = subprocess.run(["/usr/bin/cvc5", f"--tlimit={timeout_ms}", path], capture_output=True, text=True, timeout=timeout_ms / 1000 + 5)
            return out.stdout.strip().splitlines()[0] if out.stdout.strip() else "error"
        finally:
            os.unlink(path)
    except Exception as e:
        return f"error {type(e).__name__}"


# ------------------------------------------------------------------------------------------------ main entry
def verify_function(spec, key, cfg, tier, seed, root=None, sid=None, differential=True, contract=None):
    t_all = time.time()
    sid = sid or spec.id
    base = dict(prop=spec.prop, config=str(cfg), function=key, engine="E1")
    results = []

    def R(name, **kw):
        r = ObResult(ob=f"{sid}/{name}", **base, **kw)
        results.append(r)
        return r

    try:
        src = FnSrc(key, root)
    except Exception as e:
        R("source", verdict="undecided", backend="-", detail=f"outside E1: cannot load {key}: {type(e).__name__}: {e}")
        return results
    C = contract or CONTRACTS.get(key)
    if C is None:
        R("contract", verdict="error", backend="-", detail="no contract registered")
        return results
    pin = src.pin()
    bv = C.mode.startswith("bv")
    timeout = 90000 if tier == "quick" else 240000  # wall-clock budgets sized for a loaded 16-core machine (verdicts must not flip under load)
    # ---- VC generation
    gen_err = None
    vcs = []
    ex = None
    try:
        inputs = sym_inputs(C, src, cfg, bv)
        ex = Exec(src, C, cfg, "vc", root, feasible=feasible)
        ex.run_vc(inputs)
        vcs = ex.vcs
    except RoleMissing as e:
        gen_err = f"role binding: {e} (invariant not applicable to the current source; falls back to the bounded layer)"
    except Outside as e:
        gen_err = f"outside E1: {e}"
    except Exception as e:
        R("vcgen", verdict="error", backend="-", detail=f"{type(e).__name__}: {e}\n{traceback.format_exc(limit=6)}", source=pin)
        return results
    # ---- concrete layer (lazy)
    conc = {}

    def concrete_search():
        if conc:
            return conc
        conc["native"] = {}  # clause -> input
        conc["monitor"] = {}  # vc base name -> input
        conc["any"] = None
        conc["n"] = 0
        t0 = time.time()
        for inp in small_inputs(C, src, cfg):
            if time.time() - t0 > (20 if tier == "quick" else 120):
                conc["truncated"] = True
                break
            try:
                f = native_contract(C, src, inp)
            except Exception as e:
                f = [f"crash:{type(e).__name__}"]
            if f is None:
                continue
            conc["n"] += 1
            for name in f:
                conc["native"].setdefault(name, inp)
                if conc["any"] is None:
                    conc["any"] = (inp, name)
            if gen_err is None and C.loops:
                mon = []
                try:
                    interp(src, C, cfg, inp, root, monitor=mon)
                except Exception:
                    pass
                for name, _d in mon:
                    if name not in conc["monitor"]:
                        conc["monitor"][name] = (inp, bool(f))
        return conc

    def wit(inp):
        return {p: plain(v) for p, v in inp.items()}

    # ---- cover: requires satisfiable on a concrete input the real function accepts
    t0 = time.time()
    cov = None
    try:
        for inp in small_inputs(C, src, cfg, limit=5000):
            a = NS(**inp)
            if C.requires is None or _truthy(C.requires(a)):
                cov = inp
                break
    except Exception as e:
        cov = None
    R("cover.requires", backend="native", kind="proof", verdict="discharged" if cov is not None else "error", wall_s=round(time.time() - t0, 3), detail=(f"precondition satisfied by {wit(cov)}" if cov is not None else "vacuity: no small input satisfies the precondition"), source=pin)
    # ---- VCs
    if gen_err is not None:
        r = R("vcgen", verdict="undecided", backend="-", detail=gen_err, source=pin)
        cs = concrete_search()
        if cs["any"] is not None:
            inp, name = cs["any"]
            r.verdict, r.witness, r.replay_confirmed = "refuted", wit(inp), True
            r.backend = "native"
            r.detail = f"contract clause '{name}' fails on the real function (found by exhaustive small-input search: {C.small_desc}) after: {gen_err}"
    else:
        if not vcs:
            R("vcgen", verdict="error", backend="-", detail="vacuous: no verification condition generated", source=pin)
        axioms = [] if bv else T.z3_axioms(C.theory)
        if C.extra is not None and not bv:
            ext = C.extra(cfg, src.module)
            axioms = axioms + [f for _l, f in ext]
            results[0].detail += " | per-configuration hypotheses: " + "; ".join(l for l, _f in ext)
        ivars = input_vars(inputs)
        for vc in vcs:
            r0 = time.time()
            try:
                res, model, ss, backend, detail = solve_vc(vc, axioms, timeout, use_cvc5=True, ivars=ivars)
            except Exception as e:
                R(vc.name, verdict="error", detail=f"{type(e).__name__}: {e}", source=pin)
                continue
            r = R(vc.name, backend=backend, solver_s=round(ss, 3), source=pin)
            if res == "unsat":
                r.verdict = "discharged"
                r.detail = ("lemma; " if vc.kind == "lemma" else "") + f"line {src.line + vc.line - 1}" + (f"; {detail}" if detail else "")
            else:
                decided = False
                if res == "sat" and model is not None:
                    try:
                        vals = dict(model)
                        inp = concretise(inputs, vals)
                        f = native_contract(C, src, inp)
                        if f:
                            r.verdict, r.witness, r.replay_confirmed = "refuted", wit(inp), True
                            r.detail = f"solver model replayed on the real function: clause(s) {f} fail"
                            decided = True
                        else:
                            detail = f"z3 model {vals} does not fail on the real function (VC over havoced/ghost state); " + detail
                    except Exception as e:
                        detail = f"model replay failed: {type(e).__name__}: {e}; " + detail
                if not decided:
                    cs = concrete_search()
                    basename = vc.name.split("#")[0]
                    clause = basename.split(".", 1)[1] if basename.startswith("ret") and "." in basename else None
                    hit = None
                    if basename.startswith("loop") and ".hint" in basename:
                        basename = basename.split(".")[0] + ".preserve"
                    if clause is not None and clause.startswith("hint") and cs["native"]:
                        k = next(iter(cs["native"]))
                        hit = (cs["native"][k], f"lemma for the postcondition cannot be established and clause '{k}' fails on the real function")
                    elif clause is not None and clause in cs["native"]:
                        hit = (cs["native"][clause], f"clause '{clause}' fails on the real function")
                    elif clause is not None and clause.startswith("not_") and any(k.startswith("no_raise") or k.startswith("raises") for k in cs["native"]):
                        k = next(k for k in cs["native"] if k.startswith("no_raise") or k.startswith("raises"))
                        hit = (cs["native"][k], f"exception behaviour '{k}' differs from the contract on the real function")
                    elif basename in cs["monitor"] and cs["monitor"][basename][1]:
                        hit = (cs["monitor"][basename][0], f"{basename} fails on a reachable state and the real function violates its contract on this input")
                    elif basename in cs["monitor"]:
                        detail = f"sidecar fault? {basename} fails on the reachable state of input {wit(cs['monitor'][basename][0])} although the real function meets its contract there; " + detail
                    elif cs["any"] is not None and clause is None:
                        hit = (cs["any"][0], f"function-level contract clause '{cs['any'][1]}' fails on the real function (attributed by search)")
                    if hit is not None:
                        r.verdict, r.witness, r.replay_confirmed = "refuted", wit(hit[0]), True
                        r.backend = "native"
                        r.detail = f"{hit[1]}; found by exhaustive small-input search ({C.small_desc}) after solver said {res}: {detail}"
                    else:
                        r.verdict = "undecided"
                        r.detail = f"solver {res}; no failing input among {cs['n']} small inputs ({C.small_desc}); {detail}"[:600]
            r.wall_s = round(time.time() - r0, 3)
    # ---- differential check of the interpreter semantics against the real function
    if differential:
        t0 = time.time()
        n = 0
        bad = None
        err = None
        try:
            for inp in small_inputs(C, src, cfg):
                if time.time() - t0 > (15 if tier == "quick" else 90):
                    break
                a = NS(**inp)
                if C.requires is not None and not _truthy(C.requires(a)):
                    continue
                real = run_real(src, [inp[p] for p in src.params])
                mine, _ = interp(src, C, cfg, inp, root)
                n += 1
                okk = real[0] == mine[0] and (same(real[1], mine[1]) if real[0] == "return" else real[1] == mine[1])
                if not okk:
                    bad = (wit(inp), real, mine)
                    break
        except Outside as e:
            err = f"outside E1: {e}"
        except Exception as e:
            err = f"{type(e).__name__}: {e}"
        if err is not None:
            R("__crosscheck__", kind="crosscheck", backend="native", verdict="undecided" if err.startswith("outside") else "error", detail=err, wall_s=round(time.time() - t0, 3))
        elif bad is not None:
            R("__crosscheck__", kind="crosscheck", backend="native", verdict="error", detail=f"AST interpreter disagrees with the real function on {bad[0]}: real {bad[1]} vs interpreter {bad[2]}", wall_s=round(time.time() - t0, 3))
        else:
            R("__crosscheck__", kind="crosscheck", backend="native", verdict="discharged" if n else "error", paths=n, detail=f"interpreter == real function on {n} inputs ({C.small_desc})", wall_s=round(time.time() - t0, 3))
    if ex is not None and results:
        results[0].detail += " | extraction drops: " + "; ".join(ex.notes)
    return results
