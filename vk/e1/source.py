"""Source access for E1: the function under contract is read from the working tree on every run.

`load(key)` with key = "kaira/models/fec/algebra.py:BinaryPolynomial.__mod__" imports the module from the repository
root given by the environment variable KAIRA_REPO (default /repo), finds the real function object, obtains its text with
inspect.getsource and parses it with ast.  Nothing here contains a copy of kaira code.
"""
from __future__ import annotations

import ast
import hashlib
import importlib
import importlib.util
import inspect
import os
import sys
import textwrap

_MODCACHE = {}


def repo_root():
    return os.path.abspath(os.environ.get("KAIRA_REPO", "/repo"))


def load_module(relpath, root=None):
    """import the module at <root>/<relpath>.  For the default root the installed package module is used (it *is* that
    file); for any other root (self-test scratch copies) the file is loaded stand-alone under a private name."""
    root = os.path.abspath(root or repo_root())
    path = os.path.join(root, relpath)
    key = path
    if key in _MODCACHE:
        return _MODCACHE[key]
    modname = relpath[:-3].replace("/", ".")
    mod = None
    try:
        cand = importlib.import_module(modname)
        if os.path.abspath(getattr(cand, "__file__", "")) == path:
            mod = cand
    except Exception:
        mod = None
    if mod is None:
        name = "_e1_scratch_" + hashlib.sha256(path.encode()).hexdigest()[:12]
        spec = importlib.util.spec_from_file_location(name, path)
        mod = importlib.util.module_from_spec(spec)
        sys.modules[name] = mod
        spec.loader.exec_module(mod)
    _MODCACHE[key] = mod
    return mod


class FnSrc:
    """the real function, its ast, and what the extraction dropped"""

    def __init__(self, key, root=None):
        self.key = key
        relpath, qual = key.split(":", 1)
        self.relpath, self.qualname = relpath, qual
        self.module = load_module(relpath, root)
        obj = self.module
        owner = None
        for part in qual.split("."):
            owner = obj
            obj = inspect.getattr_static(obj, part) if inspect.isclass(obj) else getattr(obj, part)
        self.cls = owner if inspect.isclass(owner) else None
        self.clsname = self.cls.__name__ if self.cls else None
        self.is_property = isinstance(obj, property)
        if self.is_property:
            obj = obj.fget
        obj = getattr(obj, "__wrapped__", obj)
        self.pyobj = obj
        text, self.line = inspect.getsourcelines(obj)
        self.text = "".join(text)
        self.sha256 = hashlib.sha256(self.text.encode()).hexdigest()[:16]
        tree = ast.parse(textwrap.dedent(self.text))
        self.fn = tree.body[0]
        assert isinstance(self.fn, (ast.FunctionDef,)), "not a function definition"
        self.name = self.fn.name
        self.params = [a.arg for a in self.fn.args.args]
        self.drops = []
        self._normalise()

    def _normalise(self):
        fn = self.fn
        if fn.body and isinstance(fn.body[0], ast.Expr) and isinstance(getattr(fn.body[0], "value", None), ast.Constant) and isinstance(fn.body[0].value.value, str):
            fn.body = fn.body[1:]
            self.drops.append("docstring")
        if any(a.annotation is not None for a in fn.args.args) or fn.returns is not None:
            self.drops.append("type annotations (parameter types come from the sidecar contract)")
        for d in fn.decorator_list:
            self.drops.append("decorator @" + ast.unparse(d) + " (assumed transparent: property access / memoisation of a pure function)")
        if fn.args.vararg or fn.args.kwarg or fn.args.kwonlyargs:
            raise Outside("*args/**kwargs/keyword-only parameters")
        self.defaults = {}
        ds = fn.args.defaults
        for a, d in zip(fn.args.args[len(fn.args.args) - len(ds):], ds):
            self.defaults[a.arg] = d

    def pin(self):
        return {"file": self.relpath, "qualname": self.qualname, "line": self.line, "sha256": self.sha256}


class Outside(Exception):
    """construct outside the E1 subset"""


def assigned_names(nodes):
    out = set()
    for n in nodes:
        for x in ast.walk(n):
            if isinstance(x, ast.Name) and isinstance(x.ctx, ast.Store):
                out.add(x.id)
    return out


def all_names(fn):
    out = set(a.arg for a in fn.args.args)
    out |= assigned_names(fn.body)
    return out


def loops_in(fn):
    """loops in source order (pre-order) -> ordinal"""
    out = []
    for x in ast.walk(fn):
        if isinstance(x, (ast.While, ast.For)):
            out.append(x)
    out.sort(key=lambda n: (n.lineno, n.col_offset))
    return out


def returns_in(fn):
    out = [x for x in ast.walk(fn) if isinstance(x, ast.Return)]
    out.sort(key=lambda n: (n.lineno, n.col_offset))
    return out
