"""Axiomatised theory GF2POLY (+ the quotient-ring layer GF2QUOT) used by engine E1.

Non-negative Python ints are read as bitmasks = polynomials over GF(2).  The theory symbols are *polymorphic*:
  * called with z3 terms they build applications of uninterpreted functions (the solver only knows the axioms below);
  * called with Python ints they compute the value with an implementation independent of /repo (vk.ground, int ops);
  * called with numpy int64 arrays they compute elementwise (used for the exhaustive axiom instance tests).
Each axiom is written ONCE as a Python lambda over these polymorphic symbols, so the formula handed to z3 and the
formula instance-tested on all small bitmasks are the same object.

Exact (non-axiomatised) encodings used by vcgen, for the record:
  x & 1  -> x mod 2        x >> c (c literal) -> x div 2^c        x << c (c literal) -> x * 2^c
  x.bit_length() -> deg(x) + 1   (deg is the theory symbol: deg 0 = -1, deg x = index of the top set bit)
Theory symbols: x ^ y -> xor(x,y);  x << e (e symbolic) -> shl(x,e);  x | y -> bor(x,y);  pmul/pmod/fmul/fpow/mindeg only
appear in contracts (specification functions).
"""
from __future__ import annotations

import numpy as np
import z3

from .. import ground as G

I = z3.IntSort()
_F = {
    "xor": z3.Function("gf2_xor", I, I, I),
    "bor": z3.Function("gf2_bor", I, I, I),
    "pmul": z3.Function("gf2_pmul", I, I, I),
    "pmod": z3.Function("gf2_pmod", I, I, I),
    "shl": z3.Function("gf2_shl", I, I, I),
    "deg": z3.Function("gf2_deg", I, I),
    "mindeg": z3.Function("gf2_mindeg", I, I),
    "fmul": z3.Function("gf2_fmul", I, I, I, I),
    "fpow": z3.Function("gf2_fpow", I, I, I, I),
    "pyhash": z3.Function("gf2_pyhash", I, I),
}


def _kind(*xs):
    if any(isinstance(x, z3.ExprRef) for x in xs):
        return "z3"
    if any(isinstance(x, np.ndarray) for x in xs):
        return "np"
    return "py"


def _z(x):
    return x if isinstance(x, z3.ExprRef) else z3.IntVal(int(x))


# ---- numpy helpers (third implementation, validated against vk.ground in instance_tests) ----------
def _np(x):
    return np.asarray(x, dtype=np.int64)


def np_deg(a):
    a = _np(a).copy()
    d = np.full(a.shape, -1, dtype=np.int64)
    while True:
        nz = a > 0
        if not nz.any():
            return d
        d = d + nz
        a = a >> 1


def np_pmul(a, b):
    a, b = np.broadcast_arrays(_np(a), _np(b))
    a = a.copy()
    b = b.copy()
    r = np.zeros(a.shape, dtype=np.int64)
    for _ in range(24):
        r ^= np.where(b & 1 == 1, a, 0)
        a = a << 1
        b = b >> 1
    return r


def np_pmod(a, m):
    a, m = np.broadcast_arrays(_np(a), _np(m))
    a = a.copy()
    dm = np_deg(m)
    for _ in range(48):
        da = np_deg(a)
        go = (m > 0) & (a > 0) & (da >= dm)
        if not go.any():
            break
        a = np.where(go, a ^ (m << np.where(go, da - dm, 0)), a)
    return np.where(m > 0, a, 0)


# ---- polymorphic theory symbols ---------------------------------------------------------------
def xor(a, b):
    k = _kind(a, b)
    if k == "z3":
        return _F["xor"](_z(a), _z(b))
    return a ^ b


def bor(a, b):
    k = _kind(a, b)
    if k == "z3":
        return _F["bor"](_z(a), _z(b))
    return a | b


def shl(a, s):
    k = _kind(a, s)
    if k == "z3":
        return _F["shl"](_z(a), _z(s))
    if k == "np":
        s = _np(s)
        return np.where(s >= 0, _np(a) << np.where(s >= 0, s, 0), 0)
    return a << s if s >= 0 else 0  # total; the guard s >= 0 is a VC wherever the code shifts


def deg(a):
    k = _kind(a)
    if k == "z3":
        return _F["deg"](a)
    if k == "np":
        return np_deg(a)
    return a.bit_length() - 1 if a > 0 else -1


def mindeg(a):
    """index of the lowest set bit (arbitrary, here -1, for a <= 0)"""
    k = _kind(a)
    if k == "z3":
        return _F["mindeg"](a)
    if k == "np":
        a = _np(a)
        return np.where(a > 0, np_deg(a & -a), -1)
    return (a & -a).bit_length() - 1 if a > 0 else -1


def pmul(a, b):
    k = _kind(a, b)
    if k == "z3":
        return _F["pmul"](_z(a), _z(b))
    if k == "np":
        a, b = _np(a), _np(b)
        return np.where((a >= 0) & (b >= 0), np_pmul(np.maximum(a, 0), np.maximum(b, 0)), 0)
    return G.pmul(a, b) if a >= 0 and b >= 0 else 0


def pmod(a, m):
    k = _kind(a, m)
    if k == "z3":
        return _F["pmod"](_z(a), _z(m))
    if k == "np":
        a, m = _np(a), _np(m)
        return np.where((a >= 0) & (m > 0), np_pmod(np.maximum(a, 0), np.maximum(m, 0)), 0)
    return G.pmod(a, m) if a >= 0 and m > 0 else 0


def fmul(M, a, b):
    """product in GF(2)[x]/(M) of reduced representatives"""
    k = _kind(M, a, b)
    if k == "z3":
        return _F["fmul"](_z(M), _z(a), _z(b))
    return pmod(pmul(a, b), M)


def fpow(M, a, n):
    k = _kind(M, a, n)
    if k == "z3":
        return _F["fpow"](_z(M), _z(a), _z(n))
    if k == "np":
        M, a, n = np.broadcast_arrays(_np(M), _np(a), _np(n))
        r = pmod(np.ones(M.shape, dtype=np.int64), M)
        for i in range(int(n.max()) if n.size else 0):
            r = np.where(n > i, fmul(M, r, a), r)
        return r
    r = pmod(1, M)
    for _ in range(max(n, 0)):
        r = fmul(M, r, a)
    return r


def pyhash(a):
    if _kind(a) == "z3":
        return _F["pyhash"](a)
    return hash(a)


def popcount_is_one(d):
    """BV helper: exactly one bit set"""
    return z3.And(d != 0, d & (d - 1) == 0)


# ---- polymorphic connectives --------------------------------------------------------------------
def AND(*xs):
    k = _kind(*xs)
    if k == "z3":
        return z3.And(*[x if isinstance(x, z3.ExprRef) else z3.BoolVal(bool(x)) for x in xs])
    if k == "np":
        r = np.asarray(xs[0], dtype=bool)
        for x in xs[1:]:
            r = r & np.asarray(x, dtype=bool)
        return r
    return all(xs)


def OR(*xs):
    k = _kind(*xs)
    if k == "z3":
        return z3.Or(*[x if isinstance(x, z3.ExprRef) else z3.BoolVal(bool(x)) for x in xs])
    if k == "np":
        r = np.asarray(xs[0], dtype=bool)
        for x in xs[1:]:
            r = r | np.asarray(x, dtype=bool)
        return r
    return any(xs)


def NOT(x):
    k = _kind(x)
    if k == "z3":
        return z3.Not(x)
    if k == "np":
        return ~np.asarray(x, dtype=bool)
    return not x


def IMP(p, q):
    return OR(NOT(p), q)


def IF(c, a, b):
    k = _kind(c, a, b)
    if k == "z3":
        if not isinstance(c, z3.ExprRef):
            return a if c else b
        return z3.If(c, _z(a) if not isinstance(a, z3.ExprRef) else a, _z(b) if not isinstance(b, z3.ExprRef) else b)
    if k == "np":
        return np.where(c, a, b)
    return a if c else b


def DIV2(a):
    if _kind(a) == "z3":
        return a / 2
    return a >> 1


def ODD(a):
    return a % 2 == 1


def red(M, a):
    """a is a reduced representative modulo M"""
    return AND(a >= 0, deg(a) < deg(M))


# ---- axioms --------------------------------------------------------------------------------------
# (name, group, variable kinds, formula).  kinds: 'p' polynomial/bitmask >= 0 tested on 0..2^8-1 (2^5 when 4 vars),
# 'i' any int tested on -4..2^6, 's' shift tested on -2..9, 'n' exponent tested on -1..9, 'M' modulus bitmask 0..31
AXIOMS = [
    ("xor.comm", "xor", "ii", lambda a, b: xor(a, b) == xor(b, a)),
    ("xor.assoc", "xor", "iii", lambda a, b, c: xor(xor(a, b), c) == xor(a, xor(b, c))),
    ("xor.nilpotent", "xor", "i", lambda a: xor(a, a) == 0),
    ("xor.unit", "xor", "i", lambda a: xor(a, 0) == a),
    ("xor.cancel", "xor", "ii", lambda a, b: IMP(xor(a, b) == 0, a == b)),
    ("xor.nonneg", "xor", "ii", lambda a, b: IMP(AND(a >= 0, b >= 0), xor(a, b) >= 0)),
    ("pmul.comm", "pmul", "pp", lambda a, b: IMP(AND(a >= 0, b >= 0), pmul(a, b) == pmul(b, a))),
    ("pmul.assoc", "pmul", "ppp", lambda a, b, c: IMP(AND(a >= 0, b >= 0, c >= 0), pmul(pmul(a, b), c) == pmul(a, pmul(b, c)))),
    ("pmul.distrib", "pmul", "ppp", lambda a, b, c: IMP(AND(a >= 0, b >= 0, c >= 0), pmul(xor(a, b), c) == xor(pmul(a, c), pmul(b, c)))),
    ("pmul.zero", "pmul", "p", lambda a: IMP(a >= 0, pmul(a, 0) == 0)),
    ("pmul.one", "pmul", "p", lambda a: IMP(a >= 0, pmul(a, 1) == a)),
    ("pmul.nonneg", "pmul", "pp", lambda a, b: IMP(AND(a >= 0, b >= 0), pmul(a, b) >= 0)),
    ("pmul.step", "pmulstep", "pp", lambda a, b: IMP(AND(a >= 0, b > 0), pmul(a, b) == xor(IF(ODD(b), a, 0), pmul(2 * a, DIV2(b))))),
    ("pmul.monomial", "shl", "sp", lambda s, c: IMP(AND(s >= 0, c >= 0), pmul(shl(1, s), c) == shl(c, s))),
    ("pmul.deg", "deg", "pp", lambda a, b: IMP(AND(a > 0, b > 0), AND(deg(pmul(a, b)) == deg(a) + deg(b), pmul(a, b) > 0))),
    ("shl.nonneg", "shl", "ps", lambda a, s: IMP(AND(a >= 0, s >= 0), shl(a, s) >= 0)),
    ("shl.pos", "shl", "ps", lambda a, s: IMP(AND(a > 0, s >= 0), shl(a, s) > 0)),
    ("shl.zero", "shl", "i", lambda a: shl(a, 0) == a),
    ("shl.deg", "shl", "ps", lambda a, s: IMP(AND(a > 0, s >= 0), deg(shl(a, s)) == deg(a) + s)),
    ("deg.zero", "deg", "i", lambda a: IMP(a == 0, deg(a) == -1)),
    ("deg.pos", "deg", "i", lambda a: IMP(a > 0, deg(a) >= 0)),
    ("deg.cancel", "deg", "pp", lambda a, b: IMP(AND(a > 0, b > 0, deg(a) == deg(b)), deg(xor(a, b)) < deg(a))),
    ("deg.dominate", "deg", "pp", lambda a, b: IMP(AND(a > 0, b >= 0, deg(b) < deg(a)), deg(xor(a, b)) == deg(a))),
    ("deg.xor_le", "deg", "pp", lambda a, b: IMP(AND(a >= 0, b >= 0), deg(xor(a, b)) <= IF(deg(a) >= deg(b), deg(a), deg(b)))),
    ("bor.disjoint", "bor", "ps", lambda a, s: IMP(AND(a >= 0, s >= 0, OR(a == 0, mindeg(a) > s)), bor(a, shl(1, s)) == xor(a, shl(1, s)))),
    ("mindeg.setlow", "bor", "ps", lambda a, s: IMP(AND(a >= 0, s >= 0, OR(a == 0, mindeg(a) > s)), mindeg(xor(a, shl(1, s))) == s)),
    ("pmod.unique", "pmod", "ppp", lambda q, m, r: IMP(AND(q >= 0, m > 0, r >= 0, deg(r) < deg(m)), pmod(xor(pmul(q, m), r), m) == r)),
    ("pmod.small", "pmod", "pp", lambda a, m: IMP(AND(a >= 0, m > 0, deg(a) < deg(m)), pmod(a, m) == a)),
    ("pmod.reduced", "pmod", "pp", lambda a, m: IMP(AND(a >= 0, m > 0), AND(pmod(a, m) >= 0, deg(pmod(a, m)) < deg(m)))),
    # quotient ring GF(2)[x]/(M), deg M >= 1, on reduced representatives (lemma L-quot: a quotient of a commutative ring is one)
    ("fmul.def", "fmul", "Mpp", lambda M, a, b: IMP(AND(M > 1, a >= 0, b >= 0), fmul(M, a, b) == pmod(pmul(a, b), M))),
    ("fmul.comm", "fmul", "Mpp", lambda M, a, b: IMP(AND(M > 1, red(M, a), red(M, b)), fmul(M, a, b) == fmul(M, b, a))),
    ("fmul.assoc", "fmul", "Mppp", lambda M, a, b, c: IMP(AND(M > 1, red(M, a), red(M, b), red(M, c)), fmul(M, fmul(M, a, b), c) == fmul(M, a, fmul(M, b, c)))),
    ("fmul.unit", "fmul", "Mp", lambda M, a: IMP(AND(M > 1, red(M, a)), fmul(M, a, 1) == a)),
    ("fmul.reduced", "fmul", "Mpp", lambda M, a, b: IMP(AND(M > 1, red(M, a), red(M, b)), red(M, fmul(M, a, b)))),
    ("fmul.distrib", "fmul", "Mppp", lambda M, a, b, c: IMP(AND(M > 1, red(M, a), red(M, b), red(M, c)), fmul(M, xor(a, b), c) == xor(fmul(M, a, c), fmul(M, b, c)))),
    ("fpow.zero", "fpow", "Mp", lambda M, a: IMP(AND(M > 1, red(M, a)), fpow(M, a, 0) == 1)),
    ("fpow.succ", "fpow", "Mpn", lambda M, a, n: IMP(AND(M > 1, red(M, a), n > 0), fpow(M, a, n) == fmul(M, fpow(M, a, n - 1), a))),
    ("fpow.sqmul", "fpow", "Mpn", lambda M, a, n: IMP(AND(M > 1, red(M, a), n > 0), fpow(M, a, n) == fmul(M, IF(ODD(n), a, 1), fpow(M, fmul(M, a, a), DIV2(n))))),
    ("fpow.one", "fpow", "Mn", lambda M, n: IMP(AND(M > 1, n >= 0), fpow(M, 1, n) == 1)),
    # schemas: not given to the solver as they stand (non-linear / bad triggers); instantiated with concrete parameters
    ("schema.deg_bound", "schema", "ps", lambda a, k: IMP(AND(a >= 0, k >= 0), (deg(a) < k) == (a < shl(1, k)))),
    ("schema.fpow_add", "schema", "Mpnn", lambda M, a, n, k: IMP(AND(M > 1, red(M, a), n >= 0, k >= 0), fpow(M, a, n + k) == fmul(M, fpow(M, a, n), fpow(M, a, k)))),
    ("fpow.reduced", "fpow", "Mpn", lambda M, a, n: IMP(AND(M > 1, red(M, a), n >= 0), red(M, fpow(M, a, n)))),
]

GROUPS = {
    "core": ["xor", "pmul", "deg", "shl"],
    "mul": ["xor", "pmul", "pmulstep"],
    "div": ["xor", "pmul", "deg", "shl", "bor"],
    "field": ["xor", "pmul", "deg", "pmod", "fmul", "fpow"],
    "all": ["xor", "pmul", "pmulstep", "deg", "shl", "bor", "pmod", "fmul", "fpow"],
}


def z3_axioms(groups=("xor", "pmul", "deg", "shl"), exclude=()):
    gs = set()
    for g in groups:
        gs.update(GROUPS.get(g, [g]))
    out = []
    for name, grp, kinds, f in AXIOMS:
        if grp not in gs or name in exclude or grp == "schema":
            continue
        vs = [z3.Int(f"{name}!{i}") for i in range(len(kinds))]
        body = f(*vs)
        out.append(z3.ForAll(vs, body) if vs else body)
    return out


def schema_instance(name, fixed):
    """instance of a schema axiom: positions in `fixed` (index -> concrete int) are substituted, the rest stay quantified"""
    ent = next(e for e in AXIOMS if e[0] == name)
    kinds, f = ent[2], ent[3]
    vs, args = [], []
    for i in range(len(kinds)):
        if i in fixed:
            args.append(int(fixed[i]))
        else:
            v = z3.Int(f"{name}!{i}")
            vs.append(v)
            args.append(v)
    body = f(*args)
    return z3.ForAll(vs, body) if vs else body


_DOM = {"p": (0, 256), "i": (-4, 64), "s": (-2, 10), "n": (-1, 10), "M": (0, 32)}
_DOM4 = {"p": (0, 32), "i": (-4, 32), "s": (-2, 8), "n": (-1, 8), "M": (0, 32)}


def instance_tests(group=None):
    """Evaluate every axiom on its exhaustive small domain.  Returns list of (name, ok, n_instances, detail)."""
    # validate the numpy implementation against vk.ground first (all pairs < 2^8)
    a = np.arange(256, dtype=np.int64)
    A, B = np.meshgrid(a, a, indexing="ij")
    tab = np_pmul(A, B)
    tabm = np_pmod(A, B)
    ok = all(int(tab[i, j]) == G.pmul(i, j) for i in range(256) for j in range(0, 256, 1))
    okm = all(int(tabm[i, j]) == G.pmod(i, j) for i in range(256) for j in range(1, 256))
    okd = all(int(np_deg(a)[i]) == G.pdeg(i) for i in range(256))
    out = [("numpy-kernel == vk.ground (pmul, pmod, deg; all pairs < 2^8)", ok and okm and okd, 3 * 65536, "")]
    for name, grp, kinds, f in AXIOMS:
        if group is not None and grp != group:
            continue
        dom = _DOM4 if len(kinds) >= 4 else _DOM
        if not kinds:
            r = bool(f())
            out.append((name, r, 1, ""))
            continue
        axes = [np.arange(*dom[k], dtype=np.int64) for k in kinds]
        n = 0
        bad = None
        first = axes[0]
        rest = np.meshgrid(*axes[1:], indexing="ij") if len(axes) > 1 else []
        for v0 in first:
            args = [np.full(rest[0].shape, v0, dtype=np.int64)] + list(rest) if rest else [np.array([v0], dtype=np.int64)]
            r = np.asarray(f(*args), dtype=bool)
            n += r.size
            if not r.all():
                idx = np.argwhere(~r)[0]
                bad = [int(x[tuple(idx)]) for x in args]
                break
        out.append((name, bad is None, n, "" if bad is None else f"fails at {dict(zip(kinds, bad))} = {bad}"))
    return out


def consistency_probe(timeout_ms=5000):
    """ask z3 to derive false from all axioms alone; anything but 'unsat' is acceptable"""
    s = z3.Solver()
    s.set("timeout", timeout_ms)
    s.add(z3_axioms(("all",)))
    r = s.check()
    return str(r)
