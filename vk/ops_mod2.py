"""Op-table additions for the demodulator / thresholder contracts (C06, C15).

1. Basic indexing of a *concrete* SymTensor returns a numpy view of the payload (as torch returns a view), so that chained
   writes `llrs[b][s][k] = v` (kaira/modulations/psk.py:PSKDemodulator.forward) reach the parent tensor.  In vk/ops.py the
   all-concrete case of `__getitem__` is executed on the lowered real tensor and lifted back, which yields a copy; the write
   then lands in the copy and is lost (caught by the differential cross-check).  Only the aliasing case is taken over here:
   anything else (advanced / tensor / mask indices, symbolic payloads) is delegated unchanged to the handler of vk/ops.py.
2. torch.sigmoid / torch.tanh etc. are already in vk/ops.py; nothing else is needed by C06/C15.
"""
from __future__ import annotations

import numpy as np
import torch

from . import sym as S
from .mode import HANDLERS, Res, _lower_cached, reg
from .tensor import SymTensor, lift

T = torch.Tensor

_BASE_GETITEM = HANDLERS[T.__getitem__][0]


def _is_basic(i):
    items = i if isinstance(i, tuple) else (i,)
    for j in items:
        if isinstance(j, bool) or j is None or j is Ellipsis:
            if isinstance(j, bool):
                return False
            continue
        if isinstance(j, (int, slice)):
            if isinstance(j, slice) and any(isinstance(v, (S.Sym, torch.Tensor)) for v in (j.start, j.stop, j.step)):
                return False
            continue
        return False
    return True


@reg(T.__getitem__, nometa="always")
def _getitem_view(x, i):
    if _has_symbolic(i):
        return _BASE_GETITEM(x, i)
    if isinstance(x, SymTensor) and x.is_concrete():
        if _is_basic(i):
            r = x.re[i]
            if isinstance(r, np.ndarray) and r.dtype == object:
                im = None if x.im is None else x.im[i]
                return Res(r, im, x.dtype)  # numpy view: aliases the parent payload like a torch view does
        # all-concrete, not a plain view: same as the default dispatch (real kernel on the lowered tensor)
        li = _lower_index(i)
        with torch._C.DisableTorchFunctionSubclass():
            out = _lower_cached(x)[li]
        return lift(out)
    if not isinstance(x, SymTensor):
        # real tensor indexed by a concrete SymTensor
        li = _lower_index(i)
        with torch._C.DisableTorchFunctionSubclass():
            out = x[li]
        return lift(out)
    return _BASE_GETITEM(x, i)


def _has_symbolic(i):
    items = i if isinstance(i, tuple) else (i,)
    for j in items:
        if isinstance(j, S.Sym):
            return True
        if isinstance(j, SymTensor) and not j.is_concrete():
            return True
        if isinstance(j, (list, tuple)) and _has_symbolic(tuple(j)):
            return True
    return False


def _lower_index(i):
    if isinstance(i, tuple):
        return tuple(_lower_index(j) for j in i)
    if isinstance(i, list):
        return [_lower_index(j) for j in i]
    if isinstance(i, SymTensor):
        return _lower_cached(i)
    return i


def ensure_view_getitem():
    """Other op-table files imported after this one may wrap `__getitem__` again with a plain `nometa=True` flag, which sends
    all-concrete subscripts back to the copy-making default dispatch.  Contracts that rely on view semantics (C06/C15) call this
    at import time: the current handler chain is kept, only the 'always' flag is restored."""
    h, flag = HANDLERS[T.__getitem__]
    if flag != "always":
        HANDLERS[T.__getitem__] = (h, "always")
