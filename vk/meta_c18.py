"""Evidence metadata for property C18 (merged into vk.meta.PROPS by the integrator)."""

META = {
    "level": "proof",
    "explanation": (
        "Three layers. (1) E1 proof: VCs generated from the working-tree source of each method (inspect.getsource + ast on every run) against sidecar "
        "contracts, discharged by z3 over unbounded integers with the axiomatised theory GF2POLY: BinaryPolynomial.degree, __mul__, __mod__, div, gcd, lcm, "
        "__eq__, __hash__ for operands of any degree; per field m: FiniteBifield.__eq__/__call__/primitive_element, FiniteBifieldElement.__add__, __mul__, "
        "__pow__, inverse, trace, conjugates for all elements and all exponents. (2) ground: for every m in 1..16 the tabulated modulus has degree m and no divisor of degree "
        "<= m/2, x has multiplicative order exactly 2^m-1, a^(2^m-1)=1 for every non-zero residue. (3) bounded cross-checks (never counted as proved): all "
        "polynomial pairs below degree 8, all pairs/triples of field elements for small m, power/trace/conjugates/minimal polynomial of every element."
    ),
    "trusted_base": [
        "vk.e1 VC generator (vcgen.py): symbolic execution of the Python ast subset of DESIGN.md 3.2; its expression/statement semantics is cross-checked on every run against the real function on the contract's exhaustive small-input set (obligation */__crosscheck__)",
        "theory GF2POLY / GF2QUOT (vk/e1/theory.py): uninterpreted xor, bor, pmul, pmod, shl, deg, mindeg, fmul, fpow, pyhash with the axioms listed there (ring laws of GF(2)[x] on bitmasks, degree laws, disjoint-bit law, uniqueness of Euclidean remainders, quotient-ring laws of GF(2)[x]/(M), exponent laws); every axiom is evaluated on all bitmasks < 2^8 (2^5 for 4-variable axioms) with the independent kernel vk.ground on every run (obligation C18.theory_axioms) and z3 is asked to derive false from the axioms alone (must not be unsat)",
        "exact encodings: x & 1 -> x mod 2; x >> c -> x div 2^c and x << c -> x * 2^c for literal c; x % c -> ite(0 <= x < c, x, x mod c); x.bit_length() -> deg(x) + 1; x ^ y -> xor; x << e (symbolic e) -> shl with the obligation e >= 0; x | y -> bor; hash(int) -> uninterpreted pyhash",
        "vk.ground bitmask kernel (pmul, pdivmod, pgcd) - independent of /repo; used for axiom instances, ground obligations, native witnesses of existential ghosts and the bounded layer",
        "lemma L-euclid: GF(2)[x] is a Euclidean domain (connects the proved clauses a = q.b + r, deg r < deg b; gcd | a, gcd | b, gcd = s.a + t.b; lcm.gcd = a.b to 'Euclidean ring')",
        "lemma L-field: GF(2)[x]/(p) is a field iff p is irreducible; lemma L-order: non-zero elements of a field with 2^m elements satisfy a^(2^m-1) = 1 (its instance for each tabulated modulus is additionally checked exhaustively by C18.field_ground/fermat_all_elements and is the only place the contract of inverse uses it)",
        "z3 5.1 (unsat answers); cvc5 1.0.3 only as a second opinion on z3 'unknown'",
    ],
    "assumptions": [
        "Python ints are mathematical integers; BinaryPolynomial.value and FiniteBifieldElement.value are non-negative ints (precondition of every contract: the constructors do not enforce it); field elements are reduced (0 <= value < 2^m) and both operands belong to the same field object",
        "what the extraction drops: docstrings; type annotations (parameter types come from the sidecar `types`); decorators (@property recorded as transparent); isinstance/hasattr guards are decided from the declared types, so `return NotImplemented` / `raise TypeError` branches become preconditions; f-string and literal exception messages; stores into memo tables",
        "FiniteBifield._element_cache is a transparent memo table: a hit returns what FiniteBifieldElement(field, value) would build (cache invariant assumed, membership treated as non-deterministic); FiniteBifield._instances likewise (fields are built by the real constructor, concretely, per m)",
        "modular verification: a call to a method that has a contract is replaced by the contract (requires becomes an obligation of the caller, callee exceptions must be excluded by the caller, ensures is assumed with fresh existential ghosts); constructors are inlined from their real __init__ source",
        "boolean operators evaluate all operands (operands are pure in the verified functions); exceptions raised by a callee are not propagated symbolically - the caller must prove the callee's raise-condition false",
        "field-element contracts are proved per field (m concrete, modulus taken from the real constructor), for all element values and all exponents; quick tier m = 1..8, thorough m = 1..16",
        "per-configuration hypotheses added to the solver: deg_bound(m) (deg a < m <=> a < 2^m, schema instance, instance-tested), deg(modulus) = m (ground evaluation), for `inverse` the L-order instance above (only when the exhaustive check on this run confirms it)",
    ],
    "out_of_reach": [
        "FiniteBifieldElement.minimal_polynomial: brute-force search over 2^d masks with nested data-dependent loops and a hasattr cache - outside E1; 'irreducible polynomial of least degree vanishing at the element' is checked only by the bounded layer (every element for m <= 6 quick / m <= 8 thorough: equality with the independently expanded product over the conjugacy class, irreducibility by trial division, vanishing, exhaustive absence of a lower-degree annihilator for m <= 6)",
        "BinaryPolynomial.evaluate / derivative / to_coefficient_list: no E1 contract yet (unbounded list results and recursively specified sums need the sequence fragment and further theory symbols); covered by the bounded layer only (all polynomials below degree 8)",
        "FiniteBifieldElement.trace: E1 proves result = parity of xor_{i<m} a^(2^i); that this sum itself lies in {0,1} (the trace maps into GF(2)) is field theory and is only cross-checked in the bounded layer",
        "the field axioms for all elements follow from L-field + the ground irreducibility obligations, not from an SMT proof over all triples; all pairs (m <= 5 quick, m <= 8 thorough) and all triples (m <= 4 quick, m <= 5 thorough) are cross-checked in the bounded layer",
        "FiniteBifield._init_log_exp_tables computes its tables with integer arithmetic mod 2^m; no operation reads them (dead code, not verified)",
    ],
}
