"""Fold-loop verification conditions (a small E1 instance for pipeline loops, DESIGN.md 7/C17, C08 composite).

Target shape (everything else => "outside the supported subset" => undecided, never a verdict):

    def forward(self, data, *args, **kwargs):
        acc = data
        for step in <self.attr | parameter>:
            acc = step(acc[, *args][, **kwargs])
        return acc

The real source is re-read with inspect+ast on every run.  Stages are UNINTERPRETED (z3 function `apply`), the number of
stages is an unbounded symbolic integer n >= 0, the stage list is a z3 array.  Contract: returns fold(n) where
fold(0) = data, fold(i+1) = apply(steps[i], fold(i), EXT) and each iteration performs exactly one stage call (trace).
VCs: invariant initiation, preservation (for an arbitrary iteration i), postcondition at loop exit.
What the extraction drops: docstrings, type annotations, decorators.
"""
from __future__ import annotations

import ast
import inspect
import textwrap
import time

import z3


class Outside(Exception):
    pass


def _get_ast(fn):
    src = textwrap.dedent(inspect.getsource(fn))
    tree = ast.parse(src)
    fdef = tree.body[0]
    if not isinstance(fdef, ast.FunctionDef):
        raise Outside("not a function definition")
    return fdef, src


def fold_vcs(fn, data_param, seq, forwards_extras, solver_timeout_ms=10000):
    """Generate and discharge the VCs.  seq = ("attr", name) | ("param", name).
    Returns list of (vc_name, verdict, detail) with verdict in discharged/refuted/undecided."""
    t0 = time.time()
    try:
        fdef, src = _get_ast(fn)
        body = [s for s in fdef.body if not (isinstance(s, ast.Expr) and isinstance(getattr(s, "value", None), ast.Constant) and isinstance(s.value.value, str))]
        params = [a.arg for a in fdef.args.args]
        if data_param not in params:
            raise Outside(f"parameter {data_param} not found")
        has_var = fdef.args.vararg is not None
        has_kw = fdef.args.kwarg is not None
        Val, Stage, Ext = z3.DeclareSort("Val"), z3.DeclareSort("Stage"), z3.DeclareSort("Ext")
        apply_ = z3.Function("apply", Stage, Val, Ext, Val)
        steps = z3.Array("steps", z3.IntSort(), Stage)
        n, i = z3.Int("n"), z3.Int("i")
        x = z3.Const("x", Val)
        fold = z3.Function("fold", z3.IntSort(), Val)
        EXT = {"both": z3.Const("EXT_args_kwargs", Ext), "none": z3.Const("EXT_none", Ext), "args": z3.Const("EXT_args_only", Ext), "kwargs": z3.Const("EXT_kwargs_only", Ext)}
        distinct = z3.Distinct(*EXT.values())
        want_ext = EXT["both"] if forwards_extras else EXT["none"]

        def is_seq(e):
            if seq[0] == "attr":
                return isinstance(e, ast.Attribute) and isinstance(e.value, ast.Name) and e.value.id == "self" and e.attr == seq[1]
            return isinstance(e, ast.Name) and e.id == seq[1]

        def ev(e, env, calls):
            if isinstance(e, ast.Name):
                if e.id not in env:
                    raise Outside(f"unknown name {e.id}")
                return env[e.id]
            if isinstance(e, ast.Call) and isinstance(e.func, ast.Name) and e.func.id in env and env[e.func.id].sort() == Stage:
                pos = [a for a in e.args if not isinstance(a, ast.Starred)]
                star = [a for a in e.args if isinstance(a, ast.Starred)]
                kws = e.keywords
                if len(pos) != 1:
                    raise Outside("stage call with other than one positional argument")
                fa = len(star) == 1 and isinstance(star[0].value, ast.Name) and has_var and star[0].value.id == fdef.args.vararg.arg
                fk = len(kws) == 1 and kws[0].arg is None and isinstance(kws[0].value, ast.Name) and has_kw and kws[0].value.id == fdef.args.kwarg.arg
                if (star and not fa) or (kws and not fk):
                    raise Outside("stage call with arguments other than the forwarded *args/**kwargs")
                ext = EXT["both"] if (fa and fk) else EXT["args"] if fa else EXT["kwargs"] if fk else EXT["none"]
                st = env[e.func.id]
                calls.append(st)
                return apply_(st, ev(pos[0], env, calls), ext)
            raise Outside(f"expression {ast.dump(e)[:80]}")

        def run(stmts, env, calls):
            for s in stmts:
                if isinstance(s, ast.Assign) and len(s.targets) == 1 and isinstance(s.targets[0], ast.Name):
                    env[s.targets[0].id] = ev(s.value, env, calls)
                elif isinstance(s, ast.AnnAssign) and isinstance(s.target, ast.Name) and s.value is not None:
                    env[s.target.id] = ev(s.value, env, calls)
                else:
                    raise Outside(f"statement {type(s).__name__} at line {s.lineno}")
            return env

        # split: prefix statements, the loop, the return
        loops = [k for k, s in enumerate(body) if isinstance(s, ast.For)]
        if len(loops) != 1 or not isinstance(body[-1], ast.Return) or loops[0] != len(body) - 2:
            raise Outside("function is not 'prefix; one for-loop; return'")
        loop = body[loops[0]]
        if loop.orelse or not isinstance(loop.target, ast.Name) or not is_seq(loop.iter):
            raise Outside("loop does not iterate the declared stage sequence directly (order/subsequence changes are outside the subset)")
        ret = body[-1].value
        if not isinstance(ret, ast.Name):
            raise Outside("return of a non-name")
        acc = ret.id
        results = []

        def check(name, hyps, goal):
            s = z3.Solver()
            s.set("timeout", solver_timeout_ms)
            s.add(distinct, n >= 0)
            for h in hyps:
                s.add(h)
            s.add(z3.Not(goal))
            r = s.check()
            if r == z3.unsat:
                results.append((name, "discharged", "z3 unsat"))
            elif r == z3.sat:
                results.append((name, "refuted", f"z3 model: {str(s.model())[:300]}"))
            else:
                results.append((name, "undecided", f"z3 {r}: {s.reason_unknown()}"))

        # initiation
        env0 = run(body[: loops[0]], {data_param: x}, [])
        if acc not in env0:
            raise Outside(f"accumulator {acc} not initialised before the loop")
        check("fold.init", [fold(0) == x], env0[acc] == fold(0))
        # preservation for an arbitrary iteration i
        env = {k: z3.FreshConst(Val, k) for k in env0}
        env[data_param] = x
        env[acc] = fold(i)
        env[loop.target.id] = steps[i]
        calls = []
        env1 = run(loop.body, dict(env), calls)
        inst = fold(i + 1) == apply_(steps[i], fold(i), want_ext)
        check("fold.preserve", [i >= 0, i < n, inst], env1[acc] == fold(i + 1))
        ok_trace = len(calls) == 1 and calls[0].eq(steps[i])
        results.append(("trace.one_call_per_stage_in_order", "discharged" if ok_trace else "refuted", f"{len(calls)} stage call(s) per iteration"))
        # postcondition
        envn = dict(env)
        envn[acc] = fold(n)
        check("fold.post", [], envn[ret.id] == fold(n))
        return results, round(time.time() - t0, 3), src
    except Outside as e:
        return [("fold", "undecided", f"outside E1 fold subset: {e}")], round(time.time() - t0, 3), ""
