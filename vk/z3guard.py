"""Hard wall-clock guard around every z3 Solver.check() of the process.

z3's `timeout` parameter is a soft limit: some tactics (nlsat on products of reals, for instance after an in-place edit of the
code under contract turned h.x into h.h.x) do not poll it and a check can run for hours.  A check that never returns is a
broken check, so every Solver.check is run with a watchdog thread that calls Context.interrupt() after HARD_S seconds; z3 then
returns `unknown` (reason "canceled"/"interrupted"), which every caller already treats as UNDECIDED - never as a verdict.
HARD_S is set per job by the runner (2.5 x the job's soft per-query budget, at least 90 s) together with DEADLINE, the end of the
job's total solver budget (1.5 x the per-query budget, at least 180 s, from the start of the job): a job whose queries all hang
ends as UNDECIDED after that time instead of after (number of queries) x HARD_S."""
import threading

import z3

import time

HARD_S = 900.0
DEADLINE = None  # absolute wall-clock end of the current job's solver budget (set by the runner); checks started after it get 1 s
_orig = z3.Solver.check


def _guarded(self, *a, **k):
    limit = HARD_S if DEADLINE is None else max(1.0, min(HARD_S, DEADLINE - time.time()))
    t = threading.Timer(limit, self.ctx.interrupt)
    t.daemon = True
    t.start()
    try:
        return _orig(self, *a, **k)
    finally:
        t.cancel()


def install():
    if z3.Solver.check is not _guarded:
        z3.Solver.check = _guarded


install()
