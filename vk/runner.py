"""Check driver: runs the obligations of one property in parallel, triages results, writes evidence and replay files.

Exit codes (DESIGN.md 6.1): 0 held / 1 violation / 2 undecided / 3 engine fault.
"""
from __future__ import annotations

import fnmatch
import hashlib
import importlib
import inspect
import json
import multiprocessing as mp
import os
import random
import sys
import time
import traceback

ROOT = os.path.dirname(os.path.dirname(os.path.abspath(__file__)))
REPO = os.environ.get("KAIRA_REPO", "/repo")


def _load(prop):
    from . import harness as H

    importlib.import_module(f"contracts.{prop.lower()}")
    return [s for s in H.REGISTRY.values() if s.prop == prop]


def source_pin(function):
    """file:qualname -> dict(file, qualname, line, sha256) of the source segment the obligation was generated from"""
    pins = []
    for f in function.split(";"):
        f = f.strip()
        if ":" not in f:
            continue
        path, qual = f.split(":", 1)
        try:
            modname = path[:-3].replace("/", ".")
            mod = importlib.import_module(modname)
            obj = mod
            for part in qual.split("."):
                obj = getattr(obj, part)
            obj = getattr(obj, "__wrapped__", obj)
            if isinstance(obj, property):
                obj = obj.fget
            src, line = inspect.getsourcelines(obj)
            pins.append({"file": path, "qualname": qual, "line": line, "sha256": hashlib.sha256("".join(src).encode()).hexdigest()[:16]})
        except Exception as e:  # pragma: no cover
            pins.append({"file": path, "qualname": qual, "error": f"{type(e).__name__}: {e}"})
    return pins


def _job(args):
    prop, spec_id, cfg, tier, seed = args
    import warnings

    warnings.filterwarnings("ignore")
    import torch

    torch.set_num_threads(1)
    from . import harness as H

    spec = H.REGISTRY[spec_id]
    t0 = time.time()
    trace = os.environ.get("VK_SLOW_TRACE")  # diagnostics: dump the Python stack of a job that runs longer than N seconds
    if trace:
        import faulthandler

        _tf = open(f"/tmp/vk_slow_{os.getpid()}.txt", "a")
        _tf.write(f"\n=== {spec_id} @ {cfg}\n")
        _tf.flush()
        faulthandler.dump_traceback_later(float(trace), repeat=True, file=_tf)
    try:
        res = run_spec(spec, cfg, tier, seed)
    except BaseException as e:
        res = [H.ObResult(prop=prop, ob=spec_id, config=str(cfg), function=spec.function, verdict="error", detail=f"{type(e).__name__}: {e}\n{traceback.format_exc(limit=10)}")]
    if trace:
        faulthandler.cancel_dump_traceback_later()
        _tf.close()
    out = []
    for r in res:
        r.engine = spec.engine if r.engine == "E2" else r.engine
        if r.kind == "proof" and spec.kind not in ("proof", "custom"):
            r.kind = spec.kind
        d = r.asdict()
        d["job_wall_s"] = round(time.time() - t0, 3)
        out.append(d)
    return out


def run_spec(spec, cfg, tier, seed):
    from . import harness as H
    from . import z3guard

    z3guard.HARD_S, z3guard.DEADLINE = 900.0 * (5 if tier == "thorough" else 1), None  # per-job values are set below for E2 jobs

    runner = getattr(spec, "runner", None)
    if spec.kind == "ground":
        return run_ground(spec, cfg)
    if spec.kind == "bounded":
        return run_bounded(spec, cfg, tier, seed)
    if spec.kind == "custom":
        return spec.body(spec, cfg, tier, seed)
    # wall-clock solver budgets are sized for a loaded machine (verdicts must not flip when all cores are busy): 3x the nominal
    # per-spec budget in the quick tier, 15x in the thorough tier; a fast query is unaffected by a generous budget
    tmo = spec.timeout_ms * (15 if tier == "thorough" else 3)
    z3guard.HARD_S = max(90.0, 2.5 * tmo / 1000.0)
    # total solver budget of the job: quick 1.5 x the per-query budget (at least 180 s); thorough jobs legitimately issue thousands of
    # queries (16-QAM links, 256-point constellations): 6 x the per-query budget, capped below the parent's hard limit per job
    z3guard.DEADLINE = time.time() + (max(180.0, 1.5 * tmo / 1000.0) if tier != "thorough" else min(9000.0, 6.0 * tmo / 1000.0))
    res = H.run_symbolic(spec, cfg, max_paths=spec.max_paths * (8 if tier == "thorough" else 1), solver_timeout_ms=tmo, crosscheck=spec.crosscheck * (4 if tier == "thorough" else 1), seed=seed)
    # fallback search: an obligation the engine could not decide, or a solver model that does not replay, is searched natively
    need = [r for r in res if r.verdict in ("undecided", "error") or (r.verdict == "refuted" and not r.replay_confirmed)]
    if need:
        found = native_search(spec, cfg, 200 if tier == "quick" else 2000, seed)
        if any(r.ob.endswith("__crosscheck__") and r.verdict == "error" for r in need):
            # the differential cross-check saw the real code behave differently from the exact-real symbolic run (float ties /
            # rounding): a clause that FAILS natively on a concrete input is a violation whatever the symbolic verdict was
            for r in res:
                key = r.ob.split("/", 1)[1] if "/" in r.ob else None
                if r.verdict == "discharged" and key in found:
                    r.verdict, r.witness, r.replay_confirmed = "refuted", found[key], True
                    r.detail = "discharged over the reals, but the real (float) code fails this clause on a concrete input found by native search after a cross-check discrepancy" + (" | " + r.detail if r.detail else "")
        for r in need:
            if r.ob.endswith("__crosscheck__"):
                continue
            key = r.ob.split("/", 1)[1] if "/" in r.ob else None
            hit = found.get(key) if key else (next(iter(found.values())) if found else None)
            if hit is not None:
                r.verdict = "refuted"
                r.witness = hit
                r.replay_confirmed = True
                r.detail = "found by native search of the contract after: " + r.detail
                if key is None:
                    r.ob = f"{r.ob}/{next(iter(found.keys()))}"
    return res


def native_search(spec, cfg, n, seed):
    """Evaluate the contract natively on random inputs; returns {claim name: witness} for failing claims."""
    from . import harness as H

    rng = random.Random(seed * 104729 + 7)
    found = {}
    for _ in range(n):
        try:
            claims, ctx = H.run_native(spec.body, cfg, rng=rng)
        except BaseException:
            continue
        if claims is None:
            continue
        for name, ok, _note in claims:
            if not ok and name not in found:
                found[name] = {k: v for k, v in ctx.drawn.items()}
    return found


def run_ground(spec, cfg):
    """Closed obligations: body(cfg) yields (name, ok, detail) evaluated exactly on what the real constructors built."""
    from . import harness as H

    t0 = time.time()
    out = []
    for item in spec.body(cfg):
        name, ok, detail = item[:3]
        r = H.ObResult(prop=spec.prop, ob=f"{spec.id}/{name}", config=str(cfg), function=spec.function, engine="ground", backend="ground", kind="ground")
        r.verdict = "discharged" if ok else "refuted"
        r.replay_confirmed = None if ok else True
        r.detail = str(detail)
        if not ok:
            r.witness = {"config": str(cfg), "observed": str(detail)}
        r.wall_s = round(time.time() - t0, 3)
        out.append(r)
    if not out:
        out.append(H.ObResult(prop=spec.prop, ob=spec.id, config=str(cfg), function=spec.function, verdict="error", detail="vacuous ground obligation"))
    return out


def run_bounded(spec, cfg, tier, seed):
    """Bounded stand-in: the contract evaluated natively on sampled inputs (never counted as proved)."""
    from . import harness as H

    n = getattr(spec, "samples", 64) * (8 if tier == "thorough" else 1)
    rng = random.Random(seed * 31337 + 3)
    t0 = time.time()
    stats = {}
    evals = 0
    distinct = set()
    for _ in range(n):
        claims, ctx = H.run_native(spec.body, cfg, rng=rng)
        if claims is None:
            continue
        evals += 1
        distinct.add(json.dumps(H._jsonable(ctx.drawn), sort_keys=True, default=str))
        for name, ok, note in claims:
            st = stats.setdefault(name, {"n": 0, "fail": None})
            st["n"] += 1
            if not ok and st["fail"] is None:
                st["fail"] = dict(ctx.drawn)
    out = []
    for name, st in stats.items():
        r = H.ObResult(prop=spec.prop, ob=f"{spec.id}/{name}", config=str(cfg), function=spec.function, engine="standin", backend="native", kind="bounded")
        r.verdict = "discharged" if st["fail"] is None else "refuted"
        r.paths = st["n"]
        r.queries = len(distinct)
        if st["fail"] is not None:
            r.witness = st["fail"]
            r.replay_confirmed = True
        r.detail = f"bounded: {st['n']} native evaluations, {len(distinct)} distinct inputs"
        r.wall_s = round(time.time() - t0, 3)
        out.append(r)
    if not out:
        out.append(H.ObResult(prop=spec.prop, ob=spec.id, config=str(cfg), function=spec.function, verdict="error", kind="bounded", detail="no admissible sample"))
    return out


# ------------------------------------------------------------------------------------------------
def load_findings():
    path = os.path.join(ROOT, "known_findings.jsonl")
    fs, fixed = [], []
    if os.path.exists(path):
        for line in open(path):
            line = line.strip()
            if not line or line.startswith("#"):
                continue
            if line.startswith("fixed:"):
                fixed.append(line)
                continue
            fs.append(json.loads(line))
    return fs, fixed


def match_finding(r, findings):
    for f in findings:
        if f["property"] != r["prop"]:
            continue
        if not fnmatch.fnmatchcase(r["ob"], f["obligation"]):
            continue
        if not fnmatch.fnmatchcase(r["config"], f.get("config", "*")):
            continue
        return f
    return None


def load_baseline():
    path = os.path.join(ROOT, "baseline_obligations.json")
    if os.path.exists(path):
        return json.load(open(path))
    return {}


def main(argv=None):
    import argparse

    ap = argparse.ArgumentParser()
    ap.add_argument("prop", nargs="?")
    ap.add_argument("--tier", default=os.environ.get("VERIF_TIER", "quick"))
    ap.add_argument("--replay")
    ap.add_argument("--only", help="fnmatch filter on obligation ids")
    ap.add_argument("--jobs", type=int, default=int(os.environ.get("VERIF_JOBS", "16")))
    ap.add_argument("--no-evidence", action="store_true")
    ap.add_argument("--write-baseline", action="store_true")
    ap.add_argument("-v", action="store_true")
    a = ap.parse_args(argv)
    seed = int(os.environ.get("VERIF_SEED", "0") or 0)
    tier = a.tier if a.tier in ("quick", "thorough") else "quick"
    sys.path.insert(0, ROOT)
    import warnings

    warnings.filterwarnings("ignore")
    if a.replay:
        return replay(a.replay)
    prop = a.prop
    t0 = time.time()
    import torch

    torch.set_num_threads(1)
    specs = _load(prop)
    jobs = []
    for s in specs:
        if a.only and not fnmatch.fnmatchcase(s.id, a.only):
            continue
        for cfg in s.configs(tier):
            jobs.append((prop, s.id, cfg, tier, seed))
    if not jobs:
        print(f"ENGINE-FAULT: no obligations generated for {prop}")
        return 3
    # longest first is unknown; shuffle deterministically so slow configs spread over workers
    results = []
    if a.jobs > 1 and len(jobs) > 1:
        results = run_pool(jobs, min(a.jobs, len(jobs)), hard_limit_s=float(os.environ.get("VK_JOB_LIMIT_S", 1200 if tier == "quick" else 10800)))
    else:
        for j in jobs:
            results.extend(_job(j))
    results.sort(key=lambda r: (r["ob"], r["config"]))
    return finish(prop, tier, seed, specs, results, time.time() - t0, a)


def _worker_loop(conn):
    while True:
        try:
            msg = conn.recv()
        except EOFError:
            return
        if msg is None:
            return
        idx, job = msg
        conn.send((idx, _job(job)))


def run_pool(jobs, nproc, hard_limit_s):
    """own process pool (one pipe per worker) with a HARD wall-clock limit per job enforced by the parent: a job that overruns it
    (a solver query that ignores both its soft timeout and z3's interrupt, an endless loop in changed code under contract) has
    its worker killed and is reported as UNDECIDED - never as a verdict - and the run goes on with a fresh worker."""
    from multiprocessing.connection import wait

    from . import harness as H

    ctx = mp.get_context("fork")
    pending = list(range(len(jobs)))[::-1]
    results, workers = [], []

    def spawn():
        pc, cc = ctx.Pipe()
        pr = ctx.Process(target=_worker_loop, args=(cc,), daemon=True)
        pr.start()
        cc.close()
        return {"proc": pr, "conn": pc, "idx": None, "t0": None}

    def assign(w):
        if pending:
            w["idx"] = pending.pop()
            w["t0"] = time.time()
            w["conn"].send((w["idx"], jobs[w["idx"]]))
        else:
            w["idx"] = None

    def fail(w, why):
        prop, spec_id, cfg, tier, seed = jobs[w["idx"]]
        spec = H.REGISTRY[spec_id]
        d = H.ObResult(prop=prop, ob=spec_id, config=str(cfg), function=spec.function, verdict="undecided", detail=why).asdict()
        d["job_wall_s"] = round(time.time() - w["t0"], 3)
        results.append(d)
        try:
            w["proc"].kill()
            w["proc"].join(10)
            w["conn"].close()
        except Exception:
            pass

    for _ in range(nproc):
        w = spawn()
        workers.append(w)
        assign(w)
    while any(w["idx"] is not None for w in workers):
        busy = [w for w in workers if w["idx"] is not None]
        ready = wait([w["conn"] for w in busy], timeout=2.0)
        for w in busy:
            if w["conn"] in ready:
                try:
                    idx, out = w["conn"].recv()
                    results.extend(out)
                    assign(w)
                except (EOFError, OSError):
                    fail(w, "worker process died while running this job")
                    workers[workers.index(w)] = nw = spawn()
                    assign(nw)
            elif time.time() - w["t0"] > hard_limit_s:
                fail(w, f"hard wall-clock limit of {hard_limit_s:.0f} s per job reached; worker killed (the job neither finished nor reacted to its solver budgets)")
                workers[workers.index(w)] = nw = spawn()
                assign(nw)
    for w in workers:
        try:
            w["conn"].send(None)
            w["proc"].join(5)
            if w["proc"].is_alive():
                w["proc"].kill()
        except Exception:
            pass
    return results


def finish(prop, tier, seed, specs, results, wall, a):
    findings, fixed = load_findings()
    baseline = load_baseline().get(prop, {})
    violations, known_hits, undecided, faults = [], [], [], []
    rdir = os.path.join(ROOT, "replays", prop)
    os.makedirs(rdir, exist_ok=True)
    if not a.only:
        for fn in os.listdir(rdir):
            if fn.endswith(".json"):
                os.unlink(os.path.join(rdir, fn))
    for r in results:
        key = f"{r['ob']}@{r['config']}"
        if r["verdict"] == "discharged":
            continue
        if r["verdict"] == "refuted":
            f = match_finding(r, findings)
            confirmed = r["replay_confirmed"] is True or r["kind"] == "ground"
            if f is not None and confirmed:
                known_hits.append((r, f))
                r["known_finding"] = f["what"]
                continue
            if confirmed:
                violations.append((r, ""))
            elif key in baseline:
                violations.append((r, " no-failing-input-found"))
            else:
                faults.append(r)
            continue
        if r["verdict"] == "undecided":
            if r["kind"] == "crosscheck":
                continue  # an inconclusive differential cross-check is recorded in the evidence, it is not a verdict on the property
            undecided.append(r)
        else:
            faults.append(r)
    # replay files
    from .harness import _exact

    vio_lines = []
    for r, suffix in violations:
        fn = os.path.join("replays", prop, _safe(r["ob"] + "@" + r["config"]) + ".json")
        with open(os.path.join(ROOT, fn), "w") as fh:
            json.dump({"property": prop, "obligation": r["ob"], "config": r["config"], "function": r["function"], "witness": _exact(r.get("witness")), "verifier_output": r["detail"], "backend": r["backend"], "replay_confirmed": r["replay_confirmed"]}, fh, indent=1, default=str)
        vio_lines.append(f"VIOLATION property={prop} replay={os.path.join(ROOT, fn)}{suffix}")
    seen = set()
    for r, f in known_hits:
        if f["what"] not in seen:
            seen.add(f["what"])
            print(f"KNOWN-FINDING: property={prop} {f['what']}")
    cap = None if a.v else 25
    for line in vio_lines[:cap]:
        print(line)
    if cap and len(vio_lines) > cap:
        print(f"... {len(vio_lines) - cap} more violations (replay files under {rdir})")
    for r in undecided[:cap]:
        print(f"UNDECIDED: {r['ob']} @ {r['config']}: {r['detail'][:300]}")
    for r in faults[:cap]:
        print(f"ENGINE-FAULT: {r['ob']} @ {r['config']}: {r['detail'][:600]}")
    n_proof = [r for r in results if r["kind"] in ("proof", "ground")]
    n_dis = [r for r in n_proof if r["verdict"] == "discharged"]
    print(f"[{prop}] tier={tier} obligations={len(n_proof)} discharged={len(n_dis)} known-findings={len(known_hits)} violations={len(violations)} undecided={len(undecided)} faults={len(faults)} wall={wall:.1f}s")
    slow = {}
    for r in results:
        slow[(r["ob"].split("/")[0], r["config"])] = max(slow.get((r["ob"].split("/")[0], r["config"]), 0), r.get("job_wall_s", 0))
    top = sorted(slow.items(), key=lambda kv: -kv[1])[:5]
    print("  slowest jobs: " + "; ".join(f"{k[0]}@{k[1]} {v:.0f}s" for k, v in top))
    if a.v:
        for r in results:
            print(f"  {r['verdict']:11s} {r['backend']:11s} {r['ob']} @ {r['config']} paths={r['paths']} {r['wall_s']}s {r['detail'][:100]}")
    code = 1 if violations else (3 if faults else (2 if undecided else 0))
    if not a.no_evidence and not a.only:
        write_evidence(prop, tier, seed, specs, results, known_hits, violations, undecided, faults, wall)
    if a.write_baseline and code == 0:
        allb = load_baseline()
        cur = allb.get(prop, {})
        if tier == "quick":
            cur = {k: v for k, v in cur.items() if v != "quick"}
        for r in results:
            if r["verdict"] == "discharged" and r["kind"] in ("proof", "ground"):
                cur.setdefault(f"{r['ob']}@{r['config']}", tier)
        allb[prop] = cur
        with open(os.path.join(ROOT, "baseline_obligations.json"), "w") as fh:
            json.dump(allb, fh, indent=0, sort_keys=True)
    return code


def _safe(s):
    return "".join(c if c.isalnum() or c in "._-" else "_" for c in s)[:150]


def write_evidence(prop, tier, seed, specs, results, known_hits, violations, undecided, faults, wall):
    from . import meta

    m = meta.PROPS.get(prop, {})
    proof = [r for r in results if r["kind"] in ("proof", "ground") and "known_finding" not in r]
    dis = [r for r in proof if r["verdict"] == "discharged"]
    bounded = [r for r in results if r["kind"] == "bounded"]
    cross = [r for r in results if r["kind"] == "crosscheck"]
    by_backend = {}
    for r in proof:
        b = by_backend.setdefault(r["backend"], {"obligations": 0, "discharged": 0, "solver_s": 0.0})
        b["obligations"] += 1
        b["discharged"] += r["verdict"] == "discharged"
        b["solver_s"] = round(b["solver_s"] + r["solver_s"], 3)
    funcs = {}
    for s in specs:
        for pin in source_pin(s.function):
            k = f"{pin['file']}:{pin['qualname']}"
            funcs.setdefault(k, dict(pin, engine=s.engine, obligations=[]))["obligations"].append(s.id)
    samples = []
    for r in (dis[:3] + [r for r, _ in known_hits][:2] + bounded[:1]):
        samples.append({k: r[k] for k in ("ob", "config", "verdict", "backend", "paths", "solver_s", "wall_s", "detail")} | ({"witness": _js(r.get("witness"))} if r.get("witness") else {}))
    # mechanical scan of the sidecar for unchecked assumptions (preconditions, disabled cross-checks, uninterpreted functions)
    scan = {"assume_sites": [], "crosscheck_disabled": [], "uninterpreted_functions": []}
    try:
        import re as _re

        for fn in sorted(set([f"contracts/{prop.lower()}.py"] + [f"contracts/{prop.lower()}_gray.py"])):
            path_ = os.path.join(ROOT, fn)
            if not os.path.exists(path_):
                continue
            for ln, line in enumerate(open(path_), 1):
                t = line.strip()
                if "ctx.assume(" in t or ".assume(" in t and "ex.assume" in t:
                    scan["assume_sites"].append(f"{fn}:{ln}: {t[:140]}")
                if _re.search(r"crosscheck\s*=\s*0", t):
                    scan["crosscheck_disabled"].append(f"{fn}:{ln}: {t[:140]}")
                if "uf_apply(" in t or "z3.Function(" in t:
                    scan["uninterpreted_functions"].append(f"{fn}:{ln}: {t[:140]}")
    except Exception:  # pragma: no cover
        pass
    level = m.get("level", "proof")
    cov = {
        "obligations": len(proof),
        "discharged": len(dis),
        "checker_cmd": f"bin/check {prop} --tier {tier}",
        "trusted_base": m.get("trusted_base", []) + meta.COMMON_TRUSTED,
        "functions_under_contract": list(funcs.values()),
        "by_backend": by_backend,
        "configs": len(set(r["config"] for r in results)),
        "paths": sum(r["paths"] for r in proof),
        "solver_s": round(sum(r["solver_s"] for r in results), 3),
        "refuted_known": [{"ob": r["ob"], "config": r["config"], "finding": f["what"]} for r, f in known_hits],
        "bounded": {
            "obligations": len(bounded),
            "clean": sum(r["verdict"] == "discharged" for r in bounded),
            "evaluations": sum(r["paths"] for r in bounded),
            "note": "bounded stand-in: contract evaluated natively on sampled inputs; never counted in obligations/discharged",
            "items": [{"ob": r["ob"], "config": r["config"], "detail": r["detail"], "verdict": r["verdict"]} for r in bounded][:40],
        },
        "crosscheck": {"harnesses": len(cross), "ok": sum(r["verdict"] == "discharged" for r in cross), "inconclusive": sum(r["verdict"] == "undecided" for r in cross)},
        "out_of_reach": m.get("out_of_reach", []),
        "assumption_scan": {k: {"count": len(v), "sites": v[:25]} for k, v in scan.items()},
        "undecided": [{"ob": r["ob"], "config": r["config"], "detail": r["detail"][:200]} for r in undecided],
        "samples": samples,
        "exhaustive": False,
        "explanation": m.get("explanation", ""),
    }
    ev = {
        "property_id": prop,
        "tier": tier,
        "seed": seed,
        "level": level,
        "coverage": cov,
        "assumptions": m.get("assumptions", []) + meta.COMMON_ASSUMPTIONS,
        "wall_s": round(wall, 2),
        "violations": len(violations),
    }
    os.makedirs(os.path.join(ROOT, "evidence"), exist_ok=True)
    path = os.path.join(ROOT, "evidence", f"{prop}.json")
    try:
        import jsonschema

        schema = json.load(open("/root/.vp/EVIDENCE.schema.json"))
        jsonschema.validate(ev, schema)
    except FileNotFoundError:
        pass
    with open(path, "w") as fh:
        json.dump(ev, fh, indent=1, default=str)


def _js(w):
    from .harness import _jsonable

    try:
        return _jsonable(w)
    except Exception:
        return str(w)


def replay(path):
    """Re-run the native part of a recorded counterexample; exit 1 if the contract still fails."""
    from . import harness as H

    rec = json.load(open(path))
    prop = rec["property"]
    _load(prop)
    ob = rec["obligation"]
    spec_id, _, claim = ob.partition("/")
    spec = H.REGISTRY[spec_id]
    cfgs = [c for t in ("quick", "thorough") for c in spec.configs(t) if str(c) == rec["config"]]
    if not cfgs:
        print(f"replay: configuration {rec['config']} not found")
        return 3
    cfg = cfgs[0]
    if spec.kind == "ground":
        res = run_ground(spec, cfg)
        bad = [r for r in res if r.ob == ob and r.verdict == "refuted"]
        for r in bad:
            print(f"replay: {r.ob} @ {r.config} fails: {r.detail}")
        if bad:
            print(f"VIOLATION property={prop} replay={path}")
            return 1
        print("replay: obligation holds now")
        return 0
    if spec.kind == "custom":
        res = spec.body(spec, cfg, "quick", 0)
        bad = [r for r in res if r.ob == ob and r.verdict == "refuted"]
        if bad:
            print(f"replay: {ob} fails: {bad[0].detail}")
            print(f"VIOLATION property={prop} replay={path}")
            return 1
        print("replay: obligation holds now")
        return 0
    w = H.parse_witness(rec["witness"])
    claims, ctx = H.run_native(spec.body, cfg, witness=w)
    if claims is None:
        print("replay: witness rejected by the precondition")
        return 0
    bad = [c for c in claims if c[0] == claim and not c[1]]
    if bad:
        print(f"replay: contract clause {ob} fails natively on the real code with input {H._jsonable(w)}")
        print(f"VIOLATION property={prop} replay={path}")
        return 1
    print("replay: contract clause holds on this input")
    return 0


if __name__ == "__main__":
    sys.exit(main())
