"""Evidence metadata for C06 (demodulators: nearest-point decisions, signed and scaled max-log LLRs)."""

META = {
    "level": "proof",
    "trusted_base": [
        "constellation points C and labels L are read from the objects the real constructors built (demodulator.modulator.constellation / bit_patterns / levels / qpsk / qpsk_rotated; BPSK and OQPSK demodulators carry no table: the modulator's); exact rationals of the stored float32 values",
        "spec functions use the reduced metric |C_j|^2 - 2 Re(y conj C_j) = |y - C_j|^2 - |y|^2 (the common |y|^2 cancels in every comparison and difference)",
        "sound generalisation steps of contracts/c06.py:_prove: F(t) is proved by proving F(v) for fresh universally quantified reals v in place of (i) the nonlinear monomials after z3.simplify(som=True) "
        "[linear real arithmetic], (ii) noise-variance-free squared-distance terms [scaling clauses], (iii) v = q*nv for nv > 0 to remove divisions; a candidate is accepted only on z3 `unsat`, "
        "otherwise the exact claim goes to z3 unchanged; refutations only ever come from the exact claim and are replayed natively",
        "lemma (scale composition): llr(y,s)*s = llr(y,1) for all s>0 and llr(y,1) = kappa*D(y) give llr(y,s) = kappa*D(y)/s and llr(y,c*s) = llr(y,s)/c",
        "lemma (sqrt of one): s >= 0 and s*s = 1 imply s = 1 (checked by z3 per occurrence) - used to replace the engine's Sqrt term for |z| under the hypothesis |z|^2 = 1 (DPSK)",
        "modular step for DPSKDemodulator.forward: `_min_distance_to_points` replaced by a stub returning fresh symbols (its own contract is C06.dpsk_min_distance)",
        "vk/ops_mod2.py: basic indexing of a concrete SymTensor returns a view (torch semantics) so that chained writes llrs[b][s][k] = v reach the parent tensor",
    ],
    "assumptions": [
        "kappa is a constant of the scheme read off ONE native evaluation (sigma^2 = 1, a generic point), snapped to a multiple of 1/8, and then proved for all y and every bit; kappa_positive is a separate clause",
        "equalities between the code's LLR and the specification are proved exactly (stronger) where they hold exactly over the reals and within a relative tolerance of 1e-6 otherwise (OQPSK: float32 vs float64 normalisation constant); native replays add a float32 cancellation allowance of 1e-4 x the distance scale",
        "layouts: one symbol 1-D, two symbols batched (1,2) for <= 16 points (PSK <= 8); noise variance as 0-dim tensor, Python float, per-symbol tensor (1-D and batched); larger constellations: one symbol",
        "pi/4-QPSK: fresh demodulator (state reset), symbol t uses table t mod 2; 1-D hard output is the index of the decided point (its label is bit_patterns[index]), batched output is the label",
        "DPSK family: soft-output clauses are stated for |z_t| = 1, z_t = y_t conj(y_(t-1)); the code normalises z/(|z|+1e-9), the specification uses z/(1+1e-9)",
        "quick tier: constellations with <= 16 points; 32/64/256-point constellations in the thorough tier only",
    ],
    "out_of_reach": [
        "DPSKDemodulator hard decision compares wrapped angles (torch.angle = atan2, % 2pi): bounded stand-in C06.dpsk_hard_bounded on a polar grid (5 moduli x 720/2880 angles + every decision boundary +-1e-4..1e-2 + seeded random; random y_(t-1)); the same grid checks sign(llr) vs hard decision and the soft identity for |z| != 1",
        "256-QAM / 64-PSK max-log identity: each bit needs minutes of linear-arithmetic case analysis (see thorough-tier timings); undecided there means timeout, never a verdict",
    ],
}
