"""List-model verification conditions for step-list mutators (a small E1 instance, DESIGN.md 7/C17).

Target shape (everything else => "outside the supported subset" => undecided):

    def add_step(self, step[, name=None]):           def remove_step(self, index):
        if not callable(step): raise TypeError            if not 0 <= index < len(self.<attr>): raise IndexError(...)
        [name defaulting statements]                       self.<attr>.pop(index)
        self.<attr>.append(<step | (name, step)>)          return self
        return self

The real source is re-read with inspect+ast on every run.  The list is a z3 sequence of UNBOUNDED length over an
uninterpreted element sort; contracts (abstract view `view`):
    add:     requires callable(step)            ensures view' == view ++ [elem]        (elem = step, or the pair (name, step))
             not callable(step)                 raises TypeError, view unchanged
    remove:  0 <= index < |view|                ensures view' == view[:index] ++ view[index+1:]
             otherwise                          raises IndexError, view unchanged
What the extraction drops: docstrings, annotations, exception messages, the `name is None` defaulting of ParallelModel.add_step
(the appended pair's first component is treated as an uninterpreted value; only the callable component is constrained).
"""
from __future__ import annotations

import ast
import inspect
import textwrap
import time

import z3


class Outside(Exception):
    pass


def _body(fn):
    src = textwrap.dedent(inspect.getsource(fn))
    fdef = ast.parse(src).body[0]
    body = [s for s in fdef.body if not (isinstance(s, ast.Expr) and isinstance(getattr(s, "value", None), ast.Constant) and isinstance(s.value.value, str))]
    return fdef, body


def _is_self_attr(e, attr):
    return isinstance(e, ast.Attribute) and isinstance(e.value, ast.Name) and e.value.id == "self" and e.attr == attr


def _check(hyps, goal, timeout_ms=10000):
    s = z3.Solver()
    s.set("timeout", timeout_ms)
    for h in hyps:
        s.add(h)
    s.add(z3.Not(goal))
    r = s.check()
    if r == z3.unsat:
        return "discharged", "z3 unsat"
    if r == z3.sat:
        return "refuted", f"z3 model: {str(s.model())[:300]}"
    return "undecided", f"z3 {r}: {s.reason_unknown()}"


def add_vcs(fn, attr, step_param="step", pair=False):
    t0 = time.time()
    try:
        fdef, body = _body(fn)
        Elem = z3.DeclareSort("Elem")
        view = z3.Const("view", z3.SeqSort(Elem))
        callable_step = z3.Bool("callable_step")
        elem = z3.Const("elem", Elem)  # the appended element (step, or the pair built from it)
        state = {"view": view, "raised": None, "appended": []}
        guard_seen = False
        for s in body:
            if isinstance(s, ast.If):
                t = s.test
                # if not callable(step): raise TypeError(...)
                if isinstance(t, ast.UnaryOp) and isinstance(t.op, ast.Not) and isinstance(t.operand, ast.Call) and getattr(t.operand.func, "id", None) == "callable" and len(t.operand.args) == 1 and getattr(t.operand.args[0], "id", None) == step_param and len(s.body) == 1 and isinstance(s.body[0], ast.Raise) and not s.orelse:
                    exc = s.body[0].exc
                    name = exc.func.id if isinstance(exc, ast.Call) else getattr(exc, "id", None)
                    state["raised"] = (z3.Not(callable_step), name)
                    guard_seen = True
                    continue
                # name defaulting of ParallelModel.add_step: does not touch the list
                if pair and all(isinstance(x, (ast.Assign, ast.AugAssign)) for x in s.body) and not any(_is_self_attr(getattr(x, "targets", [None])[0] if isinstance(x, ast.Assign) else x.target, attr) for x in s.body) and not s.orelse:
                    continue
                raise Outside(f"if-statement at line {s.lineno}")
            if isinstance(s, ast.Expr) and isinstance(s.value, ast.Call) and isinstance(s.value.func, ast.Attribute) and s.value.func.attr == "append" and _is_self_attr(s.value.func.value, attr) and len(s.value.args) == 1:
                a = s.value.args[0]
                ok_arg = (isinstance(a, ast.Name) and a.id == step_param and not pair) or (pair and isinstance(a, ast.Tuple) and len(a.elts) == 2 and isinstance(a.elts[1], ast.Name) and a.elts[1].id == step_param)
                if not ok_arg:
                    raise Outside("append of something other than the step (pair)")
                state["view"] = z3.Concat(state["view"], z3.Unit(elem))
                state["appended"].append(1)
                continue
            if isinstance(s, ast.Return):
                if not (isinstance(s.value, ast.Name) and s.value.id == "self"):
                    raise Outside("return of something other than self")
                continue
            raise Outside(f"statement {type(s).__name__} at line {s.lineno}")
        out = []
        out.append(("add.rejects_non_callable_with_TypeError", "discharged" if (guard_seen and state["raised"][1] == "TypeError") else "refuted", "guard `if not callable(step): raise TypeError` precedes the append" if guard_seen else "no callable() guard before the append"))
        v, d = _check([callable_step], state["view"] == z3.Concat(view, z3.Unit(elem)))
        out.append(("add.view_is_old_view_plus_step", v, d))
        v, d = _check([], z3.Length(state["view"]) == z3.Length(view) + 1)
        out.append(("add.exactly_one_append", v if len(state["appended"]) == 1 else "refuted", d))
        return out, round(time.time() - t0, 3)
    except Outside as e:
        return [("add", "undecided", f"outside E1 list subset: {e}")], round(time.time() - t0, 3)


def remove_vcs(fn, attr, index_param="index"):
    t0 = time.time()
    try:
        fdef, body = _body(fn)
        Elem = z3.DeclareSort("Elem")
        view = z3.Const("view", z3.SeqSort(Elem))
        idx = z3.Int("index")
        n = z3.Length(view)
        guard = None
        new_view = view
        popped = 0
        for s in body:
            if isinstance(s, ast.If) and len(s.body) == 1 and isinstance(s.body[0], ast.Raise) and not s.orelse:
                t = s.test
                # if not 0 <= index < len(self.attr): raise IndexError
                if isinstance(t, ast.UnaryOp) and isinstance(t.op, ast.Not) and isinstance(t.operand, ast.Compare):
                    c = t.operand
                    if len(c.ops) == 2 and isinstance(c.left, ast.Constant) and c.left.value == 0 and isinstance(c.ops[0], ast.LtE) and isinstance(c.ops[1], ast.Lt) and getattr(c.comparators[0], "id", None) == index_param and isinstance(c.comparators[1], ast.Call) and getattr(c.comparators[1].func, "id", None) == "len" and _is_self_attr(c.comparators[1].args[0], attr):
                        exc = s.body[0].exc
                        guard = (z3.Not(z3.And(0 <= idx, idx < n)), exc.func.id if isinstance(exc, ast.Call) else getattr(exc, "id", None))
                        continue
                raise Outside(f"guard at line {s.lineno} is not `if not 0 <= index < len(self.{attr}): raise`")
            if isinstance(s, ast.Expr) and isinstance(s.value, ast.Call) and isinstance(s.value.func, ast.Attribute) and s.value.func.attr == "pop" and _is_self_attr(s.value.func.value, attr) and len(s.value.args) == 1 and getattr(s.value.args[0], "id", None) == index_param:
                # list.pop(i) for 0 <= i < n removes exactly position i
                new_view = z3.Concat(z3.SubSeq(new_view, 0, idx), z3.SubSeq(new_view, idx + 1, z3.Length(new_view) - idx - 1))
                popped += 1
                continue
            if isinstance(s, ast.Return):
                if not (isinstance(s.value, ast.Name) and s.value.id == "self"):
                    raise Outside("return of something other than self")
                continue
            raise Outside(f"statement {type(s).__name__} at line {s.lineno}")
        out = []
        ok_guard = guard is not None and guard[1] == "IndexError"
        out.append(("remove.rejects_out_of_range_with_IndexError_before_mutation", "discharged" if ok_guard else "refuted", "range guard precedes the pop" if ok_guard else "no `0 <= index < len` guard raising IndexError before the pop"))
        in_range = z3.And(0 <= idx, idx < n)
        spec = z3.Concat(z3.SubSeq(view, 0, idx), z3.SubSeq(view, idx + 1, n - idx - 1))
        v, d = _check([in_range], new_view == spec)
        out.append(("remove.view_is_old_view_without_position_index", v if popped == 1 else "refuted", d if popped == 1 else f"{popped} pop calls"))
        v, d = _check([in_range], z3.Length(new_view) == n - 1)
        out.append(("remove.length_decreases_by_one", v, d))
        return out, round(time.time() - t0, 3)
    except Outside as e:
        return [("remove", "undecided", f"outside E1 list subset: {e}")], round(time.time() - t0, 3)
