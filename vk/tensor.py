"""SymTensor: a torch.Tensor wrapper subclass whose payload is numpy object arrays of scalars (vk.sym)."""
from __future__ import annotations

from fractions import Fraction

import numpy as np
import torch

from . import sym as S


def oarr(shape, fill=0):
    a = np.empty(tuple(shape), dtype=object)
    a.fill(fill)
    return a


def as_oarr(v):
    """Wrap anything (scalar / nested list / ndarray) as an object ndarray."""
    if isinstance(v, np.ndarray) and v.dtype == object:
        return v
    if isinstance(v, np.ndarray):
        out = np.empty(v.shape, dtype=object)
        flat = out.reshape(-1)
        for i, x in enumerate(v.reshape(-1).tolist()):
            flat[i] = S.norm(x)
        return out
    a = np.empty((), dtype=object)
    a[()] = v if isinstance(v, S.Sym) else S.norm(v)
    return a


class SymTensor(torch.Tensor):
    """Payload: `re` (object ndarray), `im` (object ndarray or None).  Shape/dtype are native metadata."""

    @staticmethod
    def __new__(cls, re, im=None, dtype=torch.float32, requires_grad=False):
        re = as_oarr(re)
        r = torch.Tensor._make_wrapper_subclass(cls, tuple(re.shape), dtype=dtype, device="cpu")
        r.re = re
        r.im = None if im is None else as_oarr(im)
        if dtype.is_complex and r.im is None:
            r.im = oarr(re.shape, 0)
        if not dtype.is_complex and r.im is not None:
            raise S.EngineFault("imaginary payload on a real dtype")
        r._low = None
        r.prov = frozenset()
        return r

    @classmethod
    def __torch_dispatch__(cls, func, types, args=(), kwargs=None):
        raise S.Unsupported(f"dispatch reached for {func} (operation executed outside the symbolic mode)")

    def __repr__(self):
        return f"SymTensor(shape={tuple(self.shape)}, dtype={self.dtype}, concrete={self.is_concrete()})"

    __str__ = __repr__

    def __format__(self, spec):
        return repr(self)

    def is_concrete(self):
        for v in self.re.reshape(-1):
            if isinstance(v, S.Sym):
                return False
        if self.im is not None:
            for v in self.im.reshape(-1):
                if isinstance(v, S.Sym):
                    return False
        return True

    def touch(self):
        self._low = None


def _np_dtype(dt):
    return {
        torch.float32: np.float32,
        torch.float64: np.float64,
        torch.float16: np.float16,
        torch.int64: np.int64,
        torch.int32: np.int32,
        torch.int16: np.int16,
        torch.int8: np.int8,
        torch.uint8: np.uint8,
        torch.bool: np.bool_,
    }.get(dt)


def lift(t, dtype=None):
    """real tensor -> SymTensor with exact payload."""
    if isinstance(t, SymTensor):
        return t
    with torch._C.DisableTorchFunctionSubclass():
        t = t.detach().resolve_conj().resolve_neg()
        dt = t.dtype
        if dt.is_complex:
            re = as_oarr(t.real.contiguous().numpy().astype(np.float64))
            im = as_oarr(t.imag.contiguous().numpy().astype(np.float64))
            return SymTensor(re, im, dt)
        if dt == torch.bool:
            a = np.empty(tuple(t.shape), dtype=object)
            flat = a.reshape(-1)
            for i, x in enumerate(t.reshape(-1).tolist()):
                flat[i] = bool(x)
            return SymTensor(a, None, dt)
        if dt.is_floating_point:
            arr = t.contiguous().to(torch.float64).numpy() if dt != torch.float64 else t.contiguous().numpy()
            return SymTensor(as_oarr(arr), None, dt)
        a = np.empty(tuple(t.shape), dtype=object)
        flat = a.reshape(-1)
        for i, x in enumerate(t.reshape(-1).tolist()):
            flat[i] = int(x)
        return SymTensor(a, None, dt)


def _to_float(v):
    if isinstance(v, S.Sym):
        raise S.EngineFault("lower() of a symbolic payload")
    return float(v)


def lower(s):
    """concrete SymTensor -> real tensor (values rounded to the dtype)."""
    if not isinstance(s, SymTensor):
        return s
    if s._low is not None:
        return s._low
    with torch._C.DisableTorchFunctionSubclass():
        shape = tuple(s.shape)
        dt = s.dtype
        if dt.is_complex:
            fdt = torch.float64 if dt == torch.complex128 else torch.float32
            re = torch.tensor([_to_float(v) for v in s.re.reshape(-1)], dtype=torch.float64).to(fdt).reshape(shape)
            im = torch.tensor([_to_float(v) for v in s.im.reshape(-1)], dtype=torch.float64).to(fdt).reshape(shape)
            out = torch.complex(re, im)
        elif dt == torch.bool:
            out = torch.tensor([bool(v) for v in s.re.reshape(-1)], dtype=torch.bool).reshape(shape)
        elif dt.is_floating_point:
            out = torch.tensor([_to_float(v) for v in s.re.reshape(-1)], dtype=torch.float64).to(dt).reshape(shape)
        else:
            vals = []
            for v in s.re.reshape(-1):
                if isinstance(v, Fraction) and v.denominator != 1:
                    raise S.EngineFault("non-integral payload in an integer tensor")
                vals.append(int(v))
            out = torch.tensor(vals, dtype=torch.int64).to(dt).reshape(shape)
    s._low = out
    return out


def payload(t):
    """(re, im) object arrays of any tensor / scalar."""
    if isinstance(t, SymTensor):
        return t.re, t.im
    if isinstance(t, torch.Tensor):
        lt = lift(t)
        return lt.re, lt.im
    if isinstance(t, complex):
        return as_oarr(t.real), as_oarr(t.imag)
    if isinstance(t, np.ndarray):
        return as_oarr(t), None
    return as_oarr(t), None


def P(t):
    """real payload as object array (complex tensors: raises)."""
    re, im = payload(t)
    if im is not None:
        raise S.EngineFault("P() of a complex tensor; use PC()")
    return re


def PC(t):
    re, im = payload(t)
    if im is None:
        im = oarr(re.shape, 0)
    return re, im


def from_values(vals, shape, dtype):
    a = np.empty(int(np.prod(shape)) if len(shape) else 1, dtype=object)
    for i, v in enumerate(vals):
        a[i] = v
    return SymTensor(a.reshape(tuple(shape)), None, dtype)
