"""Engine E3 "symshape" (DESIGN.md 3.4) plus the autograd-side helpers of C19.

What runs is always the REAL kaira object:

  * shape contracts: the real nn.Module runs under PyTorch's FakeTensorMode + ShapeEnv with symbolic batch / height /
    width.  Output sizes come back as sympy integer expressions, the path condition as ShapeEnv guards + value ranges.
    Both are translated to z3 (``//`` = floor division) and the contract is proved for ALL integers satisfying the
    admissibility precondition.  Guards that are not implied by the precondition split the proof into cases; z3 picks
    a representative of the uncovered part, the real module is re-run on it, until precondition => OR(case regions).
  * a z3 ``sat`` is never reported as a violation by itself: the model (B,H,W) is replayed on the real module with a
    real tensor; only a natively reproduced mismatch is ``refuted``; anything else is ``undecided``.
  * differentiability: (i) autograd graph reachability (ground), (ii) AST taint analysis of the real source
    (no detach / item / float / re-wrap / .data / numpy / no_grad on values that depend on the forward input),
    (iii) gradcheck / end-to-end backward (bounded, native).
"""
from __future__ import annotations

import ast
import dataclasses
import inspect
import itertools
import math
import textwrap
import time
import traceback

import sympy
import torch
import z3

from .harness import ObResult

# =================================================================================================
# sympy -> z3
# =================================================================================================


class Untranslatable(Exception):
    pass


def _floordiv(a, b):
    if isinstance(b, int) or z3.is_int_value(b):
        bv = b if isinstance(b, int) else b.as_long()
        if bv > 0:
            return a / bv  # z3 integer division is floor division for a positive divisor
        if bv < 0:
            return (-a) / (-bv)
        raise Untranslatable("division by constant zero")
    return z3.If(b > 0, a / b, (-a) / (-b))


def _pymod(a, b):
    return a - b * _floordiv(a, b)


def sym2z3(e, zmap):
    """Translate a sympy integer / boolean expression produced by ShapeEnv into z3.  zmap: sympy.Symbol -> z3 Int."""
    if isinstance(e, bool):
        return z3.BoolVal(e)
    if isinstance(e, int):
        return z3.IntVal(e)
    if e is sympy.true:
        return z3.BoolVal(True)
    if e is sympy.false:
        return z3.BoolVal(False)
    if isinstance(e, sympy.Symbol):
        if e not in zmap:
            raise Untranslatable(f"free symbol {e} is not an input dimension (unbacked / data-dependent size)")
        return zmap[e]
    if isinstance(e, sympy.Integer):
        return z3.IntVal(int(e))
    if isinstance(e, sympy.Rational):
        raise Untranslatable(f"non-integer rational {e}")
    fn = type(e).__name__
    args = e.args
    if isinstance(e, sympy.Add):
        out = sym2z3(args[0], zmap)
        for a in args[1:]:
            out = out + sym2z3(a, zmap)
        return out
    if isinstance(e, sympy.Mul):
        # sympy keeps rational coefficients such as s0/2 only when it knows divisibility; refuse them
        out = None
        for a in args:
            if isinstance(a, sympy.Rational) and not isinstance(a, sympy.Integer):
                raise Untranslatable(f"rational coefficient in {e}")
            t = sym2z3(a, zmap)
            out = t if out is None else out * t
        return out
    if isinstance(e, sympy.Pow):
        base, ex = args
        if isinstance(ex, sympy.Integer) and int(ex) >= 0:
            b = sym2z3(base, zmap)
            out = z3.IntVal(1)
            for _ in range(int(ex)):
                out = out * b
            return out
        raise Untranslatable(f"power {e}")
    if fn in ("FloorDiv", "CleanDiv", "IntTrueDiv") and len(args) == 2:
        if fn == "IntTrueDiv":
            raise Untranslatable(f"true division {e}")
        return _floordiv(sym2z3(args[0], zmap), sym2z3(args[1], zmap))
    if fn in ("Mod", "PythonMod") and len(args) == 2:
        return _pymod(sym2z3(args[0], zmap), sym2z3(args[1], zmap))
    if fn == "CeilDiv" and len(args) == 2:
        a, b = sym2z3(args[0], zmap), sym2z3(args[1], zmap)
        return -_floordiv(-a, b)
    if fn == "ModularIndexing" and len(args) == 3:
        a, d, m = (sym2z3(x, zmap) for x in args)
        return _pymod(_floordiv(a, d), m)
    if fn in ("Max", "Min"):
        out = sym2z3(args[0], zmap)
        for a in args[1:]:
            t = sym2z3(a, zmap)
            out = z3.If(out >= t, out, t) if fn == "Max" else z3.If(out <= t, out, t)
        return out
    if fn == "Identity" and len(args) == 1:
        return sym2z3(args[0], zmap)
    if isinstance(e, sympy.Eq):
        return sym2z3(args[0], zmap) == sym2z3(args[1], zmap)
    if isinstance(e, sympy.Ne):
        return sym2z3(args[0], zmap) != sym2z3(args[1], zmap)
    if isinstance(e, (sympy.StrictLessThan,)):
        return sym2z3(args[0], zmap) < sym2z3(args[1], zmap)
    if isinstance(e, (sympy.LessThan,)):
        return sym2z3(args[0], zmap) <= sym2z3(args[1], zmap)
    if isinstance(e, (sympy.StrictGreaterThan,)):
        return sym2z3(args[0], zmap) > sym2z3(args[1], zmap)
    if isinstance(e, (sympy.GreaterThan,)):
        return sym2z3(args[0], zmap) >= sym2z3(args[1], zmap)
    if isinstance(e, sympy.And):
        return z3.And(*[sym2z3(a, zmap) for a in args])
    if isinstance(e, sympy.Or):
        return z3.Or(*[sym2z3(a, zmap) for a in args])
    if isinstance(e, sympy.Not):
        return z3.Not(sym2z3(args[0], zmap))
    raise Untranslatable(f"sympy node {fn}: {e}")


def sym_eval(e, values):
    """Evaluate a ShapeEnv size expression at concrete integers (used by the native differential cross-check)."""
    if isinstance(e, int):
        return e
    return int(sympy.sympify(e).xreplace({k: sympy.Integer(v) for k, v in values.items()}))


# =================================================================================================
# running the real module on fake tensors with symbolic sizes
# =================================================================================================


@dataclasses.dataclass
class SymRun:
    example: tuple
    in_dims: list  # per input dim: sympy expr or int
    outs: dict  # name -> tuple of sympy expr / int
    guards: list  # sympy relationals
    ranges: dict  # symbol -> (lo, hi|None)

    def zmap(self, zvars):
        """zvars: per input dim a z3 Int (or None for static dims)"""
        m = {}
        for d, zv in zip(self.in_dims, zvars):
            if isinstance(d, sympy.Symbol):
                m[d] = zv
        return m

    def region(self, zvars):
        """the set of inputs this run speaks for: guards + value ranges + specialised (static) dimensions"""
        m = self.zmap(zvars)
        cs = []
        for d, zv, ev in zip(self.in_dims, zvars, self.example):
            if zv is None:
                continue
            if not isinstance(d, sympy.Symbol):
                cs.append(zv == int(ev))  # 0/1-specialised or otherwise static dimension
        for s, (lo, hi) in self.ranges.items():
            if s in m:
                if lo is not None:
                    cs.append(m[s] >= lo)
                if hi is not None:
                    cs.append(m[s] <= hi)
        for g in self.guards:
            cs.append(sym2z3(g, m))
        return z3.And(*cs) if cs else z3.BoolVal(True)


def _sz(v):
    if isinstance(v, int):
        return v
    node = getattr(v, "node", None)
    if node is None:
        return int(v)
    e = node.expr
    if isinstance(e, sympy.Integer):
        return int(e)
    return e


def _fin(v):
    try:
        if v.is_finite is False or "oo" in str(v):
            return None
        return int(v)
    except Exception:
        return None


def fake_run(fn, example, dynamic, mkldnn=True):
    """Run ``fn(fake_input) -> {name: tensor}`` with the real modules under FakeTensorMode/ShapeEnv.

    example: concrete input shape used as the hint; dynamic: per-dim bool.  Dimensions whose example value is 0/1 are
    specialised by ShapeEnv; they are made static here and the case region records ``dim == value``.
    """
    from torch._subclasses.fake_tensor import FakeTensorMode
    from torch.fx.experimental.symbolic_shapes import DimDynamic, ShapeEnv, StatelessSymbolicContext

    env = ShapeEnv(duck_shape=False)
    mode = FakeTensorMode(shape_env=env, allow_non_fake_inputs=True)
    dyn = [DimDynamic.DYNAMIC if (d and ev >= 2) else DimDynamic.STATIC for d, ev in zip(dynamic, example)]
    ctx = StatelessSymbolicContext(dynamic_sizes=dyn)
    x = torch.zeros(*example)
    import torch._dynamo.config as _dc

    old_cache = _dc.fake_tensor_cache_enabled
    _dc.fake_tensor_cache_enabled = False  # no hits with symbolic sizes; computing the keys costs ~20% of a run
    try:
        with torch.backends.mkldnn.flags(enabled=mkldnn), mode:
            fx = mode.from_tensor(x, symbolic_context=ctx)
            in_dims = [_sz(s) for s in fx.shape]  # read before the run: later specialisations stay visible as guards
            res = fn(fx)
            outs = {k: tuple(_sz(s) for s in v.shape) for k, v in res.items()}
    finally:
        _dc.fake_tensor_cache_enabled = old_cache
    guards = [g.expr for g in env.guards]
    ranges = {}
    for s, vr in env.var_to_range.items():
        lo, hi = _fin(vr.lower), _fin(vr.upper)
        ranges[s] = (lo, hi)
    return SymRun(tuple(example), in_dims, outs, guards, ranges)


# =================================================================================================
# z3 helpers
# =================================================================================================

_SMALL_BOUNDS = [(2, 40), (5, 128), (40, 1024)]


class Clock:
    def __init__(self):
        self.solver_s = 0.0
        self.queries = 0

    def check(self, s):
        t0 = time.time()
        r = s.check()
        self.solver_s += time.time() - t0
        self.queries += 1
        return r


def small_model(clock, constraints, batch_vars, size_vars, timeout_ms):
    """unsat -> None; unknown -> 'unknown'; sat -> dict var->int, preferring small values so that the native replay is cheap"""
    s = z3.Solver()
    s.set("timeout", timeout_ms)
    s.add(*constraints)
    r = clock.check(s)
    if r == z3.unsat:
        return None
    if r == z3.unknown:
        return "unknown"
    allv = list(batch_vars) + list(size_vars)
    best = s.model()
    for bb, sb in _SMALL_BOUNDS:
        s2 = z3.Solver()
        s2.set("timeout", max(2000, timeout_ms // 4))
        s2.add(*constraints)
        for v in batch_vars:
            s2.add(v <= bb)
        for v in size_vars:
            s2.add(v <= sb)
        if clock.check(s2) == z3.sat:
            best = s2.model()
            break
    return {str(v): best.eval(v, model_completion=True).as_long() for v in allv}


# =================================================================================================
# shape contracts
# =================================================================================================


class Shp:
    """shape algebra usable with both z3 terms and python ints"""

    @staticmethod
    def div(a, f):
        return a // f if isinstance(a, int) else a / f


@dataclasses.dataclass
class ShapeProblem:
    """One family of inputs: names/dynamic flags of the input dims, the precondition, the symbolic run function, the
    native run function and the clauses.  clauses: name -> f(outs, dims) -> list[(lhs, rhs)] (all must be equal)."""

    names: tuple  # e.g. ("B","C","H","W")
    channels: dict  # static dims: index -> value
    pre: callable  # f(dims dict name->z3/int) -> list of z3 bool / python bool
    run: callable  # f(x) -> {name: tensor}; works on fake and real tensors
    clauses: dict
    canary: callable  # f(outs, dims) -> list[(lhs, rhs)]  deliberately false claim
    nonlinear: dict = dataclasses.field(default_factory=dict)  # clause name -> names of outputs whose extents are abstracted
    max_cases: int = 48
    mkldnn: bool = True  # False: the symbolic runs disable the mkldnn conv backend, which removes its numel-threshold selection guards
    replay_cap: int = 4 * 3 * 160 * 160
    cases: list = None
    zv: dict = None


def _dims_from(names, channels, values):
    d = {}
    for i, n in enumerate(names):
        d[n] = channels[i] if i in channels else values[n]
    return d


def _native_shapes(problem, vals):
    shape = [problem.channels[i] if i in problem.channels else vals[n] for i, n in enumerate(problem.names)]
    x = torch.rand(*shape)
    with torch.no_grad():
        res = problem.run(x)
    return {k: tuple(int(s) for s in v.shape) for k, v in res.items()}, tuple(shape)


def prove_shapes(problem: ShapeProblem, base: dict, ob_prefix: str, timeout_ms=20000, label=""):
    """Returns list[ObResult] for: cover, guards_covered, every clause, canary."""
    t_start = time.time()
    clock = Clock()
    names = problem.names
    dyn_names = [n for i, n in enumerate(names) if i not in problem.channels]
    zv = {n: z3.Int(n) for n in dyn_names}
    dims_z = _dims_from(names, problem.channels, zv)
    pre = [c for c in problem.pre(dims_z)]
    batch_vars = [zv[dyn_names[0]]]
    size_vars = [zv[n] for n in dyn_names[1:]]
    results = []

    def mk(clause, **kw):
        r = ObResult(ob=f"{ob_prefix}/{label}{clause}", engine="E3", backend="z3", kind="proof", **base)
        for k, v in kw.items():
            setattr(r, k, v)
        return r

    # ---- cover: the precondition is satisfiable
    m0 = small_model(clock, pre, batch_vars, size_vars, timeout_ms)
    if m0 is None or m0 == "unknown":
        results.append(mk("cover", verdict="error" if m0 is None else "undecided", detail="precondition unsatisfiable: every claim would be vacuous" if m0 is None else "solver unknown on the precondition"))
        return results

    # ---- case exploration
    cases = []  # (SymRun, region z3, zmap)
    regions = []
    fail = None
    while True:
        m = small_model(clock, pre + [z3.Not(r) for r in regions], batch_vars, size_vars, timeout_ms)
        if m is None:
            break
        if m == "unknown":
            fail = ("undecided", "solver unknown while looking for an input not covered by the recorded guards")
            break
        if len(cases) >= problem.max_cases:
            fail = ("undecided", f"more than {problem.max_cases} guard cases (a guard specialises a dimension to a constant?); last uncovered input {m}")
            break
        example = tuple(problem.channels[i] if i in problem.channels else m[n] for i, n in enumerate(names))
        dynamic = tuple(i not in problem.channels for i in range(len(names)))
        try:
            run = fake_run(problem.run, example, dynamic, mkldnn=problem.mkldnn)
            zvars = [None if i in problem.channels else zv[n] for i, n in enumerate(names)]
            region = run.region(zvars)
            zmap = run.zmap(zvars)
        except Untranslatable as e:
            fail = ("undecided", f"untranslatable size expression / guard at example {example}: {e}")
            break
        except Exception as e:
            fail = ("symfail", f"real forward cannot run on symbolic shapes at example {example}: {type(e).__name__}: {str(e)[:300]}")
            break
        # the representative must lie in its own region, otherwise the translation of guards is wrong
        s = z3.Solver()
        s.set("timeout", timeout_ms)
        s.add(region, *[zv[n] == m[n] for n in dyn_names])
        if clock.check(s) != z3.sat:
            fail = ("error", f"engine fault: example {example} does not satisfy the region translated from its own guards {[str(g) for g in run.guards]}")
            break
        cases.append((run, region, zmap, example))
        regions.append(region)
    if fail is not None:
        kind, msg = fail
        results.append(mk("symbolic_run", verdict="undecided" if kind in ("undecided", "symfail") else "error", detail=msg))
        results[-1].paths = len(cases)
        results[-1].witness = {"symfail": kind == "symfail"}
        return results

    problem.cases = cases
    problem.zv = zv
    results.append(mk("cover", verdict="discharged", paths=len(cases), detail=f"precondition satisfiable (e.g. {m0}); each of the {len(cases)} guard cases has a representative input that was run on the real module"))
    case_desc = "; ".join("x".join(str(v) for v in c[3]) for c in cases[:12])
    n_guards = sum(len(c[0].guards) for c in cases)
    results.append(
        mk(
            "guards_covered",
            verdict="discharged",
            paths=len(cases),
            detail=f"precondition => OR of {len(cases)} case regions (z3 unsat on the complement); {n_guards} ShapeEnv guards + value ranges translated; representatives {case_desc}"
            + ("" if problem.mkldnn else " | symbolic runs with torch.backends.mkldnn disabled (assumption: conv backend selection does not change output sizes; the thorough tier keeps it enabled and splits on its numel thresholds)"),
        )
    )

    # ---- clauses
    def outs_z(run, zmap, abstract=()):
        """outputs as z3 terms; for names in `abstract`, every non-constant extent is replaced by a fresh Int with a defining equation"""
        o, defs = {}, []
        for k, shp in run.outs.items():
            t = []
            for j, e in enumerate(shp):
                ze = sym2z3(e, zmap)
                if k in abstract and not isinstance(e, int) and not isinstance(e, sympy.Symbol):
                    fv = z3.Int(f"ext_{k}_{j}")
                    defs.append(fv == ze)
                    ze = fv
                t.append(ze)
            o[k] = tuple(t)
        return o, defs

    lemmas = {i: [] for i in range(len(cases))}
    all_clauses = list(problem.clauses.items()) + [("__canary__", problem.canary)]
    for cname, cfn in all_clauses:
        t0 = time.time()
        s0 = clock.solver_s
        verdict, detail, witness, confirmed = "discharged", "", None, None
        for ci, (run, region, zmap, example) in enumerate(cases):
            abstract = problem.nonlinear.get(cname, ())
            try:
                o, defs = outs_z(run, zmap, abstract)
                pairs = cfn(o, dims_z)
            except Untranslatable as e:
                verdict, detail = "undecided", f"untranslatable: {e}"
                break
            claim = z3.And(*[(a == b) for a, b in pairs]) if pairs else z3.BoolVal(True)
            hyp = pre + [region] + defs + (lemmas[ci] if abstract else [])
            mdl = small_model(clock, hyp + [z3.Not(claim)], batch_vars, size_vars, timeout_ms)
            if mdl is None:
                if cname != "__canary__" and not abstract:
                    lemmas[ci].append(claim)  # proved under pre & region: may be used as a hypothesis for later clauses of this case
                continue
            if mdl == "unknown":
                verdict, detail = "undecided", f"solver unknown in guard case {ci} (representative {example})"
                break
            # sat: replay on the real module
            vals = {n: mdl[n] for n in dyn_names}
            numel = 1
            for i, n in enumerate(names):
                numel *= problem.channels[i] if i in problem.channels else vals[n]
            witness = dict(vals)
            if numel > problem.replay_cap:
                verdict, detail = "undecided", f"z3 model {vals} is too large to replay natively (cap {problem.replay_cap} elements)"
                break
            try:
                shapes, in_shape = _native_shapes(problem, vals)
                npairs = cfn(shapes, _dims_from(names, problem.channels, vals))
                bad = [(a, b) for a, b in npairs if a != b]
            except Exception as e:
                verdict, detail = "undecided", f"z3 model {vals}; native replay crashed: {type(e).__name__}: {str(e)[:200]}"
                break
            if bad:
                verdict, confirmed = "refuted", True
                witness.update({"input_shape": list(in_shape), "observed_shapes": {k: list(v) for k, v in shapes.items()}, "mismatch(observed,required)": [list(map(int, p)) for p in bad][:6]})
                detail = f"real module on a real tensor of shape {in_shape}: observed {shapes}, mismatching (observed, required) pairs {bad[:4]}"
            else:
                verdict = "undecided"
                detail = f"z3 model {vals} is NOT reproduced natively (real shapes {shapes} satisfy the clause): symbolic/native discrepancy"
            break
        if cname == "__canary__":
            # vacuity guard: the deliberately false claim must be refuted, and the refutation must replay natively
            if verdict == "refuted" and confirmed:
                r = mk("canary_refuted", verdict="discharged", detail=f"deliberately false claim is refuted by z3 and natively (witness {witness and {k: witness[k] for k in dyn_names}})")
            else:
                r = mk("canary_refuted", verdict="error", detail=f"vacuity guard failed: false claim came back '{verdict}' {detail}")
        else:
            r = mk(cname, verdict=verdict, detail=detail or f"z3 unsat in each of {len(cases)} guard cases, for all integers satisfying the precondition")
            r.witness = witness if verdict != "discharged" else None
            r.replay_confirmed = confirmed
        r.paths = len(cases)
        r.solver_s = round(clock.solver_s - s0, 3)
        r.wall_s = round(time.time() - t0, 3)
        results.append(r)
    for r in results:
        r.queries = clock.queries
    results[0].wall_s = round(time.time() - t_start, 3)
    return results


def native_crosscheck(problem: ShapeProblem, sizes, base, ob):
    """Differential check of the symbolic size expressions of the explored cases against the real kernels (guards the
    'meta kernels == real kernels' assumption and the sympy->z3->int evaluation chain)."""
    t0 = time.time()
    n, bad = 0, None
    names = problem.names
    dyn_names = [n_ for i, n_ in enumerate(names) if i not in problem.channels]
    for vals_t in sizes:
        vals = dict(zip(dyn_names, vals_t))
        hit = None
        for run, region, zmap, example in problem.cases or []:
            s = z3.Solver()
            s.add(region, *[problem.zv[k] == v for k, v in vals.items()])
            if s.check() == z3.sat:
                hit = run
                break
        if hit is None:
            if bad is None:
                bad = {"input": vals, "problem": "no explored guard case contains this admissible size"}
            continue
        sv = {d: vals[nm] for d, nm in zip(hit.in_dims, names) if isinstance(d, sympy.Symbol)}
        pred = {k: tuple(sym_eval(e, sv) for e in shp) for k, shp in hit.outs.items()}
        real, in_shape = _native_shapes(problem, vals)
        n += 1
        if pred != real and bad is None:
            bad = {"input": list(in_shape), "symbolic": {k: list(v) for k, v in pred.items()}, "real": {k: list(v) for k, v in real.items()}}
    r = ObResult(ob=ob, engine="E3", backend="native", kind="bounded", **base)
    r.paths = n
    r.verdict = "discharged" if bad is None else "error"
    r.detail = f"bounded: symbolic size expressions of the matching guard case, evaluated at {n} concrete sizes, equal the shapes the real kernels produce on real tensors" if bad is None else f"engine fault: FakeTensor shape differs from the real kernel: {bad}"
    r.witness = bad
    r.wall_s = round(time.time() - t0, 3)
    return r


def bounded_shapes(problem: ShapeProblem, sizes, base, ob_prefix, reason):
    """Fallback for forwards that defeat FakeTensorMode/ShapeEnv: the same clauses evaluated on the real module at listed sizes."""
    out = []
    names = problem.names
    dyn_names = [n_ for i, n_ in enumerate(names) if i not in problem.channels]
    for cname, cfn in problem.clauses.items():
        t0 = time.time()
        r = ObResult(ob=f"{ob_prefix}/{cname}", engine="E3", backend="native", kind="bounded", **base)
        n, bad = 0, None
        for vals_t in sizes:
            vals = dict(zip(dyn_names, vals_t))
            try:
                shapes, in_shape = _native_shapes(problem, vals)
                pairs = cfn(shapes, _dims_from(names, problem.channels, vals))
                mism = [(a, b) for a, b in pairs if a != b]
            except Exception as e:
                mism = [(f"{type(e).__name__}: {str(e)[:200]}", "runs")]
                shapes, in_shape = {}, tuple(vals.values())
            n += 1
            if mism and bad is None:
                bad = dict(vals, input_shape=list(in_shape), observed={k: list(v) for k, v in shapes.items()}, mismatch=[[str(a), str(b)] for a, b in mism][:4])
        r.paths = n
        r.verdict = "discharged" if bad is None else "refuted"
        r.witness = bad
        r.replay_confirmed = True if bad else None
        r.detail = f"bounded ({n} sizes) because: {reason}" + (f" | FAILS at {bad}" if bad else "")
        r.wall_s = round(time.time() - t0, 3)
        out.append(r)
    return out


# ------------------------------------------------------------------------------------------------
# reading the architecture from the real module
# ------------------------------------------------------------------------------------------------


def stride2_stages(stages):
    """stages: the real modules on the encoder's main path, in order.  Returns (L, description, problems)."""
    L, desc, problems = 0, [], []
    for i, st in enumerate(stages):
        if st is None:
            continue
        strides = []
        for m in st.modules():
            if isinstance(m, (torch.nn.Conv2d, torch.nn.ConvTranspose2d)):
                s = tuple(m.stride)
                if s not in ((1, 1), (2, 2)):
                    problems.append(f"stage {i}: conv stride {s} is neither 1 nor 2")
                if s != (1, 1):
                    strides.append(s)
            if isinstance(m, (torch.nn.MaxPool2d, torch.nn.AvgPool2d, torch.nn.Upsample, torch.nn.PixelUnshuffle)):
                problems.append(f"stage {i}: resampling layer {type(m).__name__} not covered by the stride reader")
        if strides:
            L += 1
            desc.append(f"{i}:{type(st).__name__}")
    return L, desc, problems


# =================================================================================================
# calculate_num_filters_factor_image: symbolic evaluation of the real source (straight-line arithmetic)
# =================================================================================================


class _Ret(Exception):
    def __init__(self, v):
        self.v = v


class MiniSym:
    """Symbolic evaluator for a straight-line arithmetic function: the function's AST is re-read from the real source on
    every run; names are bound to z3 Real terms / python constants; ``assert e.is_integer()`` becomes a recorded
    assertion; ``int(e)`` under that assertion is e.  Floats are treated as reals (DESIGN 4.1)."""

    def __init__(self, fn, bindings):
        src = textwrap.dedent(inspect.getsource(fn))
        self.fdef = ast.parse(src).body[0]
        self.env = dict(bindings)
        self.asserts = []  # z3 terms asserted to be integers
        self.ret = None

    def run(self):
        try:
            self.block(self.fdef.body)
        except _Ret as r:
            self.ret = r.v
        return self.ret

    def block(self, stmts):
        for st in stmts:
            if isinstance(st, ast.Expr) and isinstance(st.value, ast.Constant):
                continue
            if isinstance(st, ast.Assign) and len(st.targets) == 1 and isinstance(st.targets[0], ast.Name):
                self.env[st.targets[0].id] = self.ev(st.value)
            elif isinstance(st, ast.AugAssign) and isinstance(st.target, ast.Name):
                self.env[st.target.id] = self.binop(st.op, self.env[st.target.id], self.ev(st.value))
            elif isinstance(st, ast.If):
                c = self.ev(st.test)
                if not isinstance(c, bool):
                    raise Untranslatable("symbolic branch condition")
                self.block(st.body if c else st.orelse)
            elif isinstance(st, ast.Assert):
                t = st.test
                if isinstance(t, ast.Call) and isinstance(t.func, ast.Attribute) and t.func.attr == "is_integer":
                    self.asserts.append(self.ev(t.func.value))
                else:
                    raise Untranslatable("assert form")
            elif isinstance(st, ast.Return):
                raise _Ret(self.ev(st.value))
            else:
                raise Untranslatable(f"statement {type(st).__name__}")

    def binop(self, op, a, b):
        if isinstance(op, ast.Mult):
            return a * b
        if isinstance(op, ast.Add):
            return a + b
        if isinstance(op, ast.Sub):
            return a - b
        if isinstance(op, ast.Pow):
            if isinstance(a, int) and isinstance(b, int):
                return a**b
            raise Untranslatable("symbolic power")
        raise Untranslatable(f"operator {type(op).__name__}")

    def ev(self, e):
        if isinstance(e, ast.Constant):
            return e.value
        if isinstance(e, ast.Name):
            return self.env[e.id]
        if isinstance(e, ast.BinOp):
            return self.binop(e.op, self.ev(e.left), self.ev(e.right))
        if isinstance(e, ast.Call) and isinstance(e.func, ast.Name) and e.func.id == "int" and len(e.args) == 1:
            v = self.ev(e.args[0])
            if any(v is a or (z3.is_expr(v) and z3.is_expr(a) and v.eq(a)) for a in self.asserts):
                return v  # int() of a value asserted integral is that value
            raise Untranslatable("int() of a value not asserted integral")
        raise Untranslatable(f"expression {ast.dump(e)[:80]}")


# =================================================================================================
# AST taint analysis: "no detach on the signal path"
# =================================================================================================

META_ATTRS = {"shape", "dtype", "device", "ndim", "is_cuda", "requires_grad", "layout", "is_leaf", "grad_fn", "names", "is_sparse", "is_quantized", "is_meta"}
META_METHODS = {"dim", "numel", "size", "ndimension", "is_complex", "is_floating_point", "get_device", "element_size", "stride", "nelement", "is_contiguous", "type_as_meta", "data_ptr", "storage_offset"}
SINK_METHODS = {
    "detach": "detach() cuts the autograd graph",
    "detach_": "detach_() cuts the autograd graph",
    "item": ".item() converts to a Python number (no gradient)",
    "numpy": ".numpy() leaves autograd",
    "tolist": ".tolist() converts to Python numbers (no gradient)",
    "long": "integer cast (no gradient)",
    "int": "integer cast (no gradient)",
    "short": "integer cast (no gradient)",
    "byte": "integer cast (no gradient)",
    "char": "integer cast (no gradient)",
}
LIKE_FUNCS = {"randn_like", "rand_like", "zeros_like", "ones_like", "empty_like", "full_like", "randint_like"}
META_FUNCS = {"is_complex", "is_tensor", "is_floating_point", "numel", "is_grad_enabled", "get_default_dtype", "device", "finfo", "iinfo"}
REWRAP_FUNCS = {"tensor", "as_tensor", "Tensor", "FloatTensor", "DoubleTensor", "from_numpy", "array", "asarray", "scalar_tensor"}
MODULE_NAMES = {"torch", "np", "numpy", "F", "math", "nn"}
NOGRAD_CTX = {"no_grad", "inference_mode"}
PY_CONVERT = {"float", "int", "complex"}
PY_META = {"len", "isinstance", "type", "callable", "hasattr", "print", "range", "str", "repr", "id", "bool"}
INT_DTYPES = {"int8", "int16", "int32", "int64", "long", "int", "short", "uint8", "bool"}


@dataclasses.dataclass
class Finding:
    file: str
    line: int
    func: str
    what: str
    code: str

    def __str__(self):
        return f"{self.file}:{self.line} in {self.func}: {self.what}: `{self.code}`"


class TaintAnalysis:
    """Flow-insensitive intra-procedural taint analysis over the AST of the real source, followed through calls to other
    kaira functions (methods of the concrete class resolved through its MRO, module globals) up to ``max_depth``.

    taint = "value is a tensor/number computed from the forward input's VALUES".  Shapes/dtypes/devices are not taint.
    Limits (stated on the obligation): no alias analysis (in-place writes through detached aliases are not seen), no
    tracking of control dependence (comparisons produce masks/branches = the kinks the property excludes), torch
    operations are assumed to be autograd-recording, user-supplied callables are assumed to propagate taint, loops
    are handled by the fixpoint (flow-insensitive).  ``isinstance(v, torch.Tensor)`` tests refine v in their branches:
    a tainted non-Tensor can only come from a conversion that is itself flagged.
    """

    def __init__(self, repo_prefix=("kaira",), max_depth=3, extra_modules=()):
        self.findings = []
        self.cache = {}
        self.max_depth = max_depth
        self.followed = []
        self.notes = []
        self.not_followed = []
        self.prefix = tuple(repo_prefix)
        self.extra_modules = tuple(extra_modules)

    # -- entry ------------------------------------------------------------------------------------
    def analyze(self, fn, tainted_params, cls=None, depth=0):
        fn = inspect.unwrap(fn)
        key = (fn, frozenset(tainted_params), cls)
        if key in self.cache:
            return self.cache[key]
        self.cache[key] = True  # recursion guard: assume tainted result
        try:
            src, first = inspect.getsourcelines(fn)
            file = inspect.getsourcefile(fn) or "?"
        except (OSError, TypeError):
            self.not_followed.append(getattr(fn, "__qualname__", str(fn)))
            return True
        tree = ast.parse(textwrap.dedent("".join(src)))
        fdef = tree.body[0]
        fa = _FuncTaint(self, fn, fdef, file, first, set(tainted_params), cls, depth)
        ret = fa.run()
        self.followed.append(f"{fn.__qualname__}({','.join(sorted(tainted_params))})")
        self.cache[key] = ret
        return ret

    def is_kaira(self, fn):
        mod = getattr(fn, "__module__", "") or ""
        return mod.startswith(self.prefix) or mod in self.extra_modules


class _FuncTaint:
    def __init__(self, ta, fn, fdef, file, first, tainted, cls, depth):
        self.ta, self.fn, self.fdef, self.file, self.first = ta, fn, fdef, file, first
        self.tainted = set(tainted)
        self.cls, self.depth = cls, depth
        self.record = False
        self.ret = False
        self.nested = {}
        self.nograd = 0
        self.src_lines = None
        for dec in fdef.decorator_list:
            if any(n in ast.dump(dec) for n in NOGRAD_CTX) and tainted:
                self.ta.findings.append(Finding(file, first + dec.lineno - 1, fn.__qualname__, "decorator disables autograd for a function of the signal", ast.unparse(dec)))

    def run(self):
        for _ in range(12):
            before = (len(self.tainted), self.ret)
            self.block(self.fdef.body, frozenset())
            if (len(self.tainted), self.ret) == before:
                break
        self.record = True
        self.block(self.fdef.body, frozenset())
        return self.ret

    def flag(self, node, what):
        if not self.record:
            return
        f = Finding(self.file, self.first + node.lineno - 1, self.fn.__qualname__, what, ast.unparse(node)[:120])
        if not any(g.file == f.file and g.line == f.line and g.what == f.what for g in self.ta.findings):
            self.ta.findings.append(f)

    # -- statements -------------------------------------------------------------------------------
    def assign_to(self, target, t):
        if isinstance(target, ast.Name):
            if t:
                self.tainted.add(target.id)
        elif isinstance(target, (ast.Tuple, ast.List)):
            for e in target.elts:
                self.assign_to(e, t)
        elif isinstance(target, ast.Starred):
            self.assign_to(target.value, t)
        elif isinstance(target, ast.Subscript):
            self.assign_to(target.value, t)
        elif isinstance(target, ast.Attribute):
            if isinstance(target.value, ast.Name) and target.value.id == "self":
                if t:
                    self.tainted.add(f"self.{target.attr}")
            else:
                self.assign_to(target.value, t)

    def refinements(self, test):
        """names known to be non-Tensor in (body, orelse)"""
        body, orelse = set(), set()

        def isinst(c):
            if isinstance(c, ast.Call) and isinstance(c.func, ast.Name) and c.func.id == "isinstance" and len(c.args) == 2 and isinstance(c.args[0], ast.Name):
                ty = ast.unparse(c.args[1])
                return c.args[0].id, ("Tensor" in ty)
            return None

        if isinstance(test, ast.UnaryOp) and isinstance(test.op, ast.Not):
            r = isinst(test.operand)
            if r and r[1]:
                body.add(r[0])
        else:
            r = isinst(test)
            if r and r[1]:
                orelse.add(r[0])
            elif r and not r[1]:
                body.add(r[0])
            if isinstance(test, ast.BoolOp) and isinstance(test.op, ast.Or):
                rs = [isinst(v) for v in test.values]
                if all(x and not x[1] for x in rs) and len({x[0] for x in rs}) == 1:
                    body.add(rs[0][0])
        return frozenset(body), frozenset(orelse)

    def block(self, stmts, ref):
        for st in stmts:
            self.stmt(st, ref)

    def stmt(self, st, ref):
        if isinstance(st, ast.Assign):
            t = self.et(st.value, ref)
            self.nograd_use(st.value, t)
            for tg in st.targets:
                self.assign_to(tg, t)
                self.et_target(tg, ref)
        elif isinstance(st, ast.AnnAssign):
            if st.value is not None:
                t = self.et(st.value, ref)
                self.nograd_use(st.value, t)
                self.assign_to(st.target, t)
        elif isinstance(st, ast.AugAssign):
            t = self.et(st.value, ref)
            self.nograd_use(st.value, t)
            self.assign_to(st.target, t)
        elif isinstance(st, ast.If):
            self.et(st.test, ref)
            rb, ro = self.refinements(st.test)
            self.block(st.body, ref | rb)
            self.block(st.orelse, ref | ro)
        elif isinstance(st, (ast.For, ast.AsyncFor)):
            t = self.et(st.iter, ref)
            self.assign_to(st.target, t)
            self.block(st.body, ref)
            self.block(st.orelse, ref)
        elif isinstance(st, ast.While):
            self.et(st.test, ref)
            self.block(st.body, ref)
            self.block(st.orelse, ref)
        elif isinstance(st, (ast.With, ast.AsyncWith)):
            ng = False
            for it in st.items:
                d = ast.dump(it.context_expr)
                if any(f"attr='{n}'" in d or f"id='{n}'" in d for n in NOGRAD_CTX) or ("set_grad_enabled" in d and "False" in d):
                    ng = True
                else:
                    t = self.et(it.context_expr, ref)
                    if it.optional_vars is not None:
                        self.assign_to(it.optional_vars, t)
            self.nograd += ng
            self.block(st.body, ref)
            self.nograd -= ng
        elif isinstance(st, ast.Return):
            if st.value is not None:
                t = self.et(st.value, ref)
                self.nograd_use(st.value, t)
                self.ret = self.ret or t
        elif isinstance(st, ast.Expr):
            t = self.et(st.value, ref)
            self.nograd_use(st.value, t)
        elif isinstance(st, ast.Try):
            self.block(st.body, ref)
            for h in st.handlers:
                self.block(h.body, ref)
            self.block(st.orelse, ref)
            self.block(st.finalbody, ref)
        elif isinstance(st, (ast.FunctionDef, ast.AsyncFunctionDef)):
            # nested function: parameters are conservatively tainted, closure names keep their taint
            sub = _FuncTaint(self.ta, self.fn, st, self.file, self.first, self.tainted | {a.arg for a in st.args.args}, self.cls, self.depth)
            sub.first = self.first
            sub.record = self.record
            sub.block(st.body, ref)
            if self.record is False:
                self.tainted |= set()
            self.nested[st.name] = sub.ret
        elif isinstance(st, (ast.Raise, ast.Assert)):
            for ch in ast.iter_child_nodes(st):
                if isinstance(ch, ast.expr):
                    self.et(ch, ref)
        elif isinstance(st, ast.Delete):
            pass
        elif isinstance(st, (ast.Pass, ast.Break, ast.Continue, ast.Import, ast.ImportFrom, ast.Global, ast.Nonlocal)):
            pass
        elif isinstance(st, ast.Match):
            self.et(st.subject, ref)
            for c in st.cases:
                self.block(c.body, ref)
        else:
            for ch in ast.iter_child_nodes(st):
                if isinstance(ch, ast.expr):
                    self.et(ch, ref)

    def nograd_use(self, node, t):
        if self.nograd and t:
            self.flag(node, "signal-dependent value computed under torch.no_grad()/inference_mode")

    def et_target(self, tg, ref):
        # evaluate index expressions of assignment targets for sinks
        if isinstance(tg, ast.Subscript):
            self.et(tg.slice, ref)
            self.et_target(tg.value, ref)

    # -- expressions ------------------------------------------------------------------------------
    def any_t(self, nodes, ref):
        r = False
        for n in nodes:
            r = self.et(n, ref) or r
        return r

    def et(self, e, ref):
        if e is None:
            return False
        if isinstance(e, ast.Name):
            return e.id in self.tainted and e.id not in ref
        if isinstance(e, ast.Constant):
            return False
        if isinstance(e, ast.Attribute):
            if isinstance(e.value, ast.Name) and e.value.id == "self":
                return f"self.{e.attr}" in self.tainted
            tv = self.et(e.value, ref)
            if e.attr == "data" and tv:
                self.flag(e, ".data bypasses autograd")
                return True
            if e.attr in META_ATTRS:
                return False
            return tv
        if isinstance(e, ast.Subscript):
            tv = self.et(e.value, ref)
            self.et(e.slice, ref)
            return tv
        if isinstance(e, ast.Call):
            return self.call(e, ref)
        if isinstance(e, ast.BinOp):
            a = self.et(e.left, ref)
            b = self.et(e.right, ref)
            return a or b
        if isinstance(e, ast.UnaryOp):
            return self.et(e.operand, ref)
        if isinstance(e, ast.BoolOp):
            return self.any_t(e.values, ref)
        if isinstance(e, ast.Compare):
            self.et(e.left, ref)
            self.any_t(e.comparators, ref)
            return False  # masks / branch conditions: control dependence is not tracked (kinks)
        if isinstance(e, ast.IfExp):
            self.et(e.test, ref)
            a = self.et(e.body, ref)
            b = self.et(e.orelse, ref)
            return a or b
        if isinstance(e, (ast.Tuple, ast.List, ast.Set)):
            return self.any_t(e.elts, ref)
        if isinstance(e, ast.Dict):
            return self.any_t([v for v in e.values if v is not None], ref)
        if isinstance(e, (ast.ListComp, ast.SetComp, ast.GeneratorExp, ast.DictComp)):
            for g in e.generators:
                t = self.et(g.iter, ref)
                self.assign_to(g.target, t)
                self.any_t(g.ifs, ref)
            if isinstance(e, ast.DictComp):
                return self.et(e.value, ref)
            return self.et(e.elt, ref)
        if isinstance(e, ast.Starred):
            return self.et(e.value, ref)
        if isinstance(e, ast.JoinedStr):
            for v in e.values:
                if isinstance(v, ast.FormattedValue):
                    self.et(v.value, ref)
            return False
        if isinstance(e, ast.Lambda):
            return self.et(e.body, ref)
        if isinstance(e, ast.NamedExpr):
            t = self.et(e.value, ref)
            self.assign_to(e.target, t)
            return t
        if isinstance(e, ast.Slice):
            self.any_t([x for x in (e.lower, e.upper, e.step) if x is not None], ref)
            return False
        if isinstance(e, ast.Await):
            return self.et(e.value, ref)
        return self.any_t([c for c in ast.iter_child_nodes(e) if isinstance(c, ast.expr)], ref)

    def call(self, e, ref):
        args = list(e.args) + [k.value for k in e.keywords]
        f = e.func
        if isinstance(f, ast.Attribute):
            m = f.attr
            recv = f.value
            # module functions: torch.xxx / np.xxx / math.xxx
            if isinstance(recv, ast.Name) and recv.id in MODULE_NAMES and recv.id not in self.tainted:
                if m in LIKE_FUNCS:
                    return self.any_t(args[1:], ref)
                if m in META_FUNCS:
                    self.any_t(args, ref)
                    return False
                ta = self.any_t(args, ref)
                if m in REWRAP_FUNCS and ta:
                    self.flag(e, f"{recv.id}.{m}(...) re-wraps a signal-dependent value as a new leaf (gradient lost)")
                    return True
                if recv.id == "math" and ta:
                    self.flag(e, f"math.{m} forces a Python float conversion of a signal-dependent value")
                    return True
                return ta
            if isinstance(recv, ast.Name) and recv.id == "self":
                ta_list = [self.et(a, ref) for a in args]
                target = self.resolve_method(m)
                if target is not None:
                    fn, skip_self = target
                    return self.follow(fn, e, ref, skip_self)
                if f"self.{m}" in self.tainted:
                    return True
                return any(ta_list)
            rt = self.et(recv, ref)
            ta = self.any_t(args, ref)
            if rt and m in SINK_METHODS:
                self.flag(e, SINK_METHODS[m])
                return True
            if rt and m in ("to", "type") and any(any(d in ast.unparse(a).split(".")[-1:] for d in INT_DTYPES) for a in args):
                self.flag(e, "integer cast (no gradient)")
                return True
            if rt and self.record and (m in ("float", "half", "bfloat16") or (m in ("to", "type") and any(d in ast.unparse(a) for a in args for d in ("float32", "float16", "bfloat16", "torch.float)", "torch.half")))):
                note = f"{self.file.split('/kaira/')[-1]}:{self.first + e.lineno - 1} precision downcast of a signal-dependent value: `{ast.unparse(e)[:80]}` (differentiable, but quantises the value)"
                if note not in self.ta.notes:
                    self.ta.notes.append(note)
            if rt and m == "requires_grad_" and args and ast.unparse(args[0]) == "False":
                self.flag(e, "requires_grad_(False) on a signal-dependent value")
                return True
            if m in META_METHODS:
                return False
            return rt or ta
        if isinstance(f, ast.Name):
            name = f.id
            if name in PY_CONVERT:
                ta = self.any_t(args, ref)
                if ta:
                    self.flag(e, f"{name}() converts a signal-dependent value to a Python number (no gradient)")
                return ta
            if name in PY_META:
                self.any_t(args, ref)
                return False
            if name in self.nested:
                ta = self.any_t(args, ref)
                return ta or self.nested[name]
            g = getattr(self.fn, "__globals__", {}).get(name)
            if inspect.isfunction(g) and self.ta.is_kaira(g) and name not in self.tainted:
                return self.follow(g, e, ref, False)
            return self.any_t(args, ref) or (name in self.tainted and name not in ref)
        tf = self.et(f, ref)
        return self.any_t(args, ref) or tf

    def resolve_method(self, name):
        if self.cls is None:
            return None
        try:
            static = inspect.getattr_static(self.cls, name)
        except AttributeError:
            return None
        if isinstance(static, staticmethod):
            fn, skip = static.__func__, False
        elif isinstance(static, classmethod):
            fn, skip = static.__func__, True
        elif inspect.isfunction(static):
            fn, skip = static, True
        else:
            return None
        if not self.ta.is_kaira(fn):
            return None
        return fn, skip

    def follow(self, fn, call, ref, skip_self):
        """map the call's tainted arguments to the callee's parameters and analyse the callee"""
        try:
            src = textwrap.dedent(inspect.getsource(fn))
            fdef = ast.parse(src).body[0]
        except (OSError, TypeError, SyntaxError):
            return self.any_t(list(call.args) + [k.value for k in call.keywords], ref)
        params = [a.arg for a in fdef.args.posonlyargs + fdef.args.args]
        if skip_self and params:
            params = params[1:]
        tainted = set()
        pos = 0
        for a in call.args:
            t = self.et(a, ref)
            if isinstance(a, ast.Starred):
                if t and fdef.args.vararg is not None:
                    tainted.add(fdef.args.vararg.arg)
                continue
            if pos < len(params):
                if t:
                    tainted.add(params[pos])
            elif t and fdef.args.vararg is not None:
                tainted.add(fdef.args.vararg.arg)
            pos += 1
        kwnames = set(params) | {a.arg for a in fdef.args.kwonlyargs}
        for k in call.keywords:
            t = self.et(k.value, ref)
            if not t:
                continue
            if k.arg is not None and k.arg in kwnames:
                tainted.add(k.arg)
            elif fdef.args.kwarg is not None:
                tainted.add(fdef.args.kwarg.arg)
        if self.depth + 1 > self.ta.max_depth:
            self.ta.not_followed.append(fn.__qualname__)
            return bool(tainted)
        if not tainted:
            return False  # a function of configuration only may use item()/float()/tensor()
        return self.ta.analyze(fn, tainted, cls=self.cls if skip_self else None, depth=self.depth + 1)


def taint_check_forward(cls, param=None, max_depth=3, extra_modules=()):
    """Analyse cls.forward with its first tensor parameter tainted.  Returns (findings, analysis)."""
    fwd = inspect.getattr_static(cls, "forward") if "forward" in cls.__dict__ else getattr(cls, "forward")
    fwd = inspect.unwrap(fwd)
    names = list(inspect.signature(fwd).parameters)
    p = param or names[1]
    ta = TaintAnalysis(max_depth=max_depth, extra_modules=extra_modules)
    ta.analyze(fwd, {p}, cls=cls)
    return ta.findings, ta


# =================================================================================================
# autograd: graph reachability, Jacobian vs finite differences
# =================================================================================================


def leaf_reachable(out, leaf):
    """walk the real autograd graph from out.grad_fn; True iff the AccumulateGrad node of `leaf` is reachable.  Returns (bool, #nodes)."""
    if out.grad_fn is None:
        return False, 0
    seen, stack, found = set(), [out.grad_fn], False
    while stack:
        n = stack.pop()
        if n is None or n in seen:
            continue
        seen.add(n)
        if getattr(n, "variable", None) is leaf:
            found = True
        for nxt, _ in n.next_functions:
            if nxt is not None and nxt not in seen:
                stack.append(nxt)
    return found, len(seen)


def frozen(module, seed, **kw):
    """the wrapped function re-seeds the global RNG on every call: a fixed noise realisation"""

    def f(x):
        torch.manual_seed(seed)
        return module(x, **kw)

    return f


def jacobian_check(f, x, eps, atol, rtol):
    """central finite differences vs autograd, real view of complex tensors.  Returns (ok, max_abs_err, max_ref, where)."""
    x = x.detach().clone().requires_grad_(True)

    def realify(t):
        return torch.view_as_real(t).reshape(-1) if t.is_complex() else t.reshape(-1)

    def F(v):
        xx = torch.view_as_complex(v.reshape(*x.shape, 2)) if x.is_complex() else v.reshape(x.shape)
        return realify(f(xx))

    v0 = realify(x.detach()).clone()
    J = torch.autograd.functional.jacobian(F, v0, vectorize=False)
    n = v0.numel()
    Jn = torch.zeros_like(J)
    with torch.no_grad():
        for i in range(n):
            d = torch.zeros_like(v0)
            d[i] = eps
            Jn[:, i] = (F(v0 + d) - F(v0 - d)) / (2 * eps)
    err = (J - Jn).abs()
    tol = atol + rtol * Jn.abs()
    ok = bool((err <= tol).all()) and bool(torch.isfinite(J).all())
    idx = int(torch.argmax(err - tol))
    return ok, float(err.max()), float(Jn.abs().max()), (idx // n, idx % n, float(J.reshape(-1)[idx]), float(Jn.reshape(-1)[idx]))


def grad_report(model, loss):
    """after loss.backward(): per-parameter finiteness / non-vanishing.  Returns list of problems."""
    bad = []
    for name, p in model.named_parameters():
        if p.grad is None:
            bad.append(f"{name}: grad is None")
        elif not bool(torch.isfinite(p.grad).all()):
            bad.append(f"{name}: non-finite gradient")
        elif float(p.grad.abs().max()) == 0.0:
            bad.append(f"{name}: gradient identically zero")
    return bad


def fmt_exc(e, limit=6):
    return f"{type(e).__name__}: {str(e)[:300]} | {traceback.format_exc(limit=limit)[-500:]}"


def grid(*lists):
    return list(itertools.product(*lists))


def log2_exact(n):
    l = int(round(math.log2(n)))
    return l if 2**l == n else None
