"""Op-table additions for the constraints / metrics area (C08, C16): torch ops used by kaira.constraints / kaira.metrics that the
base table lacks.  (The scalar-interop and real-value-enumeration workarounds that lived here are now part of vk/sym.py / vk/explore.py.)
"""
from __future__ import annotations

import numpy as np
import torch

from . import sym as S
from .mode import Res, reg
from .tensor import SymTensor
from . import ops as _ops
from .mode import HANDLERS

T = torch.Tensor

# ------------------------------------------------------------------------------------------------
# |x| of a REAL symbolic value as the un-expanded square-root form sqrt(x*x) instead of If(x >= 0, x, -x): `torch.abs(x) ** 2`
# (PerAntennaPowerConstraint, measure_signal_properties, PAPRConstraint on real signals) then normalises to x*x exactly like the
# complex case, and comparisons between magnitudes compare radicands.  Opt-in (flag set by the contract around its calls): the
# default table entry is unchanged for everybody else.
ABS_AS_SQRT = [False]
_orig_abs = HANDLERS[torch.abs][0]


@reg(T.abs, torch.abs, T.__abs__, T.absolute, torch.absolute)
def _abs_cons(a):
    if ABS_AS_SQRT[0] and isinstance(a, torch.Tensor) and not a.dtype.is_complex:
        ar, _ = _ops.pl(a)
        return Res(_ops.ew1(lambda v: S.ssqrt(S.mul(v, v)) if isinstance(v, S.Sym) else abs(v), ar))
    return _orig_abs(a)


class abs_as_sqrt:
    def __enter__(self):
        self.prev = ABS_AS_SQRT[0]
        ABS_AS_SQRT[0] = True

    def __exit__(self, *a):
        ABS_AS_SQRT[0] = self.prev
        return False
