"""Op-table additions for the constraints / metrics area (C08, C16).

1. float()/int() of a real-sorted symbolic scalar with finitely many feasible values (value enumeration, like
   Explorer.decide_value does for integers).
2. torch ops used by kaira.constraints / kaira.metrics that the base table lacks (see below).
"""
from __future__ import annotations

import math

import numpy as np
import torch

from . import sym as S
from .mode import Res, reg
from .tensor import SymTensor


# ------------------------------------------------------------------------------------------------
# float()/int() of a real-sorted symbolic scalar with FINITELY many feasible values (e.g. `float(block_errors / n_blocks)`):
# enumerate the feasible values exactly like Explorer.decide_value does for integers (one path per value, the remaining values
# are scheduled with an exclusion list); an infinite value set hits the cap and stays Unsupported.
import z3  # noqa: E402
from fractions import Fraction  # noqa: E402


def _rv(v):
    v = Fraction(v)
    return z3.RealVal(f"{v.numerator}/{v.denominator}")


def _decide_real_value(ex, sym, cap=256):
    e = sym.e
    i = len(ex.trace)
    excluded = ()
    if i < len(ex.prefix):
        ent = ex.prefix[i]
        if isinstance(ent, tuple) and ent[0] == "val":
            v = ent[1]
            ex.trace.append(ent)
            c = e == _rv(v)
            ex.pc.append(c)
            ex.solver.add(c)
            return v
        if isinstance(ent, tuple) and ent[0] == "excl":
            excluded = ent[1]
        else:
            raise S.EngineFault("decision kind mismatch on re-execution")
    ex.solver.push()
    for x in excluded:
        ex.solver.add(e != _rv(x))
    r = ex.solver.check()
    if r == z3.unsat:
        ex.solver.pop()
        from .explore import PathInfeasible

        raise PathInfeasible()
    if r != z3.sat:
        ex.solver.pop()
        raise S.Unsupported("real value enumeration: solver returned unknown")
    mv = ex.solver.model().eval(e, model_completion=True)
    ex.solver.pop()
    if not z3.is_rational_value(mv):
        raise S.Unsupported("real value enumeration: non-rational model value")
    v = Fraction(mv.numerator_as_long(), mv.denominator_as_long())
    if len(excluded) >= cap:
        raise S.Unsupported(f"concretisation of a symbolic real value with more than {cap} feasible values")
    ex.todo.append(ex.trace + [("excl", tuple(excluded) + (v,))])
    ex.trace.append(("val", v))
    c = e == _rv(v)
    ex.pc.append(c)
    ex.solver.add(c)
    return v


def _patch_concretize():
    if getattr(S.Sym, "_cons_conc", False):
        return
    orig = S.Sym.concretize

    def concretize(self):
        if self.bx is None and self.lin is None and self.sort == "real":
            ex = S.explorer()
            if ex is None:
                raise S.EngineFault("concretisation outside an exploration")
            return S.norm(_decide_real_value(ex, self))
        return orig(self)

    S.Sym.concretize = concretize
    S.Sym._cons_conc = True


_patch_concretize()
