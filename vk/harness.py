"""Obligation harness: one contract body runs symbolically (all paths, z3) and natively (replay / stand-in)."""
from __future__ import annotations

import dataclasses
import math
import random
import time
import traceback
from fractions import Fraction

import numpy as np
import torch
import z3

from . import explore as X
from . import sym as S
from .mode import NativeRNGMode, SymMode
from . import ops as _ops  # noqa: F401  (registers the symbolic op table)
import importlib as _il
import os as _os
import pkgutil as _pk

for _m in sorted(_pk.iter_modules([_os.path.dirname(__file__)]), key=lambda m: m.name):
    if _m.name.startswith("ops_"):
        _il.import_module(f"vk.{_m.name}")  # additional op tables contributed per area
from .ops_mod2 import ensure_view_getitem as _evg

_evg()  # basic indexing returns views (torch semantics) whichever op table wrapped __getitem__ last
from .tensor import SymTensor, lift, oarr, payload

# ------------------------------------------------------------------------------------------------


@dataclasses.dataclass
class ObResult:
    prop: str
    ob: str
    config: str
    function: str
    engine: str = "E2"
    backend: str = "z3"
    kind: str = "proof"  # proof | ground | bounded
    verdict: str = "undecided"  # discharged | refuted | undecided | error
    paths: int = 0
    queries: int = 0
    solver_s: float = 0.0
    wall_s: float = 0.0
    witness: dict | None = None
    replay_confirmed: bool | None = None
    detail: str = ""
    source: dict | None = None

    def asdict(self):
        return dataclasses.asdict(self)


class Discard(BaseException):
    """native sample does not satisfy the precondition"""


class Outcome:
    def __init__(self, value=None, exc=None, unmodified=True):
        self.value = value
        self.exc = exc
        self.unmodified = unmodified

    @property
    def ok(self):
        return self.exc is None

    def raised(self, *types):
        return self.exc is not None and (not types or isinstance(self.exc, types))

    def __repr__(self):
        return f"Outcome(exc={self.exc!r})" if self.exc is not None else f"Outcome(value={type(self.value).__name__})"


def _copy_arg(a):
    if isinstance(a, SymTensor):
        c = SymTensor(a.re.copy(), None if a.im is None else a.im.copy(), a.dtype)
        return c
    if isinstance(a, torch.Tensor):
        return a.clone()
    if isinstance(a, (list, tuple)):
        return type(a)(_copy_arg(x) for x in a)
    if isinstance(a, dict):
        return {k: _copy_arg(v) for k, v in a.items()}
    return a


def _same_payload(a, b):
    """claim: tensors a and b carry identical payloads (used for the frame condition 'input not modified')"""
    if isinstance(a, torch.Tensor) and isinstance(b, torch.Tensor):
        (ar, ai), (br, bi) = payload(a), payload(b)
        if ar.shape != br.shape:
            return False
        acc = True
        for p, q in zip(ar.reshape(-1), br.reshape(-1)):
            if p is q:
                continue
            acc = S.land(acc, S.eq(p, q))
        if ai is not None and bi is not None:
            for p, q in zip(ai.reshape(-1), bi.reshape(-1)):
                if p is q:
                    continue
                acc = S.land(acc, S.eq(p, q))
        return acc
    if isinstance(a, (list, tuple)):
        acc = True
        for x, y in zip(a, b):
            acc = S.land(acc, _same_payload(x, y))
        return acc
    return True


class Ctx:
    """Context handed to a contract body.  mode: 'sym' | 'native'"""

    def __init__(self, mode, acc, ex=None, witness=None, rng=None, scale=3.0):
        self.mode = mode
        self.acc = acc  # shared accumulator across paths
        self.ex = ex
        self.witness = witness or {}
        self.rng = rng
        self.scale = scale
        self.vars = {}  # name -> (kind, shape, [z3 vars])
        self.calls = []
        self._warm_seen = set()
        self.claims = []  # native mode: (name, bool)
        self.drawn = {}
        self.rng_draws = []  # (name, law, tensor) for every torch.rand*/randn* call made by the code under contract

    # -- inputs -----------------------------------------------------------------------------------
    def _native_vals(self, name, n, sampler):
        if name in self.witness:
            vals = list(np.array(self.witness[name], dtype=object).reshape(-1)) if n != 1 or isinstance(self.witness[name], list) else [self.witness[name]]
            if len(vals) != n:
                raise S.EngineFault(f"witness for {name} has {len(vals)} values, expected {n}")
        else:
            if self.rng is None:
                vals = [0] * n  # input declared after the failing clause: irrelevant to it
            else:
                vals = [sampler(self.rng) for _ in range(n)]
        self.drawn[name] = vals
        return vals

    def bits(self, name, shape, dtype=torch.float32, sampler=None):
        shape = tuple(shape)
        n = int(np.prod(shape)) if shape else 1
        if self.mode == "sym":
            a = np.empty(n, dtype=object)
            zs = []
            for i in range(n):
                nm = f"{name}[{i}]"
                a[i] = S.Sym.boolvar(nm) if dtype == torch.bool else S.Sym.bit(nm)
                zs.append(z3.Bool(nm))
            self.vars[name] = ("bit", shape, zs)
            return SymTensor(a.reshape(shape), None, dtype)
        vals = self._native_vals(name, n, sampler or (lambda r: r.randint(0, 1)))
        return torch.tensor([int(v) for v in vals], dtype=torch.int64).reshape(shape).to(dtype)

    def reals(self, name, shape, dtype=torch.float32, sampler=None):
        shape = tuple(shape)
        n = int(np.prod(shape)) if shape else 1
        if self.mode == "sym":
            a = np.empty(n, dtype=object)
            zs = []
            for i in range(n):
                nm = f"{name}[{i}]"
                a[i] = S.Sym.real(nm)
                zs.append(z3.Real(nm))
            self.vars[name] = ("real", shape, zs)
            return SymTensor(a.reshape(shape), None, dtype)
        vals = self._native_vals(name, n, sampler or (lambda r: r.gauss(0, self.scale)))
        return torch.tensor([float(v) for v in vals], dtype=torch.float64).reshape(shape).to(dtype)

    def complexes(self, name, shape, dtype=torch.complex64, sampler=None):
        fdt = torch.float32 if dtype == torch.complex64 else torch.float64
        re = self.reals(name + ".re", shape, fdt, sampler)
        im = self.reals(name + ".im", shape, fdt, sampler)
        if self.mode == "sym":
            return SymTensor(re.re, im.re, dtype)
        return torch.complex(re, im)

    def ints(self, name, shape, lo, hi, dtype=torch.int64):
        shape = tuple(shape)
        n = int(np.prod(shape)) if shape else 1
        if self.mode == "sym":
            a = np.empty(n, dtype=object)
            zs = []
            for i in range(n):
                nm = f"{name}[{i}]"
                a[i] = S.Sym.int(nm)
                zs.append(z3.Int(nm))
                self.ex.assume(z3.And(z3.Int(nm) >= lo, z3.Int(nm) <= hi))
            self.vars[name] = ("int", shape, zs)
            return SymTensor(a.reshape(shape), None, dtype)
        vals = self._native_vals(name, n, lambda r: r.randint(lo, hi))
        return torch.tensor([int(v) for v in vals], dtype=torch.int64).reshape(shape).to(dtype)

    def scalar(self, name, kind="real", sampler=None):
        """a Python-level scalar (Sym in symbolic mode, float/int natively)"""
        if self.mode == "sym":
            if kind == "real":
                self.vars[name] = ("real", (), [z3.Real(name)])
                return S.Sym.real(name)
            if kind == "int":
                self.vars[name] = ("int", (), [z3.Int(name)])
                return S.Sym.int(name)
            self.vars[name] = ("bit", (), [z3.Bool(name)])
            return S.Sym.boolvar(name)
        v = self._native_vals(name, 1, sampler or (lambda r: abs(r.gauss(0, self.scale)) + 0.01))[0]
        return float(v) if kind == "real" else (int(v) if kind == "int" else bool(v))

    def tensor(self, values, dtype=torch.float32):
        """build a tensor from a payload array (object ndarray / nested list of scalars) in the current mode"""
        arr = np.asarray(values, dtype=object)
        if self.mode == "sym":
            return SymTensor(arr.copy(), None, dtype)
        flat = [float(v) for v in arr.reshape(-1)]
        return torch.tensor(flat, dtype=torch.float64).reshape(arr.shape).to(dtype)

    # -- RNG contract stub ---------------------------------------------------------------------------
    def draw(self, law, shape, dtype):
        """contract of torch.rand*/randn*: fresh, independent symbols; uniform: 0 <= u < 1; normal: any real (mean 0, variance 1).
        The draws are inputs of the obligation: quantified in symbolic mode, recorded in the witness, replayed natively."""
        k = len(self.rng_draws)
        name = f"rng{k}.{law}"
        if dtype.is_complex:
            fdt = torch.float32 if dtype == torch.complex64 else torch.float64
            re = self._draw_real(name + ".re", law, shape, fdt, scale=Fraction(1, 2))
            im = self._draw_real(name + ".im", law, shape, fdt, scale=Fraction(1, 2))
            if self.mode == "sym":
                t = SymTensor(re.re, im.re, dtype)
            else:
                t = torch.complex(re, im)
            self.rng_draws.append((name, law + ":complex", t))
            return t
        t = self._draw_real(name, law, shape, dtype, scale=1)
        self.rng_draws.append((name, law, t))
        return t

    def _draw_real(self, name, law, shape, dtype, scale=1):
        if law == "uniform":
            t = self.reals(name, shape, dtype, sampler=lambda r: r.random())
            if self.mode == "sym":
                for v in t.re.reshape(-1):
                    self.ex.assume(z3.And(v.e >= 0, v.e < 1))
            return t
        return self.reals(name, shape, dtype, sampler=lambda r: r.gauss(0, 1))

    # -- preconditions ----------------------------------------------------------------------------
    def assume(self, cond):
        if self.mode == "sym":
            self.ex.assume(cond)
        else:
            if isinstance(cond, torch.Tensor):
                cond = bool(cond)
            if not cond:
                raise Discard()

    # -- calling the code under contract ------------------------------------------------------------
    def call(self, fn, *args, **kw):
        # history: an object that the contract module used once natively before (codes.warm) carries the outcome of that earlier
        # call; it is a clause of every obligation that calls one of its methods
        owner = getattr(fn, "__self__", None)
        if owner is not None and hasattr(owner, "_vk_warm_exc") and id(owner) not in self._warm_seen:
            self._warm_seen.add(id(owner))
            self.ensure("earlier_call_with_another_batch_size_returned", owner._vk_warm_exc is None, note=owner._vk_warm_exc or "")
        a2 = _copy_arg(args)
        k2 = _copy_arg(kw)
        try:
            if self.mode == "sym":
                with SymMode(rng=self):
                    v = fn(*a2, **k2)
            else:
                with NativeRNGMode(self):
                    v = fn(*a2, **k2)
            out = Outcome(value=v)
        except Exception as e:  # exceptions of the code under contract are outcomes
            out = Outcome(exc=e)
        out.unmodified = S.land(_same_payload(args, a2), _same_payload(tuple(kw.values()), tuple(k2.values())))
        self.calls.append(out)
        return out

    def sym(self):
        """context manager running arbitrary code (e.g. constructors that must see symbolic data) symbolically"""
        return SymMode(rng=self) if self.mode == "sym" else NativeRNGMode(self)

    # -- postconditions -----------------------------------------------------------------------------
    def ensure(self, name, claim, note=""):
        if isinstance(claim, torch.Tensor):
            re, _ = payload(claim)
            c = True
            for v in re.reshape(-1):
                c = S.land(c, v if (isinstance(v, (bool, S.Sym))) else bool(v))
            claim = c
        if self.mode != "sym":
            if isinstance(claim, S.Sym):
                raise S.EngineFault("symbolic claim in native mode")
            self.claims.append((name, bool(claim), note))
            return
        ex = self.ex
        rec = self.acc.setdefault(name, {"paths": 0, "refuted": None, "unknown": 0, "nf": 0, "smt": 0, "note": note, "solver_s": 0.0})
        rec["paths"] += 1
        t0 = time.time()
        if isinstance(claim, S.Sym):
            cb = S.as_bool(claim)
        else:
            cb = bool(claim)
        if cb is True:
            rec["nf"] += 1
            return
        neg = z3.Not(cb) if not isinstance(cb, bool) else z3.BoolVal(True)
        ex.want_model = rec["refuted"] is None
        r = ex._check(neg)
        ex.want_model = False
        rec["solver_s"] += time.time() - t0
        if r == z3.unsat:
            rec["smt"] += 1
        elif r == z3.sat and (rec["refuted"] is not None or ex.last_model is not None):
            if rec["refuted"] is None:
                rec["refuted"] = self.extract(ex.last_model)
        else:
            rec["unknown"] += 1
            rec["reason"] = ex.solver.reason_unknown()

    def extract(self, model):
        w = {}
        for name, (kind, shape, zs) in self.vars.items():
            vals = []
            for zv in zs:
                v = model.eval(zv, model_completion=True)
                vals.append(_pyval(v))
            w[name] = vals if shape != () else vals[0]
        return w


class _Null:
    def __enter__(self):
        return self

    def __exit__(self, *a):
        return False


def _pyval(v):
    if z3.is_true(v):
        return 1
    if z3.is_false(v):
        return 0
    if z3.is_int_value(v):
        return v.as_long()
    if z3.is_rational_value(v):
        return Fraction(v.numerator_as_long(), v.denominator_as_long())
    if z3.is_algebraic_value(v):
        return Fraction(v.approx(20).as_fraction())
    raise S.EngineFault(f"cannot read model value {v}")


def _jsonable(w):
    def conv(v):
        if isinstance(v, Fraction):
            return float(v) if v.denominator != 1 else int(v)
        if isinstance(v, list):
            return [conv(x) for x in v]
        return v

    return {k: conv(v) for k, v in (w or {}).items()}


def _exact(w):
    """witness with exact fractions as strings for the replay file"""
    def conv(v):
        if isinstance(v, Fraction):
            return f"{v.numerator}/{v.denominator}" if v.denominator != 1 else int(v)
        if isinstance(v, list):
            return [conv(x) for x in v]
        return v

    return {k: conv(v) for k, v in (w or {}).items()}


def parse_witness(w):
    def conv(v):
        if isinstance(v, str) and "/" in v:
            a, b = v.split("/")
            return Fraction(int(a), int(b))
        if isinstance(v, list):
            return [conv(x) for x in v]
        return v

    return {k: conv(v) for k, v in (w or {}).items()}


# ------------------------------------------------------------------------------------------------
def run_native(body, cfg, witness=None, rng=None):
    """Run the contract body natively.  Returns list of (name, ok, note) or None if discarded."""
    ctx = Ctx("native", {}, witness=witness, rng=rng)
    try:
        body(ctx, cfg)
    except Discard:
        return None, ctx
    return ctx.claims, ctx


def run_symbolic(spec, cfg, max_paths=4096, solver_timeout_ms=20000, crosscheck=0, seed=0):
    """Explore all paths of spec.body symbolically.  Returns list[ObResult]."""
    acc = {}
    t0 = time.time()
    npaths = 0
    nq = 0
    solver_s = 0.0
    err = None
    # differential cross-check: native samples drawn first, matched against every path as it completes
    samples = []
    cc_fail = None
    if crosscheck:
        rng = random.Random(seed * 7919 + 17)
        tries = 0
        while len(samples) < crosscheck and tries < 20 * crosscheck:
            tries += 1
            try:
                claims, nctx = run_native(spec.body, cfg, rng=rng)
            except Exception as e:
                cc_fail = f"native run crashed: {type(e).__name__}: {e}"
                break
            if claims is not None:
                samples.append({"ctx": nctx, "matched": False})
    try:
        def body(ex):
            ctx = Ctx("sym", acc, ex=ex)
            spec.body(ctx, cfg)
            return ctx

        for ex, ctx in X.run_paths(body, max_paths=max_paths, solver_timeout_ms=solver_timeout_ms):
            npaths += 1
            nq += ex.nqueries
            solver_s += ex.solver_time
            for smp in samples:
                if not smp["matched"] and cc_fail is None:
                    r = cross_check_path(ex, ctx, smp["ctx"])
                    if r is True:
                        smp["matched"] = True
                    elif r == "unknown":
                        smp["unknown"] = True  # solver budget: this sample cannot be attributed to a path
                    elif r is not None:
                        cc_fail = r
    except S.Unsupported as e:
        err = ("unsupported", str(e))
    except X.PathBudget as e:
        err = ("budget", str(e))
    except S.EngineFault as e:
        err = ("fault", f"{e}\n{traceback.format_exc(limit=8)}")
    except Exception as e:
        err = ("fault", f"{type(e).__name__}: {e}\n{traceback.format_exc(limit=12)}")
    wall = time.time() - t0
    results = []
    base = dict(prop=spec.prop, config=str(cfg), function=spec.function, paths=npaths, queries=nq, wall_s=round(wall, 3))
    if err is not None and not any(rec["refuted"] for rec in acc.values()):
        results.append(ObResult(ob=spec.id, verdict="error" if err[0] == "fault" else "undecided", detail=f"{err[0]}: {err[1]}", backend="-", **base))
        return results
    if not acc:
        results.append(ObResult(ob=spec.id, verdict="error", detail="vacuous: no claim reached on any path", **base))
        return results
    for name, rec in acc.items():
        r = ObResult(ob=f"{spec.id}/{name}", solver_s=round(rec["solver_s"], 3), **base)
        r.backend = "normal-form" if rec["smt"] == 0 and rec["unknown"] == 0 and rec["refuted"] is None else "z3"
        if rec["refuted"] is not None:
            r.verdict = "refuted"
            r.witness = rec["refuted"]
            # native replay
            try:
                claims, _ = run_native(spec.body, cfg, witness=rec["refuted"])
                if claims is None:
                    r.replay_confirmed = False
                    r.detail = "native replay: witness rejected by the precondition"
                else:
                    bad = [c for c in claims if c[0] == name and not c[1]]
                    r.replay_confirmed = bool(bad)
                    if not bad:
                        r.detail = "native replay did not reproduce the failure (real-vs-float gap or engine discrepancy)"
            except Exception as e:
                r.replay_confirmed = False
                r.detail = f"native replay crashed: {type(e).__name__}: {e}"
        elif rec["unknown"] or err is not None:
            r.verdict = "undecided"
            r.detail = f"solver unknown on {rec['unknown']} path(s): {rec.get('reason','')}" if rec["unknown"] else f"{err[0]}: {err[1]}"
        else:
            r.verdict = "discharged"
        if rec.get("note"):
            r.detail = (r.detail + " | " if r.detail else "") + rec["note"]
        results.append(r)
    if crosscheck and err is None:
        inconclusive = [s_ for s_ in samples if not s_["matched"] and s_.get("unknown")]
        missed = [s_ for s_ in samples if not s_["matched"] and not s_.get("unknown")]
        if cc_fail is None and missed:
            cc_fail = f"no symbolic path covers native input {_jsonable(missed[0]['ctx'].drawn)}"
        if cc_fail is None and not samples:
            cc_fail = "cross-check could not draw any admissible input"
        nmatched = sum(1 for s_ in samples if s_["matched"])
        verdict = "error" if cc_fail is not None else ("discharged" if nmatched else "undecided")
        detail = cc_fail or f"{nmatched} random inputs: symbolic result == native result" + (f"; {len(inconclusive)} inconclusive (solver budget while matching the input to a path)" if inconclusive else "")
        results.append(ObResult(ob=f"{spec.id}/__crosscheck__", kind="crosscheck", verdict=verdict, detail=detail, backend="native", **base))
    return results


def _eval_payload(v, model):
    if isinstance(v, S.Sym):
        return _pyval(model.eval(v.e, model_completion=True))
    return v


def _tree_leaves(o, out):
    if isinstance(o, torch.Tensor):
        out.append(o)
    elif isinstance(o, (list, tuple)):
        for i in o:
            _tree_leaves(i, out)
    elif isinstance(o, dict):
        for i in o.values():
            _tree_leaves(i, out)
    elif isinstance(o, (S.Sym, bool, int, float, Fraction)):
        out.append(S.norm(o) if isinstance(o, float) and math.isfinite(o) else o)
    return out


_UF_EVAL = {
    "exp": math.exp,
    "log": math.log,
    "log2": math.log2,
    "log10": math.log10,
    "tanh": math.tanh,
    "atanh": math.atanh,
    "sigmoid": lambda v: 1 / (1 + math.exp(-v)),
    "sin": math.sin,
    "cos": math.cos,
}


def cross_check_path(ex, sctx, nctx):
    """If the native input of nctx satisfies this path's condition, compare outcomes.  True = matched and equal,
    None = this path does not cover the input, str = discrepancy."""
    drawn = nctx.drawn
    s = z3.Solver()
    s.set("timeout", 60000)
    for c in ex.sides + ex.assumes + ex.pc:
        s.add(c)
    for name, (kind, shape, zs) in sctx.vars.items():
        if name not in drawn:
            return None
        for zv, val in zip(zs, drawn[name]):
            if kind == "bit":
                s.add(zv == bool(int(val)))
            elif kind == "int":
                s.add(zv == int(val))
            else:
                fv = Fraction(float(val))  # the native run saw the float rounding of the drawn value
                s.add(zv == z3.RealVal(f"{fv.numerator}/{fv.denominator}"))
    r0 = s.check()
    if r0 == z3.unknown:
        return "unknown"
    if r0 != z3.sat:
        return None
    # uninterpreted real functions (exp/log/tanh/sigmoid/...): pin every recorded occurrence to the true function value at
    # the sampled input (occurrences are recorded in creation order, so arguments only depend on earlier ones)
    for name, occ in getattr(ex, "ufs", {}).items():
        f = _UF_EVAL.get(name)
        if f is None:
            continue
        for xa, ya in occ:
            if s.check() != z3.sat:
                return None
            xv = _pyval(s.model().eval(xa, model_completion=True))
            try:
                fv = Fraction(f(float(xv)))
            except (ValueError, OverflowError, ZeroDivisionError):
                continue
            tol = Fraction(1, 10**9) * max(1, abs(fv))
            s.add(ya >= z3.RealVal(f"{(fv - tol).numerator}/{(fv - tol).denominator}"), ya <= z3.RealVal(f"{(fv + tol).numerator}/{(fv + tol).denominator}"))
    if s.check() != z3.sat:
        return None
    m = s.model()
    if len(sctx.calls) != len(nctx.calls):
        return f"call count differs on input {_jsonable(drawn)}"
    for so, no in zip(sctx.calls, nctx.calls):
        if (so.exc is None) != (no.exc is None):
            return f"exception behaviour differs: symbolic {so!r} native {no!r} on {_jsonable(drawn)}"
        if so.exc is not None:
            if type(so.exc) is not type(no.exc):
                return f"exception type differs: {so.exc!r} vs {no.exc!r}"
            continue
        sl, nl = _tree_leaves(so.value, []), _tree_leaves(no.value, [])
        if len(sl) != len(nl):
            return "result structure differs"
        for a, b in zip(sl, nl):
            if isinstance(a, torch.Tensor) != isinstance(b, torch.Tensor):
                return "result leaf kind differs"
            if isinstance(a, torch.Tensor):
                if tuple(a.shape) != tuple(b.shape) or a.dtype != b.dtype:
                    return f"shape/dtype differ: {tuple(a.shape)},{a.dtype} vs {tuple(b.shape)},{b.dtype}"
                (ar, ai), (br, bi) = payload(a), payload(b)
                pairs = list(zip(ar.reshape(-1), br.reshape(-1)))
                if ai is not None:
                    pairs += list(zip(ai.reshape(-1), bi.reshape(-1)))
            else:
                pairs = [(a, S.norm(b) if not isinstance(b, S.Sym) else b)]
            for p, q in pairs:
                pv = _eval_payload(p, m)
                if isinstance(pv, float) or isinstance(q, float):
                    if not (isinstance(pv, float) and isinstance(q, float) and (pv == q or (math.isnan(pv) and math.isnan(q)))):
                        return f"value differs: symbolic {pv} native {q}"
                    continue
                if abs(Fraction(pv) - Fraction(q)) > Fraction(1, 2000) * max(1, abs(Fraction(q))):
                    return f"value differs: symbolic {float(pv)} native {float(q)} on input {_jsonable(drawn)}"
    return True


# ------------------------------------------------------------------------------------------------
@dataclasses.dataclass
class Spec:
    id: str
    prop: str
    function: str
    body: callable
    configs: callable  # tier -> list of config objects (str()-able, picklable)
    max_paths: int = 4096
    timeout_ms: int = 20000
    crosscheck: int = 2
    engine: str = "E2"
    kind: str = "proof"


REGISTRY = {}


def obligation(id, function, configs, **kw):
    prop = id.split(".")[0]

    def deco(body):
        REGISTRY[id] = Spec(id=id, prop=prop, function=function, body=body, configs=configs, **kw)
        return body

    return deco
