"""Additional symbolic ops for the channel / SNR area (C07, C13).

* `10 ** t`, `2 ** t`, `e ** t` with a SYMBOLIC exponent: uninterpreted `pow10` / `pow2` / `exp` applications (vk/ops.py raises
  Unsupported for a symbolic exponent).  Concrete exponents keep the float64 evaluation of vk/ops.py.
* axioms for pow10 / log10 are added per occurrence (quantifier free): positivity, value at 0 / 1, strict monotonicity (pairwise),
  inverse pair  pow10(a) == b  <=>  log10(b) == a  for every (pow10 occurrence, log10 occurrence) pair.
* optional memoisation of sqrt per path (function congruence: structurally identical radicands share one auxiliary variable);
  switched on by the contracts of C07/C13 only (ENABLE_SQRT_MEMO), it never changes a value, only the number of auxiliaries.
"""
from __future__ import annotations

import math

import torch
import z3

from . import sym as S
from .mode import Res, reg
from .ops import ew1, pl

T = torch.Tensor

ENABLE_SQRT_MEMO = [False]


# ------------------------------------------------------------------------------------------------ pow10 / log10 theory
def _occ(ex, name):
    d = ex.__dict__.setdefault("_chan_occ", {})
    return d.setdefault(name, [])


def note_pow10(x, y):
    """axioms for one occurrence y = pow10(x)"""
    ex = S.explorer()
    if ex is None:
        return
    ax = [y > 0, z3.Implies(x == 0, y == 1), z3.Implies(x > 0, y > 1), z3.Implies(x < 0, y < 1), z3.Implies(x == 1, y == 10), z3.Implies(x == -1, y == z3.RealVal("1/10"))]
    for x2, y2 in _occ(ex, "pow10"):
        ax += [z3.Implies(x < x2, y < y2), z3.Implies(x2 < x, y2 < y), z3.Implies(x == x2, y == y2)]
    for b, lb in ex.ufs.get("log10", []):
        # inverse pair: log10 occurrence lb = log10(b), b > 0
        ax += [z3.Implies(z3.And(b > 0, y == b), lb == x), z3.Implies(z3.And(b > 0, lb == x), y == b)]
    _occ(ex, "pow10").append((x, y))
    for a in ax:
        ex.add_side(a)


def link_log10(b, lb):
    """inverse-pair axioms between a log10 occurrence lb = log10(b) and every pow10 occurrence seen so far"""
    ex = S.explorer()
    if ex is None:
        return
    for x, y in _occ(ex, "pow10"):
        ex.add_side(z3.Implies(z3.And(b > 0, y == b), lb == x))
        ex.add_side(z3.Implies(z3.And(b > 0, lb == x), y == b))


def spow10(v):
    if not isinstance(v, S.Sym):
        return S.norm(10.0 ** float(v))
    f = S._uf("pow10")
    x = S.zreal(v)
    y = f(x)
    note_pow10(x, y)
    return S.Sym(y)


def slog10(v):
    """log10 with the inverse-pair link to pow10 occurrences (symbolic arguments); concrete: float64"""
    r = S.uf_apply("log10", v)
    if isinstance(v, S.Sym):
        link_log10(S.zreal(v), r.e)
    return r


def spow2(v):
    if not isinstance(v, S.Sym):
        return S.norm(2.0 ** float(v))
    raise S.Unsupported("2 ** symbolic")


@reg(T.__rpow__)
def _rpow(a, base):
    ar, ai = pl(a)
    if ai is not None:
        raise S.Unsupported("complex exponent")
    if base == 10:
        return Res(ew1(spow10, ar))
    if base == 2:
        return Res(ew1(spow2, ar))
    if base == math.e:
        return Res(ew1(lambda v: S.uf_apply("exp", v), ar))
    raise S.Unsupported(f"{base} ** tensor")


@reg(T.log10, torch.log10)
def _log10(a):
    ar, ai = pl(a)
    if ai is not None:
        raise S.Unsupported("complex log10")
    return Res(ew1(slog10, ar))


# ------------------------------------------------------------------------------------------------ sqrt memo
def msqrt(v):
    if not isinstance(v, S.Sym) or not ENABLE_SQRT_MEMO[0]:
        return S.ssqrt(v)
    ex = S.explorer()
    if ex is None:
        return S.ssqrt(v)
    memo = ex.__dict__.setdefault("_sqrt_memo", {})
    e = v.e
    key = e.get_id()
    hit = memo.get(key)
    if hit is not None and z3.eq(hit[0], e):
        return hit[1]
    r = S.ssqrt(v)
    memo[key] = (e, r)  # the expression is kept alive so that the id cannot be reused
    return r


@reg(T.sqrt, torch.sqrt)
def _sqrt(a):
    ar, ai = pl(a)
    if ai is not None:
        raise S.Unsupported("complex sqrt")
    return Res(ew1(msqrt, ar))
