"""Evidence metadata for C11 (polar encoding / SC and BP polar decoding)."""

META = {
    "level": "proof",
    "trusted_base": [
        "independent reading of kaira/models/fec/rank_polar.csv (plain text parse in contracts/c11.py:rank_table; anchored to the first 32 / last 6 entries of 3GPP TS 38.212 table 5.3.1.2-1, permutation of 0..1023, subset order) - the file itself is the ground truth for 'the 5G reliability ranking'",
        "specification of the Kronecker power as G[i][j] = [bits(j) subset of bits(i)] and of bit reversal (contracts/c11.py:kron_entry, bitrev)",
        "sc_textbook (contracts/c11.py): Arikan 2009 eqs. (75)-(76) per-bit LLR recursion with hard decisions LLR<0 => 1, frozen positions set to the frozen value; for the plain Kronecker-power generator the two sub-observations are the even/odd positions of y, for the bit-reversed generator the two halves",
        "vk/ops_soft.py piecewise mode: ite(c,k1,k2)*y == ite(c,k1*y,k2*y) and remainder of finite-valued terms evaluated per case (identities of real arithmetic, applied to the terms the real code builds)",
        "sum-product regime: tanh, atanh (vk.sym uninterpreted functions with sign/monotonicity axioms per occurrence) and the real product of the two tanh values (vk/ops_soft.py:rmul, uninterpreted with the sign and |x|<1 => |xy|<=|y| axioms of multiplication) - a claim proved for every interpretation obeying the axioms holds for the real functions",
    ],
    "assumptions": [
        "SC == textbook is stated for LLR vectors whose textbook decision LLRs are non-zero (sign(0) has no bit: the code returns 0.5) and whose textbook check-node messages do not exceed the decoder's clipping threshold (default clip=1000); C11.sc_no_saturation_lemma proves that |llr_i| <= clip/(N/2) implies the latter (min-sum). Outside that range the real decoder clips check-node outputs and can deviate from the textbook rule (witness N=8, k=4, |llr| ~ 1000)",
        "SC == textbook: N <= 8 quick (16 thorough), all k for N <= 8, frozen zeros/ones, interleaving on/off, one user mask per regime, batch size 1; noise-free SC: N <= 8 all k (common and per-position magnitudes), N = 16 for k <= 5 (quick) / k <= 8 (thorough); larger (k, N): bounded natively",
        "BP polar noise-free clause proved for N <= 4 with 1, 2 and 10 iterations and N = 8 with 1-2 iterations (min-sum), N <= 4 (1-2 iterations) and N = 8 (1 iteration) sum-product; early stopping and cyclic permutations only in the bounded stand-in",
        "float saturation of tanh (tanh(x/2) == 1.0 for large x, atanh(1) = inf then clipped) is outside the real-number model; covered natively at magnitudes 0.5..100",
        "encoder: batch layouts (B, k) with B = 1..3 (forward rejects other ranks by its own shape assertion); N <= 16 all k, N = 32/64 selected k (quick); N <= 64 all k (thorough); ground checks of info set / generator up to N = 1024 (thorough)",
        "torch.round is modelled as floor(x + 1/2) (differs from round-half-even only at exact .5, reachable only when a BP decision LLR is exactly 0)",
    ],
    "out_of_reach": [
        "SuccessiveCancellationDecoder for N >= 32 and noise-free N = 16 with k > 8 (solver budget): bounded stand-in C11.decoders_native (N up to 1024, magnitudes 0.5..100, batch sizes 1..8, both regimes, SC against sc_textbook on random dyadic LLRs for N <= 32/64)",
        "BeliefPropagationPolarDecoder beyond N = 8 / 2 iterations, early_stop=True (data-dependent row selection) and perm='cycle': bounded stand-in on the (k, N <= 32 quick / 64 thorough, frozen, regime) grid",
    ],
}
