"""Ground kernel: exact GF(2) linear algebra on integer bitmasks (independent of torch and of /repo)."""
from __future__ import annotations

from math import comb


def rows_to_masks(M):
    """list of lists of 0/1 -> list of int bitmasks (bit j = column j)"""
    out = []
    for row in M:
        m = 0
        for j, v in enumerate(row):
            if int(v) % 2:
                m |= 1 << j
        out.append(m)
    return out


def is_binary(M):
    return all(v in (0, 1) for row in M for v in row)


def rref(masks):
    """reduced row echelon basis (list of masks, pivots = lowest set bit order)"""
    basis = []  # (pivot_bit, mask)
    for m in masks:
        for p, b in basis:
            if m >> p & 1:
                m ^= b
        if m:
            p = (m & -m).bit_length() - 1
            basis = [(q, b ^ m if b >> p & 1 else b) for q, b in basis]
            basis.append((p, m))
    basis.sort()
    return basis


def rank(masks):
    return len(rref(masks))


def in_span(basis, v):
    for p, b in basis:
        if v >> p & 1:
            v ^= b
    return v == 0


def gf2_mul_GHt(G, H):
    """G (k masks), H (r masks) -> True iff G.H^T = 0"""
    return all(bin(g & h).count("1") % 2 == 0 for g in G for h in H)


def syndrome(H, v):
    return [bin(h & v).count("1") % 2 for h in H]


def encode(G, msg_bits):
    c = 0
    for i, b in enumerate(msg_bits):
        if b:
            c ^= G[i]
    return c


def min_distance(G, n, limit_k=24):
    """Exact minimum distance of the row space of G (list of masks) by Gray-code enumeration; via the dual when cheaper."""
    basis = [b for _, b in rref(G)]
    k = len(basis)
    if k == 0:
        return None
    if k <= limit_k:
        best = n + 1
        c = 0
        for i in range(1, 1 << k):
            c ^= basis[((i & -i).bit_length() - 1)]
            w = bin(c).count("1")
            if w < best:
                best = w
                if best == 1:
                    break
        return best
    if n - k <= limit_k:
        wd = weight_distribution_via_dual(basis, n)
        for w in range(1, n + 1):
            if wd[w]:
                return w
    raise ValueError("code too large for exact enumeration")


def null_space(masks, n):
    """basis of {v : <m, v> = 0 for all m}"""
    basis = rref(masks)
    pivots = [p for p, _ in basis]
    free = [j for j in range(n) if j not in pivots]
    out = []
    for f in free:
        v = 1 << f
        for p, b in basis:
            if b >> f & 1:
                v |= 1 << p
        out.append(v)
    return out


def weight_distribution(basis, n):
    k = len(basis)
    A = [0] * (n + 1)
    c = 0
    A[0] = 1
    for i in range(1, 1 << k):
        c ^= basis[((i & -i).bit_length() - 1)]
        A[bin(c).count("1")] += 1
    return A


def weight_distribution_via_dual(basis, n):
    """MacWilliams: A_j = 2^-(n-k) sum_i B_i K_j(i), with B the dual's weight distribution"""
    k = len(basis)
    dual = null_space(basis, n)
    B = weight_distribution([b for _, b in rref(dual)], n)
    A = []
    for j in range(n + 1):
        s = 0
        for i, Bi in enumerate(B):
            if Bi:
                kr = sum((-1) ** l * comb(i, l) * comb(n - i, j - l) for l in range(0, j + 1))
                s += Bi * kr
        assert s % (1 << (n - k)) == 0
        A.append(s // (1 << (n - k)))
    return A


def cyclic_shift(v, n):
    return ((v << 1) & ((1 << n) - 1)) | (v >> (n - 1))


def bit_reverse(v, n):
    r = 0
    for j in range(n):
        if v >> j & 1:
            r |= 1 << (n - 1 - j)
    return r


# GF(2)[x] on bitmasks (independent re-implementation for cross-checks)
def pdeg(a):
    return a.bit_length() - 1


def pmul(a, b):
    r = 0
    while b:
        if b & 1:
            r ^= a
        a <<= 1
        b >>= 1
    return r


def pdivmod(a, b):
    if b == 0:
        raise ZeroDivisionError
    q = 0
    db = pdeg(b)
    while a and pdeg(a) >= db:
        s = pdeg(a) - db
        q |= 1 << s
        a ^= b << s
    return q, a


def pmod(a, b):
    return pdivmod(a, b)[1]


def pgcd(a, b):
    while b:
        a, b = b, pmod(a, b)
    return a
