"""Evidence metadata for C15 (one LLR polarity: positive = bit 0)."""

META = {
    "level": "proof",
    "trusted_base": [
        "sigmoid is uninterpreted with per-occurrence axioms (range (0,1), sigmoid(x) > 1/2 iff x > 0, sigmoid(0) = 1/2, strictly increasing pairwise) - vk.explore.note_uf",
        "noise-free producer clauses and the pairing clauses range over a finite domain (bits): symbolic bits through the real modulator and soft demodulator, or bits enumerated path-completely (every path runs the real kernels)",
        "C06 contracts give the sign of the LLR for arbitrary received points; here only noise-free points are used",
    ],
    "assumptions": [
        "LLR tensors of 3 and 2x2 elements, every element != 0",
        "FixedThresholder is used with threshold 0 in LLR mode; WeightedThresholder with unit weights and threshold 1/2; ensembles consist of convention-following members (LLRThresholder x2 + WeightedThresholder), votings majority / weighted / any / all",
        "AdaptiveThresholder: method='mean' only; contract = polarity (ones go to the smaller LLRs) + exact [llr<0] for two elements of opposite sign: its threshold is the batch mean, so out == [llr<0] does not hold for unbalanced batches of >= 3 elements even with the correct polarity (contract of DESIGN 7/C15 corrected, see report)",
        "DynamicThresholder (first call after reset): out == [llr<0] whenever sigmoid(-llr) is outside [0.45, 0.55] (range of the adapted threshold 0.45 + 0.1*mean) + polarity; HysteresisThresholder: outside its dead zone; inside, the output is the previous state (interpretation notes)",
        "pairing: 2 symbols of QPSK / 16-QAM, sigma^2 = 0.1, bit vectors with both values for AdaptiveThresholder",
        "obligations in which the VALUE of the uninterpreted sigmoid reaches the output run without the differential cross-check (the harness evaluates UF applications under an arbitrary model)",
        "DPSK/OQPSK producers: LLR t refers to the transmitted bit per C05 (DPSK: bits[b:], OQPSK: quadrature stream delayed by one symbol); modulators/demodulators in eval() mode, fresh objects",
    ],
    "out_of_reach": [
        "AdaptiveThresholder methods 'median' (torch.median) and 'otsu' (torch.histc) are outside the symbolic op table",
        "soft-input decoders as LLR consumers (Wagner, SC, BP, polar BP, soft RM, min-sum) are covered by C10/C11",
    ],
}
