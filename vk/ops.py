"""Symbolic op table: numpy-on-object-array implementations of the torch surface kaira uses.

Each handler receives the original arguments (SymTensor / real tensors / scalars) and returns `Res`
payloads; shapes and dtypes are taken from (and checked against) PyTorch's own meta kernels.
An operation that is not here raises `Unsupported` - the obligation is then out of reach.
"""
from __future__ import annotations

import math
import operator
from fractions import Fraction

import numpy as np
import torch

from . import sym as S
from .mode import Res, reg, regprop
from .tensor import SymTensor, as_oarr, lift, lower, oarr, payload

T = torch.Tensor


# ------------------------------------------------------------------------------------------------
# helpers
def _o(a):
    """ensure object ndarray (frompyfunc returns bare scalars for 0-d input)"""
    if isinstance(a, np.ndarray) and a.dtype == object:
        return a
    r = np.empty((), dtype=object)
    r[()] = a
    return r


def ew1(f, a):
    return _o(np.frompyfunc(f, 1, 1)(a))


def ew2(f, a, b):
    return _o(np.frompyfunc(f, 2, 1)(a, b))


def ew3(f, a, b, c):
    return _o(np.frompyfunc(f, 3, 1)(a, b, c))


def pl(x):
    """payload (re, im) of tensor or scalar"""
    if isinstance(x, S.Sym):
        return _o(x), None
    return payload(x)


def is_cplx(x):
    if isinstance(x, torch.Tensor):
        return x.dtype.is_complex
    return isinstance(x, complex)


def _zero_like(a):
    return oarr(a.shape, 0)


def _shape_arg(shape):
    if len(shape) == 1 and isinstance(shape[0], (tuple, list, torch.Size)):
        shape = tuple(shape[0])
    return tuple(int(s) for s in shape)


def _dtype_of(args, kwargs, default=None):
    dt = kwargs.get("dtype")
    if dt is not None:
        return dt
    for a in args:
        if isinstance(a, torch.dtype):
            return a
    return default


def _axis(dim, nd):
    return dim if dim >= 0 else dim + nd


def _idx(i):
    """Convert a torch index expression to a numpy one (index tensors must be concrete)."""
    if isinstance(i, tuple):
        return tuple(_idx(j) for j in i)
    if isinstance(i, SymTensor):
        if not i.is_concrete():
            raise _SymIndex()
        t = lower(i)
        return t.numpy()
    if isinstance(i, torch.Tensor):
        with torch._C.DisableTorchFunctionSubclass():
            return i.detach().numpy()
    if isinstance(i, S.Sym):
        raise _SymIndex()
    if isinstance(i, list):
        if any(isinstance(j, (S.Sym, SymTensor)) for j in i):
            return [int(j) if not isinstance(j, SymTensor) else int(lower(j)) for j in i]
        return i
    return i


class _SymIndex(Exception):
    pass


# ------------------------------------------------------------------------------------------------
# arithmetic (real and complex)
def _cadd(a, b):
    (ar, ai), (br, bi) = pl(a), pl(b)
    re = ew2(S.add, ar, br)
    if ai is None and bi is None:
        return Res(re)
    ai = _zero_like(ar) if ai is None else ai
    bi = _zero_like(br) if bi is None else bi
    return Res(re, ew2(S.add, ai, bi))


def _csub(a, b):
    (ar, ai), (br, bi) = pl(a), pl(b)
    re = ew2(S.sub, ar, br)
    if ai is None and bi is None:
        return Res(re)
    ai = _zero_like(ar) if ai is None else ai
    bi = _zero_like(br) if bi is None else bi
    return Res(re, ew2(S.sub, ai, bi))


def _cmul(a, b):
    (ar, ai), (br, bi) = pl(a), pl(b)
    if ai is None and bi is None:
        return Res(ew2(S.mul, ar, br))
    if ai is None:
        return Res(ew2(S.mul, ar, br), ew2(S.mul, ar, bi))
    if bi is None:
        return Res(ew2(S.mul, ar, br), ew2(S.mul, ai, br))
    re = ew2(S.sub, ew2(S.mul, ar, br), ew2(S.mul, ai, bi))
    im = ew2(S.add, ew2(S.mul, ar, bi), ew2(S.mul, ai, br))
    return Res(re, im)


def _cdiv(a, b):
    (ar, ai), (br, bi) = pl(a), pl(b)
    if bi is None:
        re = ew2(S.div, ar, br)
        return Res(re) if ai is None else Res(re, ew2(S.div, ai, br))
    ai = _zero_like(ar) if ai is None else ai
    den = ew2(S.add, ew2(S.mul, br, br), ew2(S.mul, bi, bi))
    re = ew2(S.div, ew2(S.add, ew2(S.mul, ar, br), ew2(S.mul, ai, bi)), den)
    im = ew2(S.div, ew2(S.sub, ew2(S.mul, ai, br), ew2(S.mul, ar, bi)), den)
    return Res(re, im)


def _alpha(b, kwargs):
    al = kwargs.get("alpha", 1)
    if al != 1:
        return _wrapres(_cmul(b, al))
    return b


def _wrapres(r):
    return SymTensor(r.re, r.im, torch.complex64 if r.im is not None else torch.float32)


@reg(T.add, T.__add__, T.__radd__, torch.add)
def _add(a, b, **kw):
    return _cadd(a, _alpha(b, kw))


@reg(T.sub, T.__sub__, torch.sub, torch.subtract, T.subtract)
def _sub(a, b, **kw):
    return _csub(a, _alpha(b, kw))


@reg(T.__rsub__, torch.rsub)
def _rsub(a, b, **kw):
    return _csub(b, a)


@reg(T.mul, T.__mul__, T.__rmul__, torch.mul, torch.multiply, T.multiply)
def _mul(a, b):
    return _cmul(a, b)


def _int_dtype(x):
    return isinstance(x, torch.Tensor) and not x.dtype.is_floating_point and not x.dtype.is_complex


@reg(T.div, T.__truediv__, torch.div, torch.true_divide, T.true_divide, torch.divide, T.divide)
def _div(a, b, rounding_mode=None):
    if rounding_mode == "floor":
        return _floordiv(a, b)
    if rounding_mode is not None:
        raise S.Unsupported("div rounding_mode=" + str(rounding_mode))
    return _cdiv(a, b)


@reg(T.__rtruediv__)
def _rdiv(a, b):
    return _cdiv(b, a)


@reg(T.__floordiv__, torch.floor_divide, T.floor_divide)
def _floordiv(a, b):
    (ar, _), (br, _) = pl(a), pl(b)
    return Res(ew2(S.floordiv, ar, br))


@reg(T.__rfloordiv__)
def _rfloordiv(a, b):
    return _floordiv(b, a)


@reg(T.__mod__, T.remainder, torch.remainder, T.fmod, torch.fmod)
def _mod(a, b):
    # fmod differs from remainder for negative operands; both agree on the non-negative data kaira feeds them.
    (ar, ai), (br, _) = pl(a), pl(b)
    if ai is not None:
        raise S.Unsupported("remainder of complex")
    return Res(ew2(S.mod, ar, br))


@reg(T.__rmod__)
def _rmod(a, b):
    return _mod(b, a)


@reg(T.neg, T.__neg__, torch.neg, torch.negative, T.negative)
def _neg(a):
    ar, ai = pl(a)
    f = lambda v: S.mul(-1, v)
    return Res(ew1(f, ar), None if ai is None else ew1(f, ai))


@reg(T.__pos__, T.positive, torch.positive)
def _pos(a):
    ar, ai = pl(a)
    return Res(ar.copy(), None if ai is None else ai.copy())


@reg(T.pow, T.__pow__, torch.pow)
def _pow(a, p):
    ar, ai = pl(a)
    if isinstance(p, torch.Tensor):
        pr, pi = pl(p)
        if pi is not None:
            raise S.Unsupported("complex exponent")
        if ai is not None:
            raise S.Unsupported("complex ** tensor")
        return Res(ew2(S.spow, ar, pr))
    if ai is not None:
        if p == 2:
            re = ew2(S.sub, ew2(S.mul, ar, ar), ew2(S.mul, ai, ai))
            im = ew1(lambda v: S.mul(2, v), ew2(S.mul, ar, ai))
            return Res(re, im)
        raise S.Unsupported("complex power")
    return Res(ew1(lambda v: S.spow(v, p), ar))


@reg(T.__rpow__)
def _rpow(a, base):
    ar, ai = pl(a)
    if ai is not None:
        raise S.Unsupported("complex exponent")
    if base == 10:
        return Res(ew1(lambda v: pow10(v), ar))
    if base == 2:
        return Res(ew1(lambda v: pow2(v), ar))
    if base == math.e:
        return Res(ew1(lambda v: S.uf_apply("exp", v), ar))
    raise S.Unsupported(f"{base} ** tensor")


def pow10(v):
    if not isinstance(v, S.Sym):
        return S.norm(10.0 ** float(v))
    raise S.Unsupported("10 ** symbolic")


def pow2(v):
    if not isinstance(v, S.Sym):
        return S.norm(2.0 ** float(v))
    raise S.Unsupported("2 ** symbolic")


@reg(T.square, torch.square)
def _square(a):
    return _pow(a, 2)


@reg(T.sqrt, torch.sqrt)
def _sqrt(a):
    ar, ai = pl(a)
    if ai is not None:
        raise S.Unsupported("complex sqrt")
    return Res(ew1(S.ssqrt, ar))


@reg(T.rsqrt, torch.rsqrt)
def _rsqrt(a):
    ar, ai = pl(a)
    return Res(ew1(lambda v: S.div(1, S.ssqrt(v)), ar))


@reg(T.reciprocal, torch.reciprocal)
def _recip(a):
    return _cdiv(1, a)


@reg(T.abs, torch.abs, T.__abs__, T.absolute, torch.absolute)
def _abs(a):
    ar, ai = pl(a)
    if ai is None:
        return Res(ew1(S.sabs, ar))
    return Res(ew2(lambda x, y: S.ssqrt(S.add(S.mul(x, x), S.mul(y, y))), ar, ai))


@reg(T.sign, torch.sign, T.sgn, torch.sgn)
def _sign(a):
    ar, ai = pl(a)
    if ai is not None:
        raise S.Unsupported("complex sign")
    return Res(ew1(S.ssign, ar))


@reg(T.round, torch.round)
def _round(a, decimals=0):
    if decimals:
        raise S.Unsupported("round(decimals)")
    ar, _ = pl(a)
    return Res(ew1(S.sround, ar))


@reg(T.floor, torch.floor)
def _floor(a):
    ar, _ = pl(a)
    return Res(ew1(S.sfloor, ar))


@reg(T.ceil, torch.ceil)
def _ceil(a):
    ar, _ = pl(a)
    return Res(ew1(lambda v: S.mul(-1, S.sfloor(S.mul(-1, v))), ar))


@reg(T.trunc, torch.trunc)
def _trunc(a):
    ar, _ = pl(a)
    return Res(ew1(S.strunc, ar))


def _uf1(name):
    def h(a):
        ar, ai = pl(a)
        if ai is not None:
            raise S.Unsupported(f"complex {name}")
        return Res(ew1(lambda v: S.uf_apply(name, v), ar))

    return h


for _n, _fs in {
    "exp": (T.exp, torch.exp),
    "log": (T.log, torch.log),
    "log2": (T.log2, torch.log2),
    "log10": (T.log10, torch.log10),
    "tanh": (T.tanh, torch.tanh),
    "atanh": (T.atanh, torch.atanh, T.arctanh, torch.arctanh),
    "sigmoid": (T.sigmoid, torch.sigmoid),
    "sin": (T.sin, torch.sin),
    "cos": (T.cos, torch.cos),
}.items():
    reg(*_fs)(_uf1(_n))


@reg(T.clamp, torch.clamp, T.clip, torch.clip)
def _clamp(a, min=None, max=None):
    ar, ai = pl(a)
    if ai is not None:
        raise S.Unsupported("complex clamp")
    r = ar
    if min is not None:
        mr, _ = pl(min)
        r = ew2(S.smax, r, mr)
    if max is not None:
        xr, _ = pl(max)
        r = ew2(S.smin, r, xr)
    return Res(r if r is not ar else ar.copy())


@reg(T.clamp_min, torch.clamp_min)
def _clamp_min(a, min):
    return _clamp(a, min=min)


@reg(T.clamp_max, torch.clamp_max)
def _clamp_max(a, max):
    return _clamp(a, max=max)


@reg(torch.maximum, T.maximum)
def _maximum(a, b):
    (ar, _), (br, _) = pl(a), pl(b)
    return Res(ew2(S.smax, ar, br))


@reg(torch.minimum, T.minimum)
def _minimum(a, b):
    (ar, _), (br, _) = pl(a), pl(b)
    return Res(ew2(S.smin, ar, br))


# ------------------------------------------------------------------------------------------------
# comparisons / logic
def _cmp(f, complex_ok=False):
    def h(a, b):
        (ar, ai), (br, bi) = pl(a), pl(b)
        if ai is not None or bi is not None:
            if not complex_ok:
                raise S.Unsupported("ordering of complex tensors")
            ai = _zero_like(ar) if ai is None else ai
            bi = _zero_like(br) if bi is None else bi
            return ew2(f, ar, br), ew2(f, ai, bi)
        return Res(ew2(f, ar, br))

    return h


@reg(T.eq, T.__eq__, torch.eq)
def _eq(a, b):
    (ar, ai), (br, bi) = pl(a), pl(b)
    r = ew2(S.eq, ar, br)
    if ai is not None or bi is not None:
        ai = _zero_like(ar) if ai is None else ai
        bi = _zero_like(br) if bi is None else bi
        r = ew2(S.land, r, ew2(S.eq, ai, bi))
    return Res(r)


@reg(T.ne, T.__ne__, torch.ne, T.not_equal, torch.not_equal)
def _ne(a, b):
    r = _eq(a, b)
    return Res(ew1(S.lnot, r.re))


reg(T.lt, T.__lt__, torch.lt, T.less, torch.less)(_cmp(S.lt))
reg(T.le, T.__le__, torch.le, T.less_equal, torch.less_equal)(_cmp(S.le))
reg(T.gt, T.__gt__, torch.gt, T.greater, torch.greater)(_cmp(lambda x, y: S.lt(y, x)))
reg(T.ge, T.__ge__, torch.ge, T.greater_equal, torch.greater_equal)(_cmp(lambda x, y: S.le(y, x)))


def _truthy(v):
    """value -> Bool scalar"""
    if isinstance(v, S.Sym):
        return v if v.sort == "bool" else S.ne(v, 0)
    return bool(v != 0) if not isinstance(v, bool) else v


def _is_boolt(x):
    return (isinstance(x, torch.Tensor) and x.dtype == torch.bool) or isinstance(x, bool)


@reg(T.__and__, T.__rand__, torch.bitwise_and, T.bitwise_and, torch.logical_and, T.logical_and)
def _and(a, b):
    (ar, _), (br, _) = pl(a), pl(b)
    if _is_boolt(a) and _is_boolt(b):
        return Res(ew2(S.land, ar, br))
    return Res(ew2(S.land, ar, br))


@reg(T.__or__, T.__ror__, torch.bitwise_or, T.bitwise_or, torch.logical_or, T.logical_or)
def _or(a, b):
    (ar, _), (br, _) = pl(a), pl(b)
    return Res(ew2(S.lor, ar, br))


@reg(T.__xor__, T.__rxor__, torch.bitwise_xor, T.bitwise_xor, torch.logical_xor, T.logical_xor)
def _xor(a, b):
    (ar, _), (br, _) = pl(a), pl(b)
    return Res(ew2(S.lxor, ar, br))


@reg(T.__invert__, torch.bitwise_not, T.bitwise_not)
def _invert(a):
    ar, _ = pl(a)
    if a.dtype == torch.bool:
        return Res(ew1(S.lnot, ar))
    return Res(ew1(lambda v: S.sub(S.mul(-1, v), 1), ar))


@reg(torch.logical_not, T.logical_not)
def _lognot(a):
    ar, _ = pl(a)
    return Res(ew1(lambda v: S.lnot(_truthy(v)), ar))


@reg(torch.where, T.where)
def _where(c, a=None, b=None):
    if a is None:
        raise S.Unsupported("where(cond) with one argument")
    (cr, _), (ar, ai), (br, bi) = pl(c), pl(a), pl(b)
    cr = ew1(_truthy, cr)
    re = ew3(S.ite, cr, ar, br)
    if ai is None and bi is None:
        return Res(re)
    ai = _zero_like(ar) if ai is None else ai
    bi = _zero_like(br) if bi is None else bi
    return Res(re, ew3(S.ite, cr, ai, bi))


@reg(torch.isfinite, T.isfinite)
def _isfinite(a):
    ar, ai = pl(a)
    return Res(ew1(lambda v: (not isinstance(v, float)) or math.isfinite(v), ar))


@reg(torch.isnan, T.isnan)
def _isnan(a):
    ar, ai = pl(a)
    return Res(ew1(lambda v: isinstance(v, float) and math.isnan(v), ar))


@reg(torch.isinf, T.isinf)
def _isinf(a):
    ar, ai = pl(a)
    return Res(ew1(lambda v: isinstance(v, float) and math.isinf(v), ar))


# ------------------------------------------------------------------------------------------------
# dtype conversion / copies
def _cast_payload(x, dt):
    ar, ai = pl(x)
    src = x.dtype
    if dt == src:
        return Res(ar.copy(), None if ai is None else ai.copy(), dt)
    if dt.is_complex:
        return Res(ar.copy(), _zero_like(ar) if ai is None else ai.copy(), dt)
    if ai is not None:
        ai = None  # complex -> real discards the imaginary part (torch warns)
    if dt == torch.bool:
        return Res(ew1(_truthy, ar), None, dt)
    if dt.is_floating_point:
        if src == torch.bool:
            return Res(ew1(lambda v: S.add(v, 0) if isinstance(v, S.Sym) else int(v), ar), None, dt)
        return Res(ar.copy(), None, dt)
    # integer target
    if src == torch.bool:
        return Res(ew1(lambda v: S.add(v, 0) if isinstance(v, S.Sym) else int(v), ar), None, dt)
    if src.is_floating_point:
        return Res(ew1(S.strunc, ar), None, dt)
    return Res(ar.copy(), None, dt)


@reg(T.to, nometa=True)
def _to(x, *args, **kwargs):
    dt = _dtype_of(args, kwargs)
    if dt is None:
        for a in args:
            if isinstance(a, torch.Tensor):
                dt = a.dtype
        if "other" in kwargs:
            dt = kwargs["other"].dtype
    if dt is None or dt == x.dtype:
        if kwargs.get("copy"):
            return _cast_payload(x, x.dtype)
        return x
    return _cast_payload(x, dt)


@reg(T.type, nometa=True)
def _type(x, dtype=None, **kw):
    if dtype is None:
        with torch._C.DisableTorchFunctionSubclass():
            return T.type(x)
    if isinstance(dtype, str):
        dtype = {"torch.FloatTensor": torch.float32, "torch.LongTensor": torch.int64, "torch.IntTensor": torch.int32, "torch.DoubleTensor": torch.float64, "torch.BoolTensor": torch.bool}[dtype]
    return _cast_payload(x, dtype)


@reg(T.type_as, nometa=True)
def _type_as(x, other):
    return _cast_payload(x, other.dtype)


for _f, _dt in [(T.float, torch.float32), (T.double, torch.float64), (T.long, torch.int64), (T.int, torch.int32), (T.bool, torch.bool), (T.half, torch.float16), (T.short, torch.int16), (T.byte, torch.uint8), (T.cfloat, torch.complex64), (T.cdouble, torch.complex128)]:
    reg(_f, nometa=True)((lambda dt: lambda x, **kw: _cast_payload(x, dt))(_dt))


@reg(T.clone, torch.clone, T.contiguous, T.detach, torch.detach, T.cpu, nometa=True)
def _clone(x, *a, **k):
    ar, ai = pl(x)
    return Res(ar.copy(), None if ai is None else ai.copy(), x.dtype)


@reg(T.requires_grad_, T.detach_, nometa=True)
def _noop(x, *a, **k):
    return x


@reg(T.copy_, nometa=True)
def _copy_(x, src, non_blocking=False):
    r = _cast_payload(src, x.dtype) if isinstance(src, torch.Tensor) else Res(*pl(src))
    x.re[...] = np.broadcast_to(r.re, x.re.shape)
    if x.im is not None:
        x.im[...] = np.broadcast_to(r.im if r.im is not None else _zero_like(r.re), x.im.shape)
    return x


@reg(torch.complex)
def _complex(re, im):
    return Res(pl(re)[0].copy(), pl(im)[0].copy())


@reg(torch.view_as_real)
def _view_as_real(x):
    ar, ai = pl(x)
    return Res(np.stack([ar, ai], axis=-1))


@reg(torch.view_as_complex)
def _view_as_complex(x):
    ar, _ = pl(x)
    return Res(ar[..., 0].copy(), ar[..., 1].copy())


@reg(torch.real)
def _real(x):
    ar, ai = pl(x)
    return Res(ar, None)


@regprop("real")
def _p_real(x):
    return SymTensor(x.re, None, _real_dtype(x.dtype))


@regprop("imag")
def _p_imag(x):
    if x.im is None:
        raise RuntimeError("imag is not implemented for tensors with non-complex dtypes.")
    return SymTensor(x.im, None, _real_dtype(x.dtype))


@regprop("T")
def _p_T(x):
    return SymTensor(x.re.T, None if x.im is None else x.im.T, x.dtype)


@regprop("mT")
def _p_mT(x):
    return SymTensor(np.swapaxes(x.re, -1, -2), None if x.im is None else np.swapaxes(x.im, -1, -2), x.dtype)


@regprop("data")
def _p_data(x):
    return x


def _real_dtype(dt):
    return {torch.complex64: torch.float32, torch.complex128: torch.float64}.get(dt, dt)


@reg(torch.imag)
def _imag(x):
    ar, ai = pl(x)
    return Res(ai, None)


@reg(T.conj, torch.conj, T.conj_physical, torch.conj_physical, T.resolve_conj, T.resolve_neg)
def _conj(x):
    ar, ai = pl(x)
    if ai is None:
        return Res(ar.copy())
    return Res(ar.copy(), ew1(lambda v: S.mul(-1, v), ai))


@reg(torch.angle, T.angle)
def _angle(x):
    raise S.Unsupported("angle() of a symbolic value (atan2)")


@reg(torch.polar)
def _polar(a, ang):
    raise S.Unsupported("polar() of symbolic values")


# ------------------------------------------------------------------------------------------------
# shape ops (views share the numpy buffers, as torch views share storage)
def _v(x, f):
    ar, ai = pl(x)
    return Res(f(ar), None if ai is None else f(ai))


@reg(T.view, T.reshape, torch.reshape)
def _reshape(x, *shape, **kw):
    if "dtype" in kw or (len(shape) == 1 and isinstance(shape[0], torch.dtype)):
        raise S.Unsupported("view(dtype)")
    if "shape" in kw:
        shape = (kw["shape"],)
    shp = _shape_arg(shape)
    return _v(x, lambda a: a.reshape(shp))


@reg(T.view_as, T.reshape_as)
def _view_as(x, o):
    return _v(x, lambda a: a.reshape(tuple(o.shape)))


@reg(T.flatten, torch.flatten)
def _flatten(x, start_dim=0, end_dim=-1):
    nd = x.dim()
    if nd == 0:
        return _v(x, lambda a: a.reshape(1))
    s, e = _axis(start_dim, nd), _axis(end_dim, nd)
    shp = tuple(x.shape[:s]) + (-1,) + tuple(x.shape[e + 1 :])
    return _v(x, lambda a: a.reshape(shp))


@reg(T.unflatten, torch.unflatten)
def _unflatten(x, dim, sizes):
    d = _axis(dim, x.dim())
    shp = tuple(x.shape[:d]) + tuple(sizes) + tuple(x.shape[d + 1 :])
    return _v(x, lambda a: a.reshape(shp))


@reg(T.squeeze, torch.squeeze)
def _squeeze(x, dim=None):
    if dim is None:
        return _v(x, lambda a: a.reshape(tuple(s for s in a.shape if s != 1)))
    dims = (dim,) if isinstance(dim, int) else tuple(dim)
    dims = tuple(_axis(d, x.dim()) for d in dims)
    return _v(x, lambda a: a.reshape(tuple(s for i, s in enumerate(a.shape) if not (i in dims and s == 1))))


@reg(T.unsqueeze, torch.unsqueeze)
def _unsqueeze(x, dim):
    ax = dim if dim >= 0 else dim + x.dim() + 1
    return _v(x, lambda a: np.expand_dims(a, ax))


@reg(T.transpose, torch.transpose, T.swapaxes, torch.swapaxes)
def _transpose(x, a, b):
    return _v(x, lambda arr: np.swapaxes(arr, a, b))


@reg(T.t, torch.t)
def _t(x):
    return _v(x, lambda a: a.T)


@reg(T.permute, torch.permute)
def _permute(x, *dims):
    d = _shape_arg(dims)
    return _v(x, lambda a: np.transpose(a, d))


@reg(T.movedim, torch.movedim)
def _movedim(x, s, d):
    return _v(x, lambda a: np.moveaxis(a, s, d))


@reg(T.expand)
def _expand(x, *sizes, **kw):
    shp = list(_shape_arg(sizes))
    nd = len(shp)
    xs = [1] * (nd - x.dim()) + list(x.shape)
    for i in range(nd):
        if shp[i] == -1:
            shp[i] = xs[i]
    return _v(x, lambda a: np.broadcast_to(a.reshape(xs), shp))


@reg(T.expand_as)
def _expand_as(x, o):
    return _expand(x, tuple(o.shape))


@reg(torch.broadcast_to, T.broadcast_to)
def _broadcast_to(x, shape):
    return _expand(x, tuple(shape))


@reg(T.repeat)
def _repeat(x, *sizes):
    reps = _shape_arg(sizes)
    return _v(x, lambda a: np.tile(a, reps))


@reg(torch.repeat_interleave, T.repeat_interleave)
def _repeat_interleave(x, repeats, dim=None, **kw):
    if isinstance(repeats, torch.Tensor):
        repeats = lower(repeats).tolist() if isinstance(repeats, SymTensor) else repeats.tolist()
    if dim is None:
        return _v(x, lambda a: np.repeat(a.reshape(-1), repeats))
    return _v(x, lambda a: np.repeat(a, repeats, axis=dim))


@reg(torch.tile, T.tile)
def _tile(x, dims):
    return _v(x, lambda a: np.tile(a, tuple(dims)))


@reg(T.flip, torch.flip)
def _flip(x, *dims):
    d = _shape_arg(dims)
    return _v(x, lambda a: np.flip(a, axis=d).copy())


@reg(torch.fliplr, T.fliplr)
def _fliplr(x):
    return _v(x, lambda a: np.flip(a, axis=1).copy())


@reg(torch.roll, T.roll)
def _roll(x, shifts, dims=None):
    return _v(x, lambda a: np.roll(a, shifts, axis=dims))


@reg(torch.cat, torch.concat, torch.concatenate)
def _cat(ts, dim=0, **kw):
    ts = [t for t in ts if not (t.dim() == 1 and t.shape[0] == 0 and len(ts) > 1)]
    cplx = any(is_cplx(t) for t in ts)
    ps = [pl(t) for t in ts]
    re = np.concatenate([p[0] for p in ps], axis=dim)
    im = np.concatenate([p[1] if p[1] is not None else _zero_like(p[0]) for p in ps], axis=dim) if cplx else None
    return Res(re, im)


@reg(torch.stack)
def _stack(ts, dim=0, **kw):
    cplx = any(is_cplx(t) for t in ts)
    ps = [pl(t) for t in ts]
    ax = dim if dim >= 0 else dim + ps[0][0].ndim + 1
    re = np.stack([p[0] for p in ps], axis=ax)
    im = np.stack([p[1] if p[1] is not None else _zero_like(p[0]) for p in ps], axis=ax) if cplx else None
    return Res(re, im)


@reg(torch.hstack)
def _hstack(ts):
    return _cat(ts, dim=0 if ts[0].dim() == 1 else 1)


@reg(torch.vstack)
def _vstack(ts):
    ts = [t if t.dim() > 1 else t.reshape(1, -1) for t in ts]
    return _cat(ts, dim=0)


@reg(T.unbind, torch.unbind, nometa=True)
def _unbind(x, dim=0):
    ar, ai = pl(x)
    ar = np.moveaxis(ar, dim, 0)
    ai = None if ai is None else np.moveaxis(ai, dim, 0)
    return tuple(SymTensor(_o(ar[i]), None if ai is None else _o(ai[i]), x.dtype) for i in range(ar.shape[0]))


@reg(T.__iter__, nometa=True)
def _iter(x):
    if x.dim() == 0:
        raise TypeError("iteration over a 0-d tensor")
    return iter(_unbind(x, 0))


@reg(T.split, torch.split, nometa=True)
def _split(x, split_size_or_sections=None, dim=0, split_size=None):
    s = split_size_or_sections if split_size_or_sections is not None else split_size
    ar, ai = pl(x)
    n = ar.shape[dim]
    if isinstance(s, int):
        bounds = list(range(0, n, s)) + [n]
    else:
        bounds = [0]
        for k in s:
            bounds.append(bounds[-1] + k)
    outs = []
    for lo, hi in zip(bounds[:-1], bounds[1:]):
        sl = [slice(None)] * ar.ndim
        sl[dim] = slice(lo, hi)
        outs.append(SymTensor(ar[tuple(sl)], None if ai is None else ai[tuple(sl)], x.dtype))
    return tuple(outs)


@reg(T.chunk, torch.chunk, nometa=True)
def _chunk(x, chunks, dim=0):
    n = x.shape[dim]
    size = -(-n // chunks)
    return _split(x, size, dim)


@reg(T.narrow, torch.narrow)
def _narrow(x, dim, start, length):
    sl = [slice(None)] * x.dim()
    sl[dim] = slice(start, start + length)
    return _v(x, lambda a: a[tuple(sl)])


@reg(T.select, torch.select)
def _select(x, dim, index):
    sl = [slice(None)] * x.dim()
    sl[dim] = index
    return _v(x, lambda a: _o(a[tuple(sl)]))


# ------------------------------------------------------------------------------------------------
# indexing
def _sym_gather_1d(table, idx_scalar, n):
    """table: list of payload slices; idx symbolic int -> ITE chain"""
    res = table[n - 1]
    for j in range(n - 2, -1, -1):
        c = S.eq(idx_scalar, j)
        res = ew2(lambda a, b, c=c: S.ite(c, a, b), table[j], res)
    return res


def _getitem_symidx(x, i):
    """x[idx] where idx is a symbolic integer tensor (or contains one as the single advanced index)."""
    ar, ai = pl(x)
    if not isinstance(i, tuple):
        i = (i,)
    # expand ellipsis
    if any(j is Ellipsis for j in i):
        k = [j for j in i].index(Ellipsis)
        nfill = ar.ndim - (len(i) - 1 - sum(1 for j in i if j is None))
        i = i[:k] + (slice(None),) * nfill + i[k + 1 :]
    sym_pos = [k for k, j in enumerate(i) if (isinstance(j, SymTensor) and not j.is_concrete()) or isinstance(j, S.Sym)]
    if len(sym_pos) != 1:
        raise S.Unsupported("more than one symbolic index in one subscript")
    k = sym_pos[0]
    if any(isinstance(j, (torch.Tensor, list)) for p, j in enumerate(i) if p != k):
        raise S.Unsupported("symbolic index mixed with other advanced indices")
    if any(j is None for j in i):
        raise S.Unsupported("symbolic index with None")
    # axis of array that position k indexes
    axis = k
    idx = i[k]
    idxp = _o(idx) if isinstance(idx, S.Sym) else idx.re
    # first apply the other (basic) indices, keeping axis k in place
    basic = tuple((slice(None) if p == k else j) for p, j in enumerate(i))
    n_int_before = sum(1 for p, j in enumerate(i) if p < k and isinstance(j, int))
    if x.dtype == torch.bool and False:
        pass

    def gather(a):
        a = a[basic]
        ax = axis - n_int_before
        a = np.moveaxis(a, ax, 0)
        n = a.shape[0]
        rest = a.shape[1:]
        out = np.empty(idxp.shape + rest, dtype=object)
        for pos in np.ndindex(*idxp.shape):
            s = idxp[pos]
            if isinstance(s, S.Sym):
                # negative indices are not modelled (kaira never uses symbolic negative indices)
                val = _sym_gather_1d([_o(a[j]) for j in range(n)], s, n)
            else:
                val = a[int(s)]
            out[pos] = val if rest else (val[()] if isinstance(val, np.ndarray) else val)
        # result axes: idx dims replace the axis position
        nd_idx = idxp.ndim
        out = np.moveaxis(out, list(range(nd_idx)), list(range(ax, ax + nd_idx)))
        return out

    return Res(gather(ar), None if ai is None else gather(ai), x.dtype)


def _is_bool_index(j):
    return isinstance(j, torch.Tensor) and j.dtype == torch.bool


@reg(T.__getitem__, nometa=True)
def _getitem(x, i):
    ar, ai = pl(x)
    items = i if isinstance(i, tuple) else (i,)
    # boolean mask with symbolic entries: decision points
    new_items = []
    for j in items:
        if _is_bool_index(j) and isinstance(j, SymTensor) and not j.is_concrete():
            m = ew1(lambda v: bool(v) if isinstance(v, S.Sym) else v, j.re)
            new_items.append(m.astype(bool))
        else:
            new_items.append(j)
    items = tuple(new_items)
    try:
        ni = _idx(items)
    except _SymIndex:
        return _getitem_symidx(x, items)
    if len(ni) == 1:
        ni = ni[0]
    r = ar[ni]
    if not isinstance(r, np.ndarray):
        r = _o(r)
    im = None
    if ai is not None:
        im = ai[ni]
        if not isinstance(im, np.ndarray):
            im = _o(im)
    return Res(r, im, x.dtype)


def _set_payload(x, ni, v):
    vr, vi = pl(v)
    if isinstance(v, torch.Tensor) and v.dtype != x.dtype:
        c = _cast_payload(v if isinstance(v, SymTensor) else lift(v), x.dtype)
        vr, vi = c.re, c.im
    elif not isinstance(v, torch.Tensor):
        # python scalar into an integer/bool/float tensor
        if x.dtype == torch.bool:
            vr = ew1(_truthy, vr)
    x.re[ni] = vr if vr.ndim else vr[()]
    if x.im is not None:
        x.im[ni] = (vi if vi.ndim else vi[()]) if vi is not None else 0
    elif vi is not None:
        raise S.Unsupported("assigning complex into real tensor")


@reg(T.__setitem__, nometa=True)
def _setitem(x, i, v):
    if not isinstance(x, SymTensor):
        raise S.Unsupported("in-place write of symbolic data into a pre-existing real tensor (module state)")
    items = i if isinstance(i, tuple) else (i,)
    vr0, _ = pl(v)
    if len(items) == 1 and _is_bool_index(items[0]) and isinstance(items[0], SymTensor) and not items[0].is_concrete() and vr0.ndim == 0:
        # masked assignment of a scalar under a symbolic mask -> elementwise ITE
        m = items[0].re
        vr, vi = pl(v)
        if m.shape != x.re.shape[: m.ndim]:
            raise S.Unsupported("mask shape")
        val = vr[()]
        if isinstance(v, torch.Tensor) and v.dtype != x.dtype:
            val = _cast_payload(v if isinstance(v, SymTensor) else lift(v), x.dtype).re[()]
        for pos in np.ndindex(*m.shape):
            c = m[pos]
            if x.re[pos].__class__ is np.ndarray:
                x.re[pos] = ew1(lambda old: S.ite(c, val, old), x.re[pos])
            else:
                x.re[pos] = S.ite(c, val, x.re[pos])
            if x.im is not None:
                ival = vi[()] if vi is not None else 0
                x.im[pos] = S.ite(c, ival, x.im[pos])
        return None
    # a symbolic mask with a tensor value: the mask is concretised (decision points, as for masked reads)
    new_items = []
    for j in items:
        if _is_bool_index(j) and isinstance(j, SymTensor) and not j.is_concrete():
            new_items.append(ew1(lambda q: bool(q) if isinstance(q, S.Sym) else q, j.re).astype(bool))
        else:
            new_items.append(j)
    items = tuple(new_items)
    try:
        ni = _idx(items)
    except _SymIndex:
        raise S.Unsupported("assignment at a symbolic index")
    if len(ni) == 1:
        ni = ni[0]
    _set_payload(x, ni, v)
    return None


@reg(T.index_select, torch.index_select)
def _index_select(x, dim, index):
    idx = _idx(index)
    return _v(x, lambda a: np.take(a, idx, axis=dim))


@reg(T.gather, torch.gather)
def _gather(x, dim, index, **kw):
    ar, ai = pl(x)
    ir, _ = pl(index)
    d = _axis(dim, ar.ndim)

    def g(a):
        out = np.empty(ir.shape, dtype=object)
        for pos in np.ndindex(*ir.shape):
            s = ir[pos]
            src = list(pos)
            if isinstance(s, S.Sym):
                n = a.shape[d]
                cands = []
                for j in range(n):
                    src[d] = j
                    cands.append(_o(a[tuple(src)]))
                out[pos] = _sym_gather_1d(cands, s, n)[()]
            else:
                src[d] = int(s)
                out[pos] = a[tuple(src)]
        return out

    return Res(g(ar), None if ai is None else g(ai))


@reg(T.masked_fill, torch.masked_fill)
def _masked_fill(x, mask, value):
    (ar, ai), (mr, _) = pl(x), pl(mask)
    vr, _ = pl(value)
    return Res(ew3(S.ite, mr, vr, ar), None if ai is None else ew3(S.ite, mr, 0, ai))


@reg(T.masked_fill_, nometa=True)
def _masked_fill_(x, mask, value):
    r = _masked_fill(x, mask, value)
    x.re[...] = r.re
    return x


@reg(T.masked_select, torch.masked_select, nometa=True)
def _masked_select(x, mask):
    return _getitem(x, mask)


@reg(torch.nonzero, T.nonzero, nometa=True)
def _nonzero(x, as_tuple=False):
    ar, _ = pl(x)
    m = ew1(lambda v: bool(_truthy(v)) if isinstance(v, S.Sym) else bool(v != 0) if not isinstance(v, bool) else v, ar)
    nz = np.nonzero(m.astype(bool))
    if as_tuple:
        return tuple(SymTensor(as_oarr(np.asarray(a, dtype=np.int64)), None, torch.int64) for a in nz)
    arr = np.stack(nz, axis=1) if len(nz) else np.zeros((0, 0), dtype=np.int64)
    return Res(as_oarr(arr.astype(np.int64)), None, torch.int64)


@reg(torch.argwhere, T.argwhere, nometa=True)
def _argwhere(x):
    return _nonzero(x)


@reg(T.scatter_, nometa=True)
def _scatter_(x, dim, index, src=None, value=None, **kw):
    idx = _idx(index)
    if src is None:
        src = value
    sr, _ = pl(src)
    for pos in np.ndindex(*idx.shape):
        tgt = list(pos)
        tgt[dim] = int(idx[pos])
        x.re[tuple(tgt)] = sr[pos] if sr.ndim else sr[()]
    return x


@reg(T.index_put_, nometa=True)
def _index_put_(x, indices, values, accumulate=False):
    if accumulate:
        raise S.Unsupported("index_put_ accumulate")
    _setitem(x, tuple(indices), values)
    return x


@reg(T.fill_, T.zero_, nometa=True)
def _fill_(x, value=0):
    vr, vi = pl(value)
    x.re[...] = vr[()]
    if x.im is not None:
        x.im[...] = vi[()] if vi is not None else 0
    return x


# in-place arithmetic
def _inplace(binop):
    def h(x, *a, **k):
        r = binop(x, *a, **k)
        if not isinstance(x, SymTensor):
            # real tensor receiving symbolic data: python rebinds the name (x += y), so return a new tensor
            dt = x.dtype
            return SymTensor(r.re, r.im if dt.is_complex else None, dt)
        tgt = x.dtype
        re, im = r.re, r.im
        if not tgt.is_floating_point and not tgt.is_complex and tgt != torch.bool:
            # float result into an integer tensor is an error in torch for true division; others truncate
            pass
        x.re[...] = np.broadcast_to(re, x.re.shape)
        if x.im is not None:
            x.im[...] = np.broadcast_to(im if im is not None else _zero_like(re), x.im.shape)
        elif im is not None:
            raise RuntimeError("result type ComplexFloat can't be cast to the desired output type Float")
        return x

    return h


reg(T.add_, T.__iadd__, nometa=True)(_inplace(_add))
reg(T.sub_, T.__isub__, nometa=True)(_inplace(_sub))
reg(T.mul_, T.__imul__, nometa=True)(_inplace(_mul))
reg(T.div_, T.__itruediv__, nometa=True)(_inplace(_div))
reg(T.__imod__, T.remainder_, nometa=True)(_inplace(_mod))
reg(T.__ixor__, T.bitwise_xor_, nometa=True)(_inplace(_xor))
reg(T.__ior__, T.bitwise_or_, nometa=True)(_inplace(_or))
reg(T.__iand__, T.bitwise_and_, nometa=True)(_inplace(_and))
reg(T.clamp_, nometa=True)(_inplace(_clamp))
reg(T.neg_, nometa=True)(_inplace(_neg))
reg(T.abs_, nometa=True)(_inplace(_abs))
reg(T.pow_, T.__ipow__, nometa=True)(_inplace(_pow))


# ------------------------------------------------------------------------------------------------
# reductions
def _dims(dim, nd):
    if dim is None or (isinstance(dim, (tuple, list)) and len(dim) == 0):
        return tuple(range(nd))  # torch reduces over ALL dimensions for an empty dim tuple
    if isinstance(dim, int):
        return (_axis(dim, nd),)
    return tuple(_axis(d, nd) for d in dim)


def _reduce(a, dims, keepdim, f, init=None):
    """fold f over the given axes of object array a"""
    nd = a.ndim
    dims = tuple(sorted(set(dims)))
    if not dims:
        return a.copy()
    other = [d for d in range(nd) if d not in dims]
    b = np.transpose(a, other + list(dims))
    oshape = tuple(a.shape[d] for d in other)
    b = b.reshape(oshape + (-1,))
    out = np.empty(oshape, dtype=object)
    for pos in np.ndindex(*oshape):
        row = b[pos]
        if len(row) == 0:
            if init is None:
                raise RuntimeError("reduction over an empty dimension with no identity")
            out[pos] = init
            continue
        acc = row[0] if init is None else f(init, row[0])
        for v in row[1:]:
            acc = f(acc, v)
        out[pos] = acc
    if keepdim:
        shp = [1 if d in dims else a.shape[d] for d in range(nd)]
        out = out.reshape(shp)
    return out


def _count(a, dims):
    n = 1
    for d in dims:
        n *= a.shape[d]
    return n


def _sum_payload(x, dim, keepdim):
    ar, ai = pl(x)
    dims = _dims(dim, ar.ndim)
    conv = (lambda v: S.add(v, 0) if isinstance(v, S.Sym) else int(v)) if (isinstance(x, torch.Tensor) and x.dtype == torch.bool) else None
    if conv:
        ar = ew1(conv, ar)
    re = _reduce(ar, dims, keepdim, S.add, 0)
    im = None if ai is None else _reduce(ai, dims, keepdim, S.add, 0)
    return re, im, dims, ar


@reg(T.sum, torch.sum)
def _sum(x, dim=None, keepdim=False, dtype=None, **kw):
    if "axis" in kw:
        dim = kw["axis"]
    re, im, _, _ = _sum_payload(x, dim, keepdim)
    return Res(re, im)


@reg(T.mean, torch.mean)
def _mean(x, dim=None, keepdim=False, dtype=None, **kw):
    if "axis" in kw:
        dim = kw["axis"]
    re, im, dims, ar = _sum_payload(x, dim, keepdim)
    n = _count(ar, dims)
    if n == 0:
        raise S.Unsupported("mean over empty")
    f = lambda v: S.div(v, n)
    return Res(ew1(f, re), None if im is None else ew1(f, im))


@reg(T.prod, torch.prod)
def _prod(x, dim=None, keepdim=False, dtype=None):
    ar, ai = pl(x)
    if ai is not None:
        raise S.Unsupported("complex prod")
    return Res(_reduce(ar, _dims(dim, ar.ndim), keepdim, S.mul, 1))


@reg(T.var, torch.var)
def _var(x, dim=None, unbiased=True, keepdim=False, correction=None, **kw):
    ar, ai = pl(x)
    if ai is not None:
        raise S.Unsupported("complex var")
    if isinstance(dim, bool):
        unbiased, dim = dim, None
    corr = correction if correction is not None else (1 if unbiased else 0)
    dims = _dims(dim, ar.ndim)
    n = _count(ar, dims)
    mean = ew1(lambda v: S.div(v, n), _reduce(ar, dims, True, S.add, 0))
    dev = ew2(S.sub, ar, mean)
    sq = ew2(S.mul, dev, dev)
    return Res(ew1(lambda v: S.div(v, n - corr), _reduce(sq, dims, keepdim, S.add, 0)))


@reg(T.std, torch.std)
def _std(x, *a, **k):
    r = _var(x, *a, **k)
    return Res(ew1(S.ssqrt, r.re))


@reg(T.any, torch.any)
def _any_(x, dim=None, keepdim=False):
    ar, _ = pl(x)
    ar = ew1(_truthy, ar)
    return Res(_reduce(ar, _dims(dim, ar.ndim), keepdim, S.lor, False))


@reg(T.all, torch.all)
def _all_(x, dim=None, keepdim=False):
    ar, _ = pl(x)
    ar = ew1(_truthy, ar)
    return Res(_reduce(ar, _dims(dim, ar.ndim), keepdim, S.land, True))


def _minmax(x, dim, keepdim, less):
    """returns (values, indices); first index attaining the extremum (torch semantics for ties on CPU)"""
    ar, ai = pl(x)
    if ai is not None:
        raise S.Unsupported("min/max of complex")
    d = _axis(dim, ar.ndim)
    b = np.moveaxis(ar, d, -1)
    oshape = b.shape[:-1]
    vals = np.empty(oshape, dtype=object)
    idxs = np.empty(oshape, dtype=object)
    for pos in np.ndindex(*oshape):
        row = b[pos]
        if len(row) == 0:
            raise RuntimeError("min/max over an empty dimension")
        bv, bi = row[0], 0
        for j in range(1, len(row)):
            c = less(row[j], bv)
            bv = S.ite(c, row[j], bv)
            bi = S.ite(c, j, bi)
        vals[pos] = bv
        idxs[pos] = bi
    if keepdim:
        vals = np.expand_dims(vals, d)
        idxs = np.expand_dims(idxs, d)
    return vals, idxs


def _minmax_all(x, less):
    ar, ai = pl(x)
    if ai is not None:
        raise S.Unsupported("min/max of complex")
    flat = ar.reshape(-1)
    if len(flat) == 0:
        raise RuntimeError("min/max of an empty tensor")
    bv = flat[0]
    for v in flat[1:]:
        bv = S.ite(less(v, bv), v, bv)
    return _o(bv)


_LT = S.lt
_GT = lambda a, b: S.lt(b, a)


@reg(T.min, torch.min)
def _min(x, dim=None, keepdim=False, **kw):
    if isinstance(dim, torch.Tensor):
        return _minimum(x, dim)
    if "other" in kw:
        return _minimum(x, kw["other"])
    if dim is None:
        return Res(_minmax_all(x, _LT))
    v, i = _minmax(x, dim, keepdim, _LT)
    return torch.return_types.min((Res(v), Res(i)))


@reg(T.max, torch.max)
def _max(x, dim=None, keepdim=False, **kw):
    if isinstance(dim, torch.Tensor):
        return _maximum(x, dim)
    if "other" in kw:
        return _maximum(x, kw["other"])
    if dim is None:
        return Res(_minmax_all(x, _GT))
    v, i = _minmax(x, dim, keepdim, _GT)
    return torch.return_types.max((Res(v), Res(i)))


@reg(T.amin, torch.amin)
def _amin(x, dim=None, keepdim=False):
    ar, _ = pl(x)
    return Res(_reduce(ar, _dims(dim, ar.ndim), keepdim, S.smin))


@reg(T.amax, torch.amax)
def _amax(x, dim=None, keepdim=False):
    ar, _ = pl(x)
    return Res(_reduce(ar, _dims(dim, ar.ndim), keepdim, S.smax))


@reg(T.argmin, torch.argmin)
def _argmin(x, dim=None, keepdim=False):
    if dim is None:
        xx = _wrap_flat(x)
        _, i = _minmax(xx, 0, False, _LT)
        return Res(i)
    _, i = _minmax(x, dim, keepdim, _LT)
    return Res(i)


@reg(T.argmax, torch.argmax)
def _argmax(x, dim=None, keepdim=False):
    if dim is None:
        xx = _wrap_flat(x)
        _, i = _minmax(xx, 0, False, _GT)
        return Res(i)
    _, i = _minmax(x, dim, keepdim, _GT)
    return Res(i)


def _wrap_flat(x):
    ar, _ = pl(x)
    return SymTensor(ar.reshape(-1), None, x.dtype)


@reg(T.cumsum, torch.cumsum)
def _cumsum(x, dim, **kw):
    ar, ai = pl(x)
    if ai is not None:
        raise S.Unsupported("complex cumsum")
    d = _axis(dim, ar.ndim)
    b = np.moveaxis(ar, d, -1)
    out = np.empty(b.shape, dtype=object)
    for pos in np.ndindex(*b.shape[:-1]):
        acc = 0
        for j in range(b.shape[-1]):
            acc = S.add(acc, b[pos + (j,)])
            out[pos + (j,)] = acc
    return Res(np.moveaxis(out, -1, d))


@reg(T.cumprod, torch.cumprod)
def _cumprod(x, dim, **kw):
    ar, ai = pl(x)
    d = _axis(dim, ar.ndim)
    br = np.moveaxis(ar, d, -1)
    bi = None if ai is None else np.moveaxis(ai, d, -1)
    outr = np.empty(br.shape, dtype=object)
    outi = None if bi is None else np.empty(br.shape, dtype=object)
    for pos in np.ndindex(*br.shape[:-1]):
        accr, acci = 1, 0
        for j in range(br.shape[-1]):
            vr = br[pos + (j,)]
            if bi is None:
                accr = S.mul(accr, vr)
            else:
                vi = bi[pos + (j,)]
                accr, acci = S.sub(S.mul(accr, vr), S.mul(acci, vi)), S.add(S.mul(accr, vi), S.mul(acci, vr))
                outi[pos + (j,)] = acci
            outr[pos + (j,)] = accr
    return Res(np.moveaxis(outr, -1, d), None if outi is None else np.moveaxis(outi, -1, d))


@reg(torch.count_nonzero, T.count_nonzero)
def _count_nonzero(x, dim=None):
    ar, _ = pl(x)
    b = ew1(lambda v: S.add(_truthy(v), 0) if isinstance(_truthy(v), S.Sym) else int(_truthy(v)), ar)
    return Res(_reduce(b, _dims(dim, ar.ndim), False, S.add, 0))


@reg(torch.norm, T.norm, torch.linalg.norm, torch.linalg.vector_norm)
def _norm(x, p=2, dim=None, keepdim=False, **kw):
    if "ord" in kw and kw["ord"] is not None:
        p = kw["ord"]
    if p not in (2, "fro", None, 2.0):
        raise S.Unsupported(f"norm p={p}")
    ar, ai = pl(x)
    sq = ew2(S.mul, ar, ar)
    if ai is not None:
        sq = ew2(S.add, sq, ew2(S.mul, ai, ai))
    return Res(ew1(S.ssqrt, _reduce(sq, _dims(dim, ar.ndim), keepdim, S.add, 0)))


# ------------------------------------------------------------------------------------------------
# linear algebra
def _matmul_payload(a, b):
    return np.matmul(a, b) if False else _mm(a, b)


def _mm(a, b):
    """matmul on object arrays through S.add/S.mul (numpy's object matmul would call __add__/__mul__ too, but
    starting from the int 0 and without our folding)."""
    a1 = a.ndim == 1
    b1 = b.ndim == 1
    if a1:
        a = a.reshape(1, -1)
    if b1:
        b = b.reshape(-1, 1)
    if a.shape[-1] != b.shape[-2]:
        raise RuntimeError(f"mat1 and mat2 shapes cannot be multiplied ({a.shape} and {b.shape})")
    batch = np.broadcast_shapes(a.shape[:-2], b.shape[:-2])
    a = np.broadcast_to(a, batch + a.shape[-2:])
    b = np.broadcast_to(b, batch + b.shape[-2:])
    n, k, m = a.shape[-2], a.shape[-1], b.shape[-1]
    out = np.empty(batch + (n, m), dtype=object)
    for pos in np.ndindex(*batch):
        A, B = a[pos], b[pos]
        # skip concrete zeros (sparse generator / check matrices)
        Bcols = [[(l, B[l, j]) for l in range(k) if not (not isinstance(B[l, j], S.Sym) and B[l, j] == 0)] for j in range(m)]
        for i in range(n):
            Ai = A[i]
            for j in range(m):
                acc = 0
                for l, bv in Bcols[j]:
                    av = Ai[l]
                    if not isinstance(av, S.Sym) and av == 0:
                        continue
                    acc = S.add(acc, S.mul(av, bv))
                out[pos + (i, j)] = acc
    if a1 and b1:
        return out.reshape(batch)
    if a1:
        return out.reshape(batch + (m,))
    if b1:
        return out.reshape(batch + (n,))
    return out


@reg(torch.matmul, T.matmul, T.__matmul__, torch.mm, T.mm, torch.bmm, T.bmm, torch.mv, T.mv, torch.dot, T.dot, torch.inner)
def _matmul(a, b):
    (ar, ai), (br, bi) = pl(a), pl(b)
    if ai is None and bi is None:
        return Res(_mm(ar, br))
    ai = _zero_like(ar) if ai is None else ai
    bi = _zero_like(br) if bi is None else bi
    re = ew2(S.sub, _mm(ar, br), _mm(ai, bi))
    im = ew2(S.add, _mm(ar, bi), _mm(ai, br))
    return Res(re, im)


@reg(T.__rmatmul__)
def _rmatmul(a, b):
    return _matmul(b, a)


@reg(torch.outer, T.outer)
def _outer(a, b):
    (ar, _), (br, _) = pl(a), pl(b)
    return Res(ew2(S.mul, ar.reshape(-1, 1), br.reshape(1, -1)))


# ------------------------------------------------------------------------------------------------
# factories with symbolic content / like-functions
def _like_dtype(x, kw):
    return kw.get("dtype") or x.dtype


@reg(torch.zeros_like, nometa=True)
def _zeros_like(x, **kw):
    dt = _like_dtype(x, kw)
    return Res(oarr(x.shape, False if dt == torch.bool else 0), None, dt)


@reg(torch.ones_like, nometa=True)
def _ones_like(x, **kw):
    dt = _like_dtype(x, kw)
    return Res(oarr(x.shape, True if dt == torch.bool else 1), None, dt)


@reg(torch.empty_like, nometa=True)
def _empty_like(x, **kw):
    return _zeros_like(x, **kw)


@reg(torch.full_like, nometa=True)
def _full_like(x, fill_value, **kw):
    dt = _like_dtype(x, kw)
    vr, vi = pl(fill_value)
    a = oarr(x.shape, 0)
    a[...] = vr[()]
    return Res(a, None, dt)


@reg(torch.full, nometa=True)
def _full(size, fill_value, **kw):
    vr, vi = pl(fill_value)
    a = oarr(tuple(size), 0)
    a[...] = vr[()]
    dt = kw.get("dtype") or (fill_value.dtype if isinstance(fill_value, torch.Tensor) else torch.get_default_dtype())
    return Res(a, None, dt)


@reg(T.new_zeros, nometa=True)
def _new_zeros(x, *size, **kw):
    return Res(oarr(_shape_arg(size), 0), None, kw.get("dtype") or x.dtype)


@reg(T.new_ones, nometa=True)
def _new_ones(x, *size, **kw):
    return Res(oarr(_shape_arg(size), 1), None, kw.get("dtype") or x.dtype)


@reg(T.new_full, nometa=True)
def _new_full(x, size, fill_value, **kw):
    return _full(size, fill_value, dtype=kw.get("dtype") or x.dtype)


@reg(T.new_tensor, nometa=True)
def _new_tensor(x, data, **kw):
    return _tensor(data, dtype=kw.get("dtype") or x.dtype)


def _nested_payload(data):
    if isinstance(data, SymTensor):
        return data.re, data.im, data.dtype
    if isinstance(data, torch.Tensor):
        l = lift(data)
        return l.re, l.im, l.dtype
    if isinstance(data, S.Sym):
        return _o(data), None, {"real": torch.float32, "int": torch.int64, "bool": torch.bool}[data.sort]
    if isinstance(data, (list, tuple)):
        parts = [_nested_payload(d) for d in data]
        if not parts:
            return np.empty((0,), dtype=object), None, torch.float32
        re = np.stack([p[0] for p in parts])
        cplx = any(p[1] is not None for p in parts)
        im = np.stack([p[1] if p[1] is not None else _zero_like(p[0]) for p in parts]) if cplx else None
        dts = [p[2] for p in parts]
        dt = dts[0]
        for d in dts[1:]:
            dt = torch.promote_types(dt, d)
        return re, im, dt
    if isinstance(data, bool):
        return _o(data), None, torch.bool
    if isinstance(data, int):
        return _o(data), None, torch.int64
    if isinstance(data, float):
        return _o(S.norm(data)), None, torch.get_default_dtype()
    if isinstance(data, Fraction):
        return _o(S.norm(data)), None, torch.get_default_dtype()
    if isinstance(data, complex):
        return _o(S.norm(data.real)), _o(S.norm(data.imag)), torch.complex64
    if isinstance(data, np.ndarray):
        return _nested_payload(torch.from_numpy(data))
    raise S.Unsupported(f"torch.tensor of {type(data)}")


@reg(torch.tensor, torch.as_tensor, torch.asarray, nometa="always")
def _tensor(data, dtype=None, **kw):
    re, im, dt = _nested_payload(data)
    t = SymTensor(re.copy(), None if im is None else im.copy(), dt)
    if dtype is not None and dtype != dt:
        r = _cast_payload(t, dtype)
        return Res(r.re, r.im, dtype)
    return t


@reg(T.item, nometa=True)
def _item(x):
    ar, ai = pl(x)
    if ar.size != 1:
        raise RuntimeError("a Tensor with %d elements cannot be converted to Scalar" % ar.size)
    v = ar.reshape(-1)[0]
    if ai is not None:
        w = ai.reshape(-1)[0]
        if isinstance(v, S.Sym) or isinstance(w, S.Sym):
            raise S.Unsupported(".item() of a symbolic complex value")
        return complex(float(v), float(w))
    return _py_scalar(v, x.dtype)


def _py_scalar(v, dt):
    if isinstance(v, S.Sym):
        return v
    if dt == torch.bool:
        return bool(v)
    if dt.is_floating_point:
        return float(v)
    return int(v)


@reg(T.tolist, nometa=True)
def _tolist(x):
    ar, ai = pl(x)
    if ai is not None:
        raise S.Unsupported("tolist of complex symbolic")
    dt = x.dtype
    return ew1(lambda v: _py_scalar(v, dt), ar).tolist()


@reg(T.__bool__, nometa=True)
def _bool(x):
    ar, _ = pl(x)
    if ar.size != 1:
        raise RuntimeError("Boolean value of Tensor with more than one value is ambiguous")
    return bool(_truthy(ar.reshape(-1)[0]))


@reg(T.__int__, T.__index__, nometa=True)
def _int(x):
    ar, _ = pl(x)
    if ar.size != 1:
        raise TypeError("only one element tensors can be converted to Python scalars")
    v = ar.reshape(-1)[0]
    return int(v)


@reg(T.__float__, nometa=True)
def _float(x):
    ar, _ = pl(x)
    if ar.size != 1:
        raise TypeError("only one element tensors can be converted to Python scalars")
    return float(ar.reshape(-1)[0])


@reg(T.__contains__, nometa=True)
def _contains(x, v):
    ar, _ = pl(x)
    vr, _ = pl(v)
    r = False
    for e in ar.reshape(-1):
        r = S.lor(r, S.eq(e, vr[()]))
    return bool(r)


@reg(torch.equal, T.equal, nometa=True)
def _equal(a, b):
    (ar, ai), (br, bi) = pl(a), pl(b)
    if ar.shape != br.shape:
        return False
    r = True
    for p, q in zip(ar.reshape(-1), br.reshape(-1)):
        r = S.land(r, S.eq(p, q))
        if r is False:
            return False
    if ai is not None or bi is not None:
        ai = _zero_like(ar) if ai is None else ai
        bi = _zero_like(br) if bi is None else bi
        for p, q in zip(ai.reshape(-1), bi.reshape(-1)):
            r = S.land(r, S.eq(p, q))
    return bool(r)


@reg(torch.allclose, T.allclose, nometa=True)
def _allclose(a, b, rtol=1e-05, atol=1e-08, equal_nan=False):
    r = _isclose(a, b, rtol, atol)
    acc = True
    for v in r.re.reshape(-1):
        acc = S.land(acc, v)
    return bool(acc)


@reg(torch.isclose, T.isclose)
def _isclose(a, b, rtol=1e-05, atol=1e-08, equal_nan=False):
    (ar, _), (br, _) = pl(a), pl(b)
    rt, at = S.norm(rtol), S.norm(atol)
    return Res(ew2(lambda p, q: S.le(S.sabs(S.sub(p, q)), S.add(at, S.mul(rt, S.sabs(q)))), ar, br))


@reg(torch.numel, T.numel, nometa=True)
def _numel(x):
    return int(np.prod(x.shape))


@reg(torch.diag, T.diag)
def _diag(x, diagonal=0):
    ar, _ = pl(x)
    if ar.ndim == 1:
        n = ar.shape[0]
        out = oarr((n, n), 0)
        for i in range(n):
            out[i, i] = ar[i]
        return Res(out)
    return Res(np.diagonal(ar, diagonal).copy())


@reg(torch.sort, T.sort, nometa=True)
def _sort(x, dim=-1, descending=False, stable=False):
    raise S.Unsupported("sort of symbolic values")


@reg(torch.topk, T.topk, nometa=True)
def _topk(x, *a, **k):
    raise S.Unsupported("topk of symbolic values")


@reg(torch.unique, T.unique, nometa=True)
def _unique(x, *a, **k):
    raise S.Unsupported("unique of symbolic values")


@reg(torch.nn.functional.one_hot, nometa=True)
def _one_hot(x, num_classes=-1):
    raise S.Unsupported("one_hot of symbolic values")
