"""vk - verification kit for contract-based deductive verification of ipc-lab/kaira.

See /verif/DESIGN.md.  Engines:
  vk.e2   symbolic execution of the *unmodified* kaira tensor functions (SymTensor + z3)
  vk.e1   ast -> verification conditions for pure-integer functions (loop invariants, z3)
  vk.e3   symbolic shapes through FakeTensorMode/ShapeEnv
"""

from . import z3guard  # noqa: E402,F401  (hard wall-clock guard on every z3 check of the process)
