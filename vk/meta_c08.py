"""Evidence metadata for C08 (power / amplitude / PAPR constraints)."""

META = {
    "level": "proof",
    "trusted_base": [
        "witness extraction: the positive factor s of 'out_item == s * x_item' is the execution's own auxiliary square-root variable (the one occurring in the item's output terms and not in its input terms); "
        "its defining side constraint s >= 0, s*s == radicand is part of the engine's sqrt axiomatisation (DESIGN 4.3)",
        "polynomial identities (out_i == x_i*s, radicand == T/(power(x_item)+1e-8) by structural match on the division node, power(out) == s^2*power(x), power(c x) == c^2 power(x)) are decided by normalisation "
        "(z3.simplify to sum-of-monomials form, no solver); where normalisation does not give 0 the equation goes to the solver instead",
        "cut rule (contracts/c08.py:_lemma): once every instantiated fact is established in the full context, 'facts => goal' is proved for ALL real values of 3..6 abstract variables (s, p, po | s1, s2, p, p2, v, c) by a "
        "separate z3 instance (unsat of facts and not goal); the goal then holds in the full context by instantiation. Used for scale_is_positive, never_more_than_target, target_within_0.1pct, idempotence and "
        "rescaling invariance (the latter for every c > 0, symbolic). If a fact is not established the clause is sent to the solver directly in the full context (this is what refutes mutants with a replayable input)",
        "vk/ops_cons.py abs_as_sqrt (opt-in, c08 only): |x| of a real symbol is kept as sqrt(x*x) so that torch.abs(x)**2 normalises to x*x (same treatment the base table gives complex magnitudes)",
        "dependency obligation: the input symbols occurring in an item's output terms, followed through the sqrt definitions, belong to that item (syntactic, sound for 'does not depend on'); natively the same clause "
        "is evaluated by perturbing all other items",
        "lemma L-scale (DESIGN 4.4) is not assumed: power(s x) = s^2 power(x) is re-proved per shape as a polynomial identity",
        "C08.composite_is_left_fold uses recording affine stand-ins (x -> a x + b, pairwise non-commuting) for the parts: CompositeConstraint.forward / apply_constraint_chain / combine_constraints / add_constraint "
        "apply each part exactly once, left to right, for 0..4 parts; the loop itself has no data dependence on the parts' values",
    ],
    "assumptions": [
        "an item is one batch element when the tensor has more than one dimension and more than one row, otherwise the whole tensor (this is the code's own dispatch and the property's 'batch item'); for the per-antenna "
        "constraint an item is one (batch, antenna) row, input layout [batch, antennas, ...]",
        "'non-zero input' for the positive-scaling clauses means item power >= 1e-9: below 1e-10 the constraints deliberately replace the item by a flat signal of the target power (C08.power_never_more covers EVERY "
        "input including that branch and mixed batches); 'non-negligible power' is >= 1e-5 as in the property (the bound follows from the code's +1e-8)",
        "targets on the grid {0.01, 1, 2.5, 1000}; shapes (n,), (1,n), (B,n), (B,c,h), (B,A,h,w) with <= 6 real or <= 4 complex elements per item; quick tier proves each shape for two of the four targets",
        "the per-antenna constraint stores its target as a float32 tensor: its scale law is stated with the float32 rounding of the limit, the limits themselves with the configured value (difference < 1e-7 relative, inside the 1e-6 slack)",
        "inequalities carry the 1e-6 slack of DESIGN 4.1 (sqrt(T) is computed once in float32 by the constructor)",
        "factory composites, symbolic part: create_ofdm_constraints(max_papr=None, peak_amplitude=A, total_power=T) on real signals, FEASIBLE configurations only (T <= n A^2); the end-to-end power clause only for n <= 2 samples "
        "per item (for longer items it rests on C08.power_never_more + C08.composite_is_left_fold and on the bounded sweep)",
        "PeakAmplitudeConstraint on complex input and create_ofdm_constraints(is_complex=True, peak_amplitude=...) REJECT the input (NotImplementedError from torch.clamp): accepted by the property as a rejection (closed obligation)",
    ],
    "out_of_reach": [
        "PAPRConstraint.forward/_apply_constraint_to_single_item: 15 data-dependent iterations with boolean masks - bounded stand-in only (C08.papr_bounded: 6 signal families x real/complex x limits 1.5..10 x n 8..256 x scales "
        "1e-2..1e4 x 5 layouts, non-sparse signals; output PAPR <= limit, no sample amplified or rotated, batched path == batch-of-one path). torch.vmap raises RuntimeError on the data-dependent `break`, the except branch "
        "loops over the items: both are exercised natively, neither symbolically. Its contract enters the factory composites only through the bounded sweep C08.factory_limits_bounded",
        "create_mimo_constraints with PAPR / SpectralMaskConstraint (FFT) stages: bounded only; SpectralMaskConstraint itself is not part of the property",
        "float32 behaviour at the extreme scales (1e4 inputs squared, 1e-2 inputs near the 1e-5 power threshold): covered by the bounded sweep C08.families_power, not by the proof (floats are reals)",
        "measure_signal_properties papr_db (log10) is not under contract; mean/peak/papr are (shapes up to 3 real / 2 complex samples)",
    ],
}
