"""Symbolic ops contributed for the modulators (C05/C14): integer shifts by concrete amounts and bitwise-or of
bit-disjoint non-negative integers (DPSK `indices | bit << s`, pi/4-QPSK `bits_0 << 1 | bits_1`).

`a | b` on integers is only modelled when it provably equals `a + b`: both operands are non-negative integer-linear
combinations of bit atoms whose coefficients are distinct powers of two (so the value's binary expansion has no carries) and
the two supports are disjoint.  Anything else stays `Unsupported` (falls through to the base handler).
"""
from __future__ import annotations

import numpy as np
import torch

from . import sym as S
from .mode import Res, reg
from .ops import ew2, pl

T = torch.Tensor


def _shift_amount(s):
    if isinstance(s, torch.Tensor):
        sr, _ = pl(s)
        if any(isinstance(v, S.Sym) for v in sr.reshape(-1)):
            raise S.Unsupported("shift by a symbolic amount")
        return sr
    if isinstance(s, S.Sym):
        raise S.Unsupported("shift by a symbolic amount")
    a = np.empty((), dtype=object)
    a[()] = int(s)
    return a


@reg(T.__lshift__, torch.bitwise_left_shift, T.bitwise_left_shift)
def _lshift(a, s):
    ar, _ = pl(a)
    sr = _shift_amount(s)

    def f(v, k):
        k = int(k)
        if k < 0:
            raise S.Unsupported("negative shift")
        return S.mul(v, 2**k)

    return Res(ew2(f, ar, sr))


def _support(v):
    """set of bit positions that may be set in the non-negative integer v (exact, carry-free), or None if unknown"""
    if isinstance(v, bool):
        return {0} if v else set()
    if isinstance(v, int):
        if v < 0:
            return None
        return {i for i in range(v.bit_length()) if (v >> i) & 1}
    if isinstance(v, S.Sym) and v.lin is not None:
        c, terms = v.lin
        if not isinstance(c, int) or c < 0:
            return None
        sup = {i for i in range(c.bit_length()) if (c >> i) & 1}
        for _atom, k in terms:
            if not isinstance(k, int) or k <= 0 or (k & (k - 1)) != 0:
                return None
            pos = k.bit_length() - 1
            if pos in sup:
                return None
            sup.add(pos)
        return sup
    return None


def _or_scalar(a, b):
    sa, sb = isinstance(a, S.Sym), isinstance(b, S.Sym)
    if not sa and not sb:
        return S.lor(a, b)
    boolish = lambda v, s: (v.sort == "bool") if s else isinstance(v, bool)
    if boolish(a, sa) and boolish(b, sb):
        return S.lor(a, b)
    pa, pb = _support(a), _support(b)
    if pa is not None and pb is not None and not (pa & pb):
        return S.add(a, b)  # disjoint binary expansions: or == sum
    return S.lor(a, b)  # 0/1-valued operands, or Unsupported


@reg(T.__or__, T.__ror__, torch.bitwise_or, T.bitwise_or)
def _or(a, b):
    (ar, _), (br, _) = pl(a), pl(b)
    return Res(ew2(_or_scalar, ar, br))


# ------------------------------------------------------------------------------------------------
# argmin / argmax over Euclidean distances |y - c_j| (sqrt forms): decided on the radicands.
# x -> x^2 is strictly increasing on x >= 0, so the first index attaining the minimum (maximum) is the same for the radicands;
# without this the base handler materialises one fresh sqrt variable (with s >= 0, s*s == r) per distance as soon as two of
# them meet in an ITE, and every nearest-point query becomes non-linear in auxiliary variables.
from .ops import _argmax as _base_argmax  # noqa: E402
from .ops import _argmin as _base_argmin  # noqa: E402
from .ops import ew1  # noqa: E402
from .tensor import SymTensor  # noqa: E402


def _radicands(x):
    if not isinstance(x, torch.Tensor) or x.dtype.is_complex:
        return x
    ar, _ = pl(x)
    flat = ar.reshape(-1)
    if not any(isinstance(v, S.Sym) and v.rad is not None for v in flat):
        return x
    for v in flat:
        if isinstance(v, S.Sym):
            if v.rad is None:
                return x
        elif isinstance(v, float) or v < 0:
            return x
    sq = ew1(lambda v: v.rad if isinstance(v, S.Sym) else S.mul(v, v), ar)
    return SymTensor(sq, None, x.dtype)


@reg(T.argmin, torch.argmin)
def _argmin(x, dim=None, keepdim=False):
    return _base_argmin(_radicands(x), dim, keepdim)


@reg(T.argmax, torch.argmax)
def _argmax(x, dim=None, keepdim=False):
    return _base_argmax(_radicands(x), dim, keepdim)


# ------------------------------------------------------------------------------------------------
# torch.conj on CONCRETE operands: the real kernel returns a lazy-conjugate view whose .imag carries the negative bit, which
# vk.tensor.lift cannot read (.numpy() refuses).  Run the payload-level conjugation for concrete operands too ("always").
from .ops import _conj as _base_conj  # noqa: E402


@reg(T.conj, torch.conj, nometa="always")
def _conj_always(x):
    r = _base_conj(x)
    return Res(r.re, r.im, x.dtype)
