"""Op-table additions for the soft-decision decoders (C10 / C11).

Nothing here changes the behaviour of the shared op table unless a contract explicitly enters `piecewise()`:

* `piecewise()`      products in which one factor is *finite-valued* (an if-then-else tree with constant leaves, possibly under
                     affine operations: signs, hard decisions 0.5*(1-sign(l)), partial sums mod 2) are distributed into the tree,
                     `ite(c, k1, k2) * y  ==  ite(c, k1*y, k2*y)` - an identity of real arithmetic that turns the min-sum / bit-node
                     updates into piecewise-LINEAR terms (z3 LRA instead of NRA).  `remainder(x, 2)` of a finite-valued x is evaluated
                     per case.
* `piecewise(abstract_products=True)`   additionally a product of two non-finite-valued symbolic reals becomes an application of the
                     uninterpreted function `rmul` with the sign axioms of real multiplication (used for tanh(x/2)*tanh(y/2) in the
                     sum-product check node, DESIGN 4.3 "boxplus").  Proving a claim for every interpretation of `rmul` that obeys the
                     axioms proves it for the real product; a model found under the abstraction counts only if it replays natively.

Scalar helpers `smul`, `rmul`, `finite_cases` are used by the specification side of the contracts as well.
"""
from __future__ import annotations

import contextlib
from fractions import Fraction

import torch
import z3

from . import sym as S
from .mode import HANDLERS, Res, reg
from .ops import ew1, ew2, pl

T = torch.Tensor

ENABLED = [False]
ABSTRACT = [False]
LIMIT = 24


@contextlib.contextmanager
def piecewise(abstract_products=False):
    old = (ENABLED[0], ABSTRACT[0])
    ENABLED[0], ABSTRACT[0] = True, bool(abstract_products)
    try:
        yield
    finally:
        ENABLED[0], ABSTRACT[0] = old


# ------------------------------------------------------------------------------------------------ finite-valued terms
_CACHE = {}


def _and(a, b):
    if a is True:
        return b
    if b is True:
        return a
    return z3.And(a, b)


def _or(a, b):
    if a is True or b is True:
        return True
    return z3.Or(a, b)


def _num(e):
    if z3.is_int_value(e):
        return Fraction(e.as_long())
    if z3.is_rational_value(e):
        return Fraction(e.numerator_as_long(), e.denominator_as_long())
    return None


def _combine(ca, cb, f):
    out = {}
    for va, xa in ca.items():
        for vb, xb in cb.items():
            v = f(va, vb)
            c = _and(xa, xb)
            out[v] = c if v not in out else _or(out[v], c)
    return out if len(out) <= LIMIT else None


def _cases_expr(e):
    """z3 arithmetic term -> {value: condition} (conditions exhaustive and mutually exclusive) or None"""
    key = e.get_id()
    if key in _CACHE:
        hit = _CACHE[key]
        if hit[0].eq(e):
            return hit[1]
    r = _cases_expr0(e)
    if len(_CACHE) > 200000:
        _CACHE.clear()
    _CACHE[key] = (e, r)
    return r


def _cases_expr0(e):
    v = _num(e)
    if v is not None:
        return {v: True}
    if not z3.is_app(e):
        return None
    k = e.decl().kind()
    ch = e.children()
    if k == z3.Z3_OP_ITE:
        ca, cb = _cases_expr(ch[1]), _cases_expr(ch[2])
        if ca is None or cb is None:
            return None
        out = {}
        for val, x in ca.items():
            out[val] = _and(ch[0], x)
        nc = z3.Not(ch[0])
        for val, x in cb.items():
            c = _and(nc, x)
            out[val] = c if val not in out else _or(out[val], c)
        return out if len(out) <= LIMIT else None
    if k in (z3.Z3_OP_ADD, z3.Z3_OP_MUL, z3.Z3_OP_SUB):
        acc = _cases_expr(ch[0])
        if acc is None:
            return None
        f = {z3.Z3_OP_ADD: lambda a, b: a + b, z3.Z3_OP_MUL: lambda a, b: a * b, z3.Z3_OP_SUB: lambda a, b: a - b}[k]
        for c in ch[1:]:
            cc = _cases_expr(c)
            if cc is None:
                return None
            acc = _combine(acc, cc, f)
            if acc is None:
                return None
        return acc
    if k == z3.Z3_OP_UMINUS:
        ca = _cases_expr(ch[0])
        return None if ca is None else {-v: x for v, x in ca.items()}
    if k == z3.Z3_OP_TO_REAL:
        return _cases_expr(ch[0])
    return None


def finite_cases(v):
    """{value: condition} if the scalar is finite-valued by construction, else None.  Bit atoms (GF(2) normal form) are left alone."""
    if not isinstance(v, S.Sym):
        return None
    if v._e is None:
        return None  # lin / bx / sqrt forms keep their own normal forms
    if v.sort == "bool":
        return None
    return _cases_expr(v.e)


def _tree(cases):
    """{value: cond} -> Sym if-then-else chain with constant leaves (or a constant)"""
    items = sorted(cases.items(), key=lambda kv: kv[0])
    if len(items) == 1:
        return S.norm(items[0][0])
    acc = S._zconst(S.norm(items[-1][0]), True)
    for val, cond in reversed(items[:-1]):
        acc = z3.If(cond if cond is not True else z3.BoolVal(True), S._zconst(S.norm(val), True), acc)
    return S.Sym(acc)


_RMUL = z3.Function("rmul", z3.RealSort(), z3.RealSort(), z3.RealSort())
_RMUL_SEEN = {}


def rmul(a, b):
    """uninterpreted real product with the sign axioms of multiplication (per occurrence); concrete arguments are multiplied"""
    if not isinstance(a, S.Sym) and not isinstance(b, S.Sym):
        return S.mul(a, b)
    x, y = S.zreal(a), S.zreal(b)
    r = _RMUL(x, y)
    ex = S.explorer()
    if ex is not None:
        seen = ex.__dict__.setdefault("_rmul_seen", set())
        key = (x.get_id(), y.get_id())
        if key not in seen:
            seen.add(key)
            for ax in (
                z3.Implies(z3.Or(x == 0, y == 0), r == 0),
                z3.Implies(z3.Or(z3.And(x > 0, y > 0), z3.And(x < 0, y < 0)), r > 0),
                z3.Implies(z3.Or(z3.And(x > 0, y < 0), z3.And(x < 0, y > 0)), r < 0),
                # |x| < 1  =>  |x y| <= |y| with the sign already fixed above (used for tanh products)
                z3.Implies(z3.And(x > -1, x < 1, y >= 0), z3.And(r <= y, r >= -y)),
                z3.Implies(z3.And(x > -1, x < 1, y <= 0), z3.And(r >= y, r <= -y)),
                z3.Implies(z3.And(y > -1, y < 1, x >= 0), z3.And(r <= x, r >= -x)),
                z3.Implies(z3.And(y > -1, y < 1, x <= 0), z3.And(r >= x, r <= -x)),
            ):
                ex.add_side(ax)
    return S.Sym(r)


def smul(a, b):
    """product that keeps finite-valued factors as case distinctions (exact), see module docstring"""
    if not isinstance(a, S.Sym) or not isinstance(b, S.Sym):
        return S.mul(a, b)
    ca, cb = finite_cases(a), finite_cases(b)
    if ca is not None and cb is not None:
        prod = _combine(ca, cb, lambda p, q: p * q)
        if prod is not None:
            return _tree(prod)
    if ca is None and cb is not None:
        a, b, ca, cb = b, a, cb, ca
    if ca is not None:
        items = sorted(ca.items(), key=lambda kv: kv[0])
        acc = S.mul(S.norm(items[-1][0]), b)
        for val, cond in reversed(items[:-1]):
            acc = S.ite(S.Sym(cond) if cond is not True else True, S.mul(S.norm(val), b), acc)
        return acc
    if ABSTRACT[0] and a.sort == "real" and b.sort == "real" and a.rad is None and b.rad is None:
        return rmul(a, b)
    return S.mul(a, b)


def smod(a, b):
    if isinstance(a, S.Sym) and not isinstance(b, S.Sym):
        ca = finite_cases(a)
        bb = S.norm(b)
        if ca is not None and not isinstance(bb, float) and bb > 0:
            out = {}
            for v, c in ca.items():
                r = v - bb * (v // bb)
                out[r] = c if r not in out else _or(out[r], c)
            return _tree(out)
    return S.mod(a, b)


# ------------------------------------------------------------------------------------------------ scoped handler overrides
_MUL_FUNCS = (T.mul, T.__mul__, T.__rmul__, torch.mul, torch.multiply, T.multiply)
_MOD_FUNCS = (T.__mod__, T.remainder, torch.remainder)
_ORIG_MUL = HANDLERS[T.mul][0]
_ORIG_MOD = HANDLERS[torch.remainder][0]


@reg(*_MUL_FUNCS)
def _mul_soft(a, b):
    if not ENABLED[0]:
        return _ORIG_MUL(a, b)
    (ar, ai), (br, bi) = pl(a), pl(b)
    if ai is not None or bi is not None:
        return _ORIG_MUL(a, b)
    return Res(ew2(smul, ar, br))


@reg(*_MOD_FUNCS)
def _mod_soft(a, b):
    if not ENABLED[0]:
        return _ORIG_MOD(a, b)
    (ar, ai), (br, _) = pl(a), pl(b)
    if ai is not None:
        return _ORIG_MOD(a, b)
    return Res(ew2(smod, ar, br))


# ------------------------------------------------------------------------------------------------ torch's "sequence as tuple" indexing rule
# torch (python_variable_indexing.cpp, treatSequenceAsTuple): a non-tuple sequence used as an index is a TUPLE of indices when it is
# shorter than 32 and contains a tensor, a sequence, a slice, None or Ellipsis; a list of plain ints is ONE advanced index.
# vk/ops.py:_idx passes every list to numpy, which always reads it as one advanced index.  Scoped correction (proposed for ops.py):
LISTIDX = [False]


@contextlib.contextmanager
def torch_list_index():
    old = LISTIDX[0]
    LISTIDX[0] = True
    try:
        yield
    finally:
        LISTIDX[0] = old


def _seq_as_tuple(i):
    if LISTIDX[0] and isinstance(i, list) and len(i) < 32 and any(isinstance(j, (torch.Tensor, list, tuple, slice)) or j is None or j is Ellipsis for j in i):
        # a symbolic 0-dim index tensor inside the sequence is concretised by forking over its feasible values (as ops.py does for lists)
        from .tensor import SymTensor

        return tuple(HANDLERS[T.__int__][0](j) if (isinstance(j, SymTensor) and j.dim() == 0 and not j.is_concrete()) else j for j in i)
    return i


_ORIG_GET = HANDLERS[T.__getitem__][0]
_ORIG_SET = HANDLERS[T.__setitem__][0]


@reg(T.__getitem__, nometa=True)
def _getitem_soft(x, i):
    return _ORIG_GET(x, _seq_as_tuple(i))


@reg(T.__setitem__, nometa=True)
def _setitem_soft(x, i, v):
    i = _seq_as_tuple(i)
    if LISTIDX[0] and isinstance(i, tuple):
        # ops.py cannot assign at a symbolic position: fork over the feasible values of a symbolic 0-dim index (finite domain)
        from .tensor import SymTensor

        i = tuple(HANDLERS[T.__int__][0](j) if (isinstance(j, SymTensor) and j.dim() == 0 and not j.is_concrete()) else j for j in i)
    return _ORIG_SET(x, i, v)


# ------------------------------------------------------------------------------------------------ torch.min / torch.max (dim): keep the structseq
# vk/mode.py:_wrap rebuilds any tuple of handler results as a plain tuple, so `torch.min(x, dim).values` raises AttributeError under the
# engine although ops.py returns torch.return_types.min.  Correction here (proposed for mode.py: `type(res)(out)` for structseq results):
_ORIG_MIN = HANDLERS[torch.min][0]
_ORIG_MAX = HANDLERS[torch.max][0]


def _keep_structseq(orig, kind):
    def h(x, *a, **k):
        from .tensor import SymTensor

        r = orig(x, *a, **k)
        if isinstance(r, tuple) and len(r) == 2 and all(isinstance(q, Res) for q in r):
            return kind((SymTensor(r[0].re, None, x.dtype), SymTensor(r[1].re, None, torch.int64)))
        return r

    return h


reg(T.min, torch.min)(_keep_structseq(_ORIG_MIN, torch.return_types.min))
reg(T.max, torch.max)(_keep_structseq(_ORIG_MAX, torch.return_types.max))
