"""Evidence metadata for C07 (merged into vk/meta.py PROPS["C07"])."""

META = {
    "level": "proof",
    "trusted_base": [
        "RNG contract stub: torch.randn/randn_like/rand return fresh symbols (normal: unconstrained reals, uniform: [0,1)); the draws are universally quantified inputs of every obligation and are replayed natively",
        "moment lemma L-moment (DESIGN 4.2/4.4): for independent zero-mean symbols g_j with variance v_j and coefficients C_ij free of g, E[sum_j C_ij g_j] = 0 and E|sum_j C_ij g_j|^2 = sum_j |C_ij|^2 v_j; "
        "functions of disjoint sets of symbols are independent. The solver proves the algebra (affine form, coefficients, sum of squares), the lemma turns it into the distributional statement",
        "evaluation of the real function at other points of the draw space (zero vector, unit vectors, mirrored / masked draws) by re-execution with a prescribing RNG stub (contracts/c07.py:Forced, eval_at); "
        "coefficients C_ij := F(x; e_j) - F(x; 0) are therefore free of RNG symbols by construction",
        "contracts/c07.py normalisers (zsimp / unsqrt / rat_eq, about 120 lines): z3.simplify(som=True) polynomial normal form; rewriting s*s -> r for the engine's sqrt auxiliaries (s >= 0, s*s == r are side constraints of the path), "
        "|t|*|t| -> t*t, cross-multiplied rational-function equality (denominators proved non-zero separately). A claim discharged by these is reported as backend normal-form; each rewriting is validated by the seeded mutations listed in the report",
        "vk/ops_chan.py: pow10 as an uninterpreted function for symbolic exponents with per-occurrence axioms (positive, pow10(0)=1, pow10(1)=10, strictly monotone, inverse pair with log10 occurrences); sqrt memoisation per path (function congruence)",
        "log10 theory instances used by C07.snr_eps_lemma: log10(a) - log10(b) = log10(a/b) for a, b > 0 and (1 - 1/r)/ln10 <= log10(r) <= (r - 1)/ln10 with 1/ln10 enclosed in [0.4342944, 0.4342945]",
        "mpmath quadrature (20 digits, break points at the clamp and at 1/2) of the expression T(u) that the real _get_laplacian_noise produced symbolically: E T = 0 (also proved: T(1-u) = -T(u)), E T^2 = 1.99997037 = 2(1 - 1.48e-5); closed form 2 - 2 eps (1 - ln eps), eps = 1 - float32(0.999999)",
    ],
    "assumptions": [
        "torch.randn* entries are independent with mean 0 and variance 1; torch.rand* independent uniform on [0,1) (assumed contract on the dependency, never sampled here)",
        "tolerances: every equality is |a - b| <= 1e-6 * scale + 1e-12, scale = magnitudes entering the float computation (|x_i|, |C_ij g_j|, configured power); SNR form: mean|x|^2 == 10^(snr/10) * noise power with 10^(snr/10) the float64 value (torch pow); "
        "Laplacian power obligations use Var(t) = 2 for the unit Laplacian (true value 2(1 - 1.5e-5), stated tolerance 1e-3)",
        "noise power is symbolic (0-dim tensor, P > 0) or on the grid 1e-3..1e3; SNR values are concrete on the grid -20..40 dB because the code converts them with float(); shapes (n,), (B,n), (B,1,n) with at most 4 elements; float32/complex64 inputs (dtypes only matter for promotion: floats are reals)",
        "C07.laplacian is modular: forward is verified with its callee _get_laplacian_noise replaced by the callee's contract (fresh symbols t, E t = 0, E t^2 = 2(1-delta)), and the callee is verified separately against that contract (C07.laplacian_transform)",
        "LaplacianChannel(scale=b) on complex input: the documentation does not say whether b scales each component or the complex sample; both readings (total power 4 b^2 or 2 b^2) are admitted",
        "NonlinearChannel: nonlinear_fn in {t + 0.1 t^3, t/(1+t^2), 0.5 t^2 + 0.25 t}; complex_mode 'polar' (atan2 / complex exp are outside the op table) is verified for three concrete inputs with symbolic noise power and draws",
        "SNR measurement functions: requires P_n >= 1e-3 (clamp(min=eps) inactive, +eps moves the result by <= 1e-3 dB) and P_s > 0 for the metric; 'one definition of SNR' = every function applies the same uninterpreted pow10/log10 to the textbook argument",
        "composition 'measuring channel(x) with the library's tools returns the configured value' is the lemma: channel contract (y - x = sum_j C_j g_j, sum |C|^2 Var = P_s/10^(snr/10)) + measurement contract (10 log10(P_s / mean|y - x|^2)) + L-moment (E mean|y-x|^2 = P_n); it is not sampled",
        "obligations whose result contains an uninterpreted function (snr_conversions, snr_measurement, snr_eps_lemma, laplacian_transform) run without the harness' model-based differential cross-check; their concrete behaviour is covered by C07.snr_grid (bounded)",
    ],
    "out_of_reach": [
        "SignalToNoiseRatio.forward on batched COMPLEX input (B > 1): the per-row feasibility query does not terminate reliably in nlsat; proved for unbatched complex and batched real input; batched complex rows are bounded only (C07.snr_grid/metric)",
        "StandardMetrics.signal_to_noise_ratio returns float(...) of the result (concretisation of a symbolic real): bounded only (C07.snr_grid/standard_metrics, dense grid against mpmath)",
        "snr_linear_to_db with zeros among positive entries writes -inf through a mask (non-finite constants in symbolic ITEs are unsupported): bounded only (C07.snr_grid/zero_and_edge)",
        "the unit-variance law of torch.randn itself and the statistical statement (empirical power on 1e6 samples): assumed / follows from the proved algebra; only the deterministic same-seed scaling relation is executed (C07.same_seed_scaling, bounded)",
        "float32 rounding of the noise scale (e.g. snr_to_noise_power returns float32): not modelled (floats are reals)",
    ],
}
