"""Evidence metadata for C17."""

META = {
    "level": "proof",
    "trusted_base": [
        "vk.listvc: translation of add_step/remove_step ASTs (callable guard, append; range guard, pop(index); return self) into z3 sequence terms of unbounded length",
        "vk.foldvc: translation of the fold-loop AST (assign / for over the declared stage sequence / stage call with forwarded *args, **kwargs / return) into z3 with uninterpreted stages and an unbounded stage count",
        "free term algebra of the recording stubs: a stage returns the term ('app', name, input), so equality of results holds for every interpretation of the stage functions",
        "executor contract stub: ThreadPoolExecutor.submit(f, *a) calls f(*a) exactly once, Future.result() returns its value or re-raises; as_completed(fs) yields each future exactly once in an order that depends on timing; with w workers and FIFO start order branch j can complete only after at least j-w+1 lower-indexed branches have completed",
    ],
    "assumptions": [
        "thread timing is replaced by the library contract of concurrent.futures: every completion order admissible for the worker count is enumerated (exhaustive for n <= 4 quick / 5 thorough branches); real threads are used only to replay a refuting order with event-gated branches",
        "branch names of a ParallelModel are distinct (the dict-keyed result cannot represent duplicates)",
        "stub-run obligations are per stage count n = 0..6 / rounds 1..5 / users 1..3(4): the unbounded statement for the fold loops is the foldvc obligation",
    ],
    "out_of_reach": ["histories of add/remove operations follow by induction from the unbounded mutator contracts (vk.listvc); the exhaustive histories (length 3 quick / 4 thorough) are a bounded cross-check of that induction"],
}
