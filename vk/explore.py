"""Path explorer: decision-prefix re-execution with feasibility pruning (DESIGN.md 3.3 'Paths')."""
from __future__ import annotations

import z3

from . import sym as S


def _zv(v):
    from fractions import Fraction

    if isinstance(v, Fraction):
        return z3.RealVal(f"{v.numerator}/{v.denominator}")
    return v


class PathInfeasible(BaseException):
    pass


class PathBudget(BaseException):
    pass


class Explorer:
    def __init__(self, prefix=(), solver_timeout_ms=20000):
        self.prefix = list(prefix)
        self.trace = []
        self.todo = []
        self.pc = []
        self.sides = []
        self.assumes = []
        self.solver = z3.Solver()
        self.solver.set("timeout", solver_timeout_ms)
        self.ufs = {}
        self.nqueries = 0
        self.solver_time = 0.0

    # -- constraints -------------------------------------------------------------------------
    def add_side(self, c):
        self.sides.append(c)
        self.solver.add(c)

    def assume(self, c):
        """Precondition; Python False aborts the path as infeasible."""
        if isinstance(c, S.Sym):
            c = S.as_bool(c)
        if isinstance(c, bool):
            if not c:
                raise PathInfeasible()
            return
        self.assumes.append(c)
        self.solver.add(c)

    def _check(self, *extra):
        import time

        t0 = time.time()
        self.solver.push()
        for c in extra:
            self.solver.add(c)
        r = self.solver.check()
        self.last_model = None
        if r == z3.sat and getattr(self, "want_model", False):
            try:
                self.last_model = self.solver.model()
            except z3.Z3Exception:
                self.last_model = None
        self.solver.pop()
        self.nqueries += 1
        self.solver_time += time.time() - t0
        return r

    # -- decisions -----------------------------------------------------------------------------
    def decide(self, cond):
        if isinstance(cond, S.Sym):
            cond = S.as_bool(cond)
        if isinstance(cond, bool):
            return cond
        i = len(self.trace)
        if i < len(self.prefix):
            v = self.prefix[i]
            if not isinstance(v, bool):
                raise S.EngineFault("decision kind mismatch on re-execution (non-deterministic code under test?)")
        else:
            ft = self._check(cond) != z3.unsat
            ff = self._check(z3.Not(cond)) != z3.unsat
            if ft and ff:
                self.todo.append(self.trace + [False])
                v = True
            elif ft:
                v = True
            elif ff:
                v = False
            else:
                raise PathInfeasible()
        self.trace.append(v)
        c = cond if v else z3.Not(cond)
        self.pc.append(c)
        self.solver.add(c)
        return v

    def decide_value(self, sym):
        """Concretise an integer-sorted symbolic value by enumerating its feasible values."""
        e = sym.e
        i = len(self.trace)
        excluded = ()
        if i < len(self.prefix):
            ent = self.prefix[i]
            if isinstance(ent, tuple) and ent[0] == "val":
                v = ent[1]
                self.trace.append(ent)
                c = e == _zv(v)
                self.pc.append(c)
                self.solver.add(c)
                return v
            if isinstance(ent, tuple) and ent[0] == "excl":
                excluded = ent[1]
            else:
                raise S.EngineFault("decision kind mismatch on re-execution")
        self.solver.push()
        for x in excluded:
            self.solver.add(e != _zv(x))
        r = self.solver.check()
        if r == z3.unsat:
            self.solver.pop()
            raise PathInfeasible()
        if r != z3.sat:
            self.solver.pop()
            raise S.Unsupported("value enumeration: solver returned unknown")
        mv = self.solver.model().eval(e, model_completion=True)
        if z3.is_int_value(mv):
            v = mv.as_long()
        elif z3.is_rational_value(mv):
            from fractions import Fraction

            v = S.norm(Fraction(mv.numerator_as_long(), mv.denominator_as_long()))
        else:
            raise S.Unsupported('value enumeration of a non-rational value')
        self.solver.pop()
        if len(excluded) > 4096:
            raise S.Unsupported("value enumeration exceeds 4096 alternatives")
        self.todo.append(self.trace + [("excl", tuple(excluded) + (v,))])
        self.trace.append(("val", v))
        c = e == _zv(v)
        self.pc.append(c)
        self.solver.add(c)
        return v

    # -- uninterpreted functions: per-occurrence axioms ------------------------------------------
    def note_uf(self, name, x, y):
        occ = self.ufs.setdefault(name, [])
        ax = []
        if name == "exp":
            ax += [y > 0, z3.Implies(x > 0, y > 1), z3.Implies(x < 0, y < 1), z3.Implies(x == 0, y == 1), y >= 1 + x]
        elif name in ("log", "log2", "log10"):
            ax += [z3.Implies(x > 1, y > 0), z3.Implies(z3.And(x > 0, x < 1), y < 0), z3.Implies(x == 1, y == 0)]
        elif name == "tanh":
            ax += [y < 1, y > -1, z3.Implies(x > 0, y > 0), z3.Implies(x < 0, y < 0), z3.Implies(x == 0, y == 0)]
        elif name == "atanh":
            ax += [z3.Implies(x > 0, y > 0), z3.Implies(x < 0, y < 0), z3.Implies(x == 0, y == 0)]
        elif name == "sigmoid":
            ax += [y > 0, y < 1, z3.Implies(x > 0, y > z3.RealVal("1/2")), z3.Implies(x < 0, y < z3.RealVal("1/2")), z3.Implies(x == 0, y == z3.RealVal("1/2"))]
        elif name in ("sin", "cos"):
            ax += [y <= 1, y >= -1]
        mono = name in ("exp", "log", "log2", "log10", "tanh", "atanh", "sigmoid")
        for (x2, y2) in occ:
            if mono:
                ax += [z3.Implies(x < x2, y < y2), z3.Implies(x2 < x, y2 < y)]
        occ.append((x, y))
        for a in ax:
            self.add_side(a)


def run_paths(body, max_paths=4096, solver_timeout_ms=20000):
    """Run `body(ex)` once per feasible path.  Yields (explorer, result) where result is whatever body returned.
    body must be deterministic given the decision prefix."""
    todo = [[]]
    n = 0
    while todo:
        prefix = todo.pop()
        ex = Explorer(prefix, solver_timeout_ms)
        S.set_explorer(ex)
        try:
            try:
                res = body(ex)
            except PathInfeasible:
                todo.extend(ex.todo)
                continue
        finally:
            S.set_explorer(None)
        todo.extend(ex.todo)
        n += 1
        yield ex, res
        if n >= max_paths and todo:
            raise PathBudget(f"path budget {max_paths} exhausted with {len(todo)} pending")
