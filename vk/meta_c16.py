"""Evidence metadata for C16 (error-rate metrics; streaming form as a data structure with abstract view (T, E))."""

META = {
    "level": "proof",
    "trusted_base": [
        "lemma L-fold (DESIGN 4.4): a left fold of (T, E) -> (T + n, E + d) over a sequence of batches depends only on the multiset of (n, d) pairs. Use: base case = C16.reset/state_is_initial + "
        "same_as_fresh_object ((0,0) after the constructor and after reset); induction step = C16.update/total_advances_by_batch_size + errors_advance_by_batch_errors, proved for a SYMBOLIC prior state "
        "0 <= E <= T <= 1e12 and a symbolic batch; C16.compute reads the state without changing it (state_unchanged). Hence after any history the state is (sum n_i, sum d_i) over the updates since the last "
        "reset, compute() == sum d_i / max(sum n_i, 1), which is the one-shot value on the concatenation because d and db are additive over concatenation along the batch dimension (blocks never straddle batch "
        "items) - for histories of any length, any split, any order. C16.streaming_equals_oneshot proves the two-batch instance (unequal sizes, both orders) directly against forward(cat); C16.histories is the "
        "bounded cross-check of the induction (never counted as proved)",
        "spec functions d (differing positions; complex: real and imaginary parts are positions) and db (blocks = consecutive runs of B elements of one batch item, dim 0 = batch) are written from the "
        "property statement; for bit-valued payloads d is kept in the GF(2)-affine normal form, so most BER clauses are decided structurally",
    ],
    "assumptions": [
        "inputs are binary tensors (0/1 values in float32 / int64, complex64 with 0/1 real and imaginary parts) - the property's domain; thresholds (BER 0.5 on values, BLER 0.0 on |x-y|) coincide on it",
        "BlockErrorRate treats dim 0 as the batch dimension: a 1-D tensor is a batch of 1-element items (block_size None or 1 only; other sizes are rejected with ValueError)",
        "BlockErrorRate.compute converts both counters with float(): the engine enumerates every counter value, so its contract is proved for all 0 <= E <= T <= 6 (quick) / 14 (thorough) - beyond that it rests "
        "on CPython float(int)/float(int); BitErrorRate.compute is proved for unbounded symbolic counters",
        "equalities between a float32 result and the exact rational count carry a 1e-6 relative tolerance natively (exact in the symbolic run, where floats are reals); the cross-metric inequalities carry a 1e-6 slack",
        "streaming state invariant 0 <= E <= T is assumed on entry of update/compute/reset and proved preserved by update (invariant_preserved)",
        "helper metrics: common domain = 1-D data whose length is a multiple of block_size, compared with the metric class on the same data as ONE batch item",
    ],
    "out_of_reach": [
        "float32/float64 rounding of the quotient and of error_bits.float() for counters above 2^24 (floats are reals)",
        "histories: exhaustive only up to length 4 (quick) / 6 (thorough) over a pool of 4 batches + random histories up to length 200 - bounded cross-check; the unbounded statement is the L-fold argument above",
        "kaira/metrics/signal/evm.py and kaira/metrics/base.py (listed as anchors) contain no error-rate counting; BaseMetric.forward/compute_with_stats are not part of the property statement",
    ],
}
