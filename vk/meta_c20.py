"""Evidence metadata for C20."""

META = {
    "level": "proof",
    "trusted_base": ["equality of the batch result with the single-member result is a term-level statement over the same input symbols: position independence and independence of other members follow because the single-member term mentions that member's symbols only"],
    "assumptions": ["batches of 2 and 3 members and nested (2,1) leading dimensions; (B, 2*n) for the block-grouping clause; configuration grid as in C01"],
    "out_of_reach": ["BerlekampMasseyDecoder and ReedMullerDecoder (majority logic) concretise every received bit: bounded stand-in (seeded random batches of 1..6 members incl. special members, permutations, layouts, six input dtypes)", "soft-input decoders beyond the tiny symbolic instances (Wagner k <= 4, SC N <= 8, soft RM(1,2); every sign decision forks and a batch of two squares the path count): bounded stand-in C20.soft_decoders_bounded over Wagner, SC, polar BP, LDPC BP / min-sum, soft RM", "demodulators of constellations with more than 8 (thorough 16) points and modulators with more than 64 points: bounded stand-ins C20.modulators_bounded / C20.demodulators_bounded", "schemes with memory (DPSK, OQPSK, pi/4-QPSK) are not per-sample pure by design; their batch behaviour is part of C05", "power constraints: bounded stand-in C20.constraints_bounded (the symbolic per-item clauses are C08's)"],
}
