"""Evidence metadata for C20."""

META = {
    "level": "proof",
    "trusted_base": ["equality of the batch result with the single-member result is a term-level statement over the same input symbols: position independence and independence of other members follow because the single-member term mentions that member's symbols only"],
    "assumptions": ["batches of 2 and 3 members and nested (2,1) leading dimensions; (B, 2*n) for the block-grouping clause; configuration grid as in C01"],
    "out_of_reach": ["BerlekampMasseyDecoder and ReedMullerDecoder (majority logic) concretise every received bit: bounded stand-in (seeded random batches of 1..6 members incl. special members, permutations, layouts)", "modulators/demodulators and power constraints are covered by the per-property contracts C05/C06/C08 which use batched layouts; their batch-purity clauses are stated there"],
}
