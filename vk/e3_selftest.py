"""Seeded-mutation self-test of engine E3 / the C19 contracts (DESIGN.md section 5).

Works on a scratch copy of the relevant /repo files under a fresh tempfile.mkdtemp() OUTSIDE /repo and /verif (removed
afterwards).  Each copy is loaded with importlib under a different module name inside its original package (so that its
relative imports resolve) and handed to the same obligation bodies that `bin/check C19` runs.

  unmodified copy                                   -> every named obligation passes
  encoder conv stride 2 -> 1                        -> C19.shape_bourtsoulatze2019/roundtrip_shape, latent_dims refuted (native witness)
  decoder transposed-conv padding 2 -> 1            -> C19.shape_bourtsoulatze2019/roundtrip_shape, dec_decoder_shape refuted
  output activation (Sigmoid) removed               -> C19.shape_bourtsoulatze2019/range_activation, range_native refuted
  .detach() on the signal power (TotalPower)        -> C19.nodetach_TotalPowerConstraint refuted (file:line), gradcheck refuted
  noise_power.item() in _apply_noise (AWGN)         -> C19.nodetach_AWGNChannel refuted (file:line), gradcheck refuted
  torch.tensor(float(scale)) re-wrap (Laplacian)    -> C19.nodetach_LaplacianChannel refuted (file:line), gradcheck refuted
  benign edit (a local renamed)                     -> still passes
  data-dependent branch in the encoder forward      -> symbolic run defeated: clauses fall to kind=bounded with the reason recorded

Run:  cd /verif && PYTHONPATH=/repo:/verif .venv/bin/python -W ignore -m vk.e3_selftest
"""
from __future__ import annotations

import importlib.util
import os
import shutil
import sys
import tempfile
import warnings

REPO = os.environ.get("KAIRA_REPO", "/repo")

FILES = {
    "bourt": ("kaira/models/image/bourtsoulatze2019_deepjscc.py", "kaira.models.image"),
    "power": ("kaira/constraints/power.py", "kaira.constraints"),
    "analog": ("kaira/channels/analog.py", "kaira.channels"),
}
REAL = {"bourt": "kaira.models.image.bourtsoulatze2019_deepjscc", "power": "kaira.constraints.power", "analog": "kaira.channels.analog"}

MUTATIONS = {
    "enc_stride_2_to_1": ("bourt", "_ConvWithPReLU(in_channels=16, out_channels=32, kernel_size=5, stride=2, padding=2)", "_ConvWithPReLU(in_channels=16, out_channels=32, kernel_size=5, stride=1, padding=2)", 1),
    "dec_padding_2_to_1": ("bourt", "_TransConvWithPReLU(in_channels=32, out_channels=16, kernel_size=5, stride=2, padding=2, output_padding=1)", "_TransConvWithPReLU(in_channels=32, out_channels=16, kernel_size=5, stride=2, padding=1, output_padding=1)", 1),
    "output_activation_removed": ("bourt", "output_padding=1, activate=nn.Sigmoid())", "output_padding=1)", 1),
    "data_dependent_branch": ("bourt", "            Encoded representation of shape (B, num_transmitted_filters, H//4, W//4)\n        \"\"\"\n        return self.model(x)", "            Encoded representation of shape (B, num_transmitted_filters, H//4, W//4)\n        \"\"\"\n        return self.model(x) if float(x.sum()) > -1e30 else x", 1),
    "detach_signal_power": ("power", "scale = torch.sqrt(self.total_power / (current_power + 1e-8))", "scale = torch.sqrt(self.total_power / (current_power.detach() + 1e-8))", 2),
    "rewrap_scale_tensor": ("analog", "            scale = torch.sqrt(target_noise_power / 2)\n", "            scale = torch.tensor(float(torch.sqrt(target_noise_power / 2)))\n", 1),
    "noise_power_item": ("analog", "        noise_power = snr_to_noise_power(signal_power, snr_db_float)\n\n    # Validate", "        noise_power = snr_to_noise_power(signal_power, snr_db_float).item()\n\n    # Validate", 1),
}


def load_copy(path, package, tag):
    """import the file at `path` as <package>._e3selftest_<tag> (a different module name; relative imports keep working)"""
    from kaira.channels.registry import ChannelRegistry
    from kaira.constraints.registry import ConstraintRegistry
    from kaira.models.registry import ModelRegistry

    name = f"{package}._e3selftest_{tag}"
    regs = [(ModelRegistry, "_models"), (ChannelRegistry, "_channels"), (ConstraintRegistry, "_constraints")]
    saved = [dict(getattr(r, a)) for r, a in regs]
    for r, a in regs:
        getattr(r, a).clear()  # the copy re-registers the same class names; keep the real registries untouched
    try:
        spec = importlib.util.spec_from_file_location(name, path)
        mod = importlib.util.module_from_spec(spec)
        sys.modules[name] = mod
        spec.loader.exec_module(mod)
    finally:
        for (r, a), sv in zip(regs, saved):
            getattr(r, a).clear()
            getattr(r, a).update(sv)
    return mod


def verdicts(results):
    return {r.ob.split("/", 1)[1]: r for r in results}


def main():
    warnings.filterwarnings("ignore")
    import torch

    torch.set_num_threads(max(1, min(4, os.cpu_count() or 1)))
    from contracts import c19
    from vk import harness as H

    tmp = tempfile.mkdtemp(prefix="e3_selftest_")
    real_tmp = os.path.realpath(tmp)
    assert not real_tmp.startswith(os.path.realpath(REPO) + os.sep) and not real_tmp.startswith(os.path.realpath(os.path.dirname(os.path.dirname(__file__))) + os.sep), "scratch dir must be outside /repo and /verif"
    rows, ok_all = [], True
    try:
        def make(tag, key, old=None, new=None, count=None):
            rel, pkg = FILES[key]
            src = open(os.path.join(REPO, rel)).read()
            if old is not None:
                assert src.count(old) == count, f"mutation pattern for {tag} occurs {src.count(old)}x, expected {count}"
                src = src.replace(old, new)
            d = os.path.join(tmp, tag)
            os.makedirs(d, exist_ok=True)
            path = os.path.join(d, os.path.basename(rel))
            with open(path, "w") as fh:
                fh.write(src)
            return load_copy(path, pkg, f"{tag}_{key}")

        def shape(mod):
            spec = H.REGISTRY["C19.shape_bourtsoulatze2019"]
            return verdicts(c19.shape_results(spec, "bourtsoulatze2019[c=8]|quick|all", mods={REAL["bourt"]: mod}))

        def stage(key, mod, cls_key, variant):
            cat = c19.stage_catalog(mods={REAL[key]: mod})
            cls, fstr, variants, shapes = cat[cls_key]
            nd = verdicts(c19.nodetach_results(H.REGISTRY[f"C19.nodetach_{cls_key}"], "source", cls, variants, shapes, extra_modules=(mod.__name__,)))
            gc = verdicts(c19.gradcheck_results(H.REGISTRY[f"C19.gradcheck_{cls_key}"], f"{variant}|quick", variants[variant], shapes, "quick"))
            return nd, gc

        def expect(tag, what, r, want):
            nonlocal ok_all
            got = r.verdict if r is not None else "missing"
            conf = getattr(r, "replay_confirmed", None)
            good = got == want and (want != "refuted" or conf is True)
            ok_all &= good
            w = ""
            if r is not None and r.witness and want == "refuted":
                wt = r.witness
                w = str({k: wt[k] for k in list(wt)[:4]})[:110]
            rows.append(f"{'ok  ' if good else 'FAIL'} {tag:26s} {what:52s} {got:10s} {w}")

        # ---- unmodified copies
        v = shape(make("orig", "bourt"))
        for cl, r in v.items():
            expect("unmodified", f"shape_bourtsoulatze2019/{cl}", r, "discharged")
        nd, gc = stage("power", make("orig", "power"), "TotalPowerConstraint", "P=1.5")
        expect("unmodified", "nodetach_TotalPowerConstraint/no_detach", nd.get("no_detach"), "discharged")
        expect("unmodified", "gradcheck_TotalPowerConstraint/gradcheck", gc.get("gradcheck"), "discharged")
        nd, gc = stage("analog", make("orig", "analog"), "AWGNChannel", "snr_db=10")
        expect("unmodified", "nodetach_AWGNChannel/no_detach", nd.get("no_detach"), "discharged")
        expect("unmodified", "gradcheck_AWGNChannel/gradcheck", gc.get("gradcheck"), "discharged")

        # ---- benign edit (renamed local) still passes
        nd, gc = stage("power", make("benign", "power", "zero_mask", "zmask_renamed", 6), "TotalPowerConstraint", "P=1.5")
        expect("benign_rename_local", "nodetach_TotalPowerConstraint/no_detach", nd.get("no_detach"), "discharged")
        expect("benign_rename_local", "gradcheck_TotalPowerConstraint/gradcheck", gc.get("gradcheck"), "discharged")

        # ---- mutations
        for tag, (key, old, new, count) in MUTATIONS.items():
            mod = make(tag, key, old, new, count)
            if key == "bourt":
                v = shape(mod)
                if tag == "enc_stride_2_to_1":
                    expect(tag, "shape_bourtsoulatze2019/roundtrip_shape", v.get("roundtrip_shape"), "refuted")
                    expect(tag, "shape_bourtsoulatze2019/latent_dims", v.get("latent_dims"), "refuted")
                    expect(tag, "shape_bourtsoulatze2019/canary_refuted (engine alive)", v.get("canary_refuted"), "discharged")
                elif tag == "dec_padding_2_to_1":
                    expect(tag, "shape_bourtsoulatze2019/roundtrip_shape", v.get("roundtrip_shape"), "refuted")
                    expect(tag, "shape_bourtsoulatze2019/dec_decoder_shape", v.get("dec_decoder_shape"), "refuted")
                    expect(tag, "shape_bourtsoulatze2019/latent_dims (unaffected)", v.get("latent_dims"), "discharged")
                elif tag == "data_dependent_branch":
                    r = v.get("roundtrip_shape")
                    expect(tag, "shape_bourtsoulatze2019/roundtrip_shape kind=bounded", r if (r is not None and r.kind == "bounded" and "bounded" in r.detail) else None, "discharged")
                    rows.append("       reason recorded: " + (r.detail[:150] if r is not None else "-"))
                else:
                    expect(tag, "shape_bourtsoulatze2019/range_activation", v.get("range_activation"), "refuted")
                    expect(tag, "shape_bourtsoulatze2019/range_native", v.get("range_native"), "refuted")
                    expect(tag, "shape_bourtsoulatze2019/roundtrip_shape (unaffected)", v.get("roundtrip_shape"), "discharged")
            else:
                cls_key, variant = ("TotalPowerConstraint", "P=1.5") if key == "power" else (("LaplacianChannel", "snr_db=10") if tag.startswith("rewrap") else ("AWGNChannel", "snr_db=10"))
                nd, gc = stage(key, mod, cls_key, variant)
                taints = [r for k, r in nd.items() if k.startswith("taint@")]
                expect(tag, f"nodetach_{cls_key}/taint@file:line", taints[0] if taints else None, "refuted")
                if taints:
                    rows.append("       flagged: " + "; ".join(f"{os.path.basename(r.witness['file'])}:{r.witness['line']} `{r.witness['code'][:50]}`" for r in taints)[:170])
                expect(tag, f"gradcheck_{cls_key}/gradcheck", gc.get("gradcheck"), "refuted")
    finally:
        shutil.rmtree(tmp, ignore_errors=True)
        for k in [k for k in sys.modules if "_e3selftest_" in k]:
            del sys.modules[k]
    for line in rows:
        print(line)
    print(f"e3 selftest: {'PASS' if ok_all else 'FAIL'} ({sum(l.startswith('ok') for l in rows)} ok, {sum(l.startswith('FAIL') for l in rows)} failed); scratch dir {tmp} removed: {not os.path.exists(tmp)}")
    return 0 if ok_all else 1


if __name__ == "__main__":
    sys.exit(main())
