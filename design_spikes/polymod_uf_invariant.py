import z3, time
I=z3.IntSort()
xor=z3.Function('xor',I,I,I); pmul=z3.Function('pmul',I,I,I); shl=z3.Function('shl',I,I,I); deg=z3.Function('deg',I,I)
a,b,c,s=z3.Ints('a b c s')
ax=[
 z3.ForAll([a,b],xor(a,b)==xor(b,a)),
 z3.ForAll([a,b,c],xor(xor(a,b),c)==xor(a,xor(b,c))),
 z3.ForAll([a],xor(a,a)==0), z3.ForAll([a],xor(a,0)==a),
 z3.ForAll([a,b],z3.Implies(z3.And(a>=0,b>=0),xor(a,b)>=0)),
 # pmul distributes over xor in first arg; monomial
 z3.ForAll([a,b,c],pmul(xor(a,b),c)==xor(pmul(a,c),pmul(b,c))),
 z3.ForAll([s,c],z3.Implies(s>=0,pmul(shl(1,s),c)==shl(c,s))),
 z3.ForAll([c],pmul(0,c)==0),
 # degree
 z3.ForAll([a],z3.Implies(a==0,deg(a)==-1)), z3.ForAll([a],z3.Implies(a>0,deg(a)>=0)),
 z3.ForAll([a,s],z3.Implies(z3.And(a>0,s>=0),deg(shl(a,s))==deg(a)+s)),
 z3.ForAll([a,s],z3.Implies(z3.And(a>0,s>=0),shl(a,s)>0)),
 z3.ForAll([a,b],z3.Implies(z3.And(a>0,b>0,deg(a)==deg(b)),deg(xor(a,b))<deg(a))),
]
# __mod__ loop: inv: xor(rem, pmul(Q,m)) == a0, rem>=0 ; body: if deg(rem)<deg(m) break; sh=deg(rem)-deg(m); rem'=xor(rem, shl(m,sh)); Q'=xor(Q,shl(1,sh))
a0,m,rem,Q=z3.Ints('a0 m rem Q')
inv=lambda rem,Q: z3.And(xor(rem,pmul(Q,m))==a0, rem>=0)
pre=z3.And(a0>0,m>0)
def prove(name,f):
    t=time.time(); sol=z3.Solver(); sol.set(timeout=20000); sol.add(ax); sol.add(z3.Not(f)); r=sol.check(); print(name,r,round(time.time()-t,3))
prove('init', z3.Implies(pre, inv(a0,0)))
sh=deg(rem)-deg(m)
rem2=xor(rem,shl(m,sh)); Q2=xor(Q,shl(1,sh))
prove('preserve', z3.Implies(z3.And(pre,inv(rem,Q),deg(rem)>=deg(m)), z3.And(inv(rem2,Q2), deg(rem2)<deg(rem))))
prove('exit', z3.Implies(z3.And(pre,inv(rem,Q),deg(rem)<deg(m)), z3.And(a0==xor(pmul(Q,m),rem), deg(rem)<deg(m))))
prove('sanity-false', z3.Implies(pre, a0==m))
