import sys, itertools, warnings, time, threading
warnings.filterwarnings('ignore')
sys.path.insert(0,'/repo')
import torch
def allmsgs(k): return torch.tensor(list(itertools.product([0.,1.],repeat=k)))
def T(name,f):
    try: print(name, f())
    except Exception as e: print(name,'EXC',type(e).__name__,str(e)[:100])
from kaira.models.fec.encoders.linear_block_code import LinearBlockCodeEncoder
from kaira.models.fec.encoders.systematic_linear_block_code import SystematicLinearBlockCodeEncoder
from kaira.models.fec.encoders.hamming_code import HammingCodeEncoder
from kaira.models.fec.encoders.bch_code import BCHCodeEncoder
from kaira.models.fec.encoders.reed_muller_code import ReedMullerCodeEncoder
from kaira.models.fec.encoders.ldpc_code import LDPCCodeEncoder
from kaira.models.fec.encoders.single_parity_check_code import SingleParityCheckCodeEncoder
from kaira.models.fec.encoders.repetition_code import RepetitionCodeEncoder
# C04 round trips
def rt(enc):
    M=allmsgs(enc.code_dimension); C=enc(M); D=enc.inverse_encode(C); D=D[0] if isinstance(D,tuple) else D
    return int((D!=M).any(1).sum()), 'of', len(M)
T('C04 hamming right', lambda: rt(HammingCodeEncoder(3,information_set='right')))
T('C04 hamming perm', lambda: rt(HammingCodeEncoder(3,information_set=[6,2,4,0])))
G=torch.tensor([[1,1,0,1,0,0],[0,1,1,0,1,0],[1,0,1,0,0,1.]])
T('C04 generic nonsys 3x6', lambda: rt(LinearBlockCodeEncoder(G[:, [3,0,4,1,5,2]])))
G2=torch.tensor([[1,1,1,0,0,0,0],[0,0,1,1,1,0,0],[0,0,0,0,1,1,1.]])
T('C04 generic nonsys 3x7', lambda: rt(LinearBlockCodeEncoder(G2)))
def c01(enc):
    G=enc.generator_matrix.float(); H=enc.check_matrix.float()
    import numpy as np
    def rank(M):
        M=(M.numpy()%2).astype(int).copy(); r=0
        for c in range(M.shape[1]):
            p=[i for i in range(r,M.shape[0]) if M[i,c]]
            if not p: continue
            M[[r,p[0]]]=M[[p[0],r]]
            for i in range(M.shape[0]):
                if i!=r and M[i,c]: M[i]^=M[r]
            r+=1
            if r==M.shape[0]: break
        return r
    return 'GHt',int(((G@H.T)%2).sum()),'rankG',rank(G),'rankH',rank(H),'n-k',enc.code_length-enc.code_dimension
T('C01 generic nonsys 3x7', lambda: c01(LinearBlockCodeEncoder(G2)))
T('C01 RM(1,3)', lambda: c01(ReedMullerCodeEncoder(1,3)))
T('C01 RM(2,4)', lambda: c01(ReedMullerCodeEncoder(2,4)))
T('C01 SPC4', lambda: c01(SingleParityCheckCodeEncoder(4)))
T('C01 rep5', lambda: c01(RepetitionCodeEncoder(5)))
H=torch.tensor([[1,1,0,1,0,0],[0,1,1,0,1,0],[1,0,1,0,0,1],[0,0,0,1,1,1]])
T('C01 ldpc rankdef', lambda: c01(LDPCCodeEncoder(check_matrix=H)))
T('C04 ldpc rankdef', lambda: rt(LDPCCodeEncoder(check_matrix=H)))
T('C04 RM(1,3)', lambda: rt(ReedMullerCodeEncoder(1,3)))
T('C04 SPC4', lambda: rt(SingleParityCheckCodeEncoder(4)))
# C02 BM
from kaira.models.fec.decoders.berlekamp_massey import BerlekampMasseyDecoder
from kaira.models.fec.decoders.syndrome_lookup import SyndromeLookupDecoder
from kaira.models.fec.decoders.brute_force_ml import BruteForceMLDecoder
from kaira.models.fec.decoders.reed_muller_decoder import ReedMullerDecoder
def dec_test(enc,dec,t,batch=False):
    M=allmsgs(enc.code_dimension)[:64]; C=enc(M); n=enc.code_length; bad=0; tot=0
    for w in range(t+1):
        for pos in itertools.islice(itertools.combinations(range(n),w),40):
            E=torch.zeros(n); E[list(pos)]=1
            R=(C+E)%2
            if batch: out=dec(R)
            else: out=torch.stack([dec(r.unsqueeze(0)).squeeze(0) for r in R])
            bad+=int((out!=M).any(1).sum()); tot+=len(M)
    return bad,'/',tot
e=BCHCodeEncoder(4,5,information_set='right')
T('C02 BM bch15,7 right single-row', lambda: dec_test(e,BerlekampMasseyDecoder(e),2))
T('C02 BM bch15,7 right batched', lambda: dec_test(e,BerlekampMasseyDecoder(e),2,True))
e=BCHCodeEncoder(3,3,information_set='right')
T('C02 BM bch7,4 right', lambda: dec_test(e,BerlekampMasseyDecoder(e),1,True))
e=HammingCodeEncoder(3)
T('C02 syndrome hamming', lambda: dec_test(e,SyndromeLookupDecoder(e),1,True))
T('C02 bruteML hamming', lambda: dec_test(e,BruteForceMLDecoder(e),1,True))
T('C02 hamming inverse_encode', lambda: dec_test(e,lambda r:e.inverse_encode(r)[0],1,True))
e=ReedMullerCodeEncoder(1,3)
T('C02 RM(1,3) majority', lambda: dec_test(e,ReedMullerDecoder(e),1,True))
T('C02 RM(1,3) inverse_encode', lambda: dec_test(e,lambda r:e.inverse_encode(r)[0],1,True))
# C17 parallel order
from kaira.models.generic.parallel import ParallelModel
def slow(d,v):
    def f(x): time.sleep(d); return v
    return f
pm=ParallelModel(steps=[('a',slow(0.2,'A')),('b',slow(0.0,'B'))],aggregator=lambda r:r)
T('C17 parallel agg order', lambda: pm(0))
# C15 thresholders
from kaira.models.binary.soft_bit_thresholding import *
llr=torch.tensor([[3.0,-3.0,0.5,-0.5]])
for nm,th in [('fixed',FixedThresholder(0.0,InputType.LLR)),('adaptive',AdaptiveThresholder(input_type=InputType.LLR)),('llr',LLRThresholder()),('mindist',MinDistanceThresholder(input_type=InputType.LLR)),('hyst',HysteresisThresholder(input_type=InputType.LLR)),('weighted',WeightedThresholder(1.0,input_type=InputType.LLR)),('dynamic',DynamicThresholder(input_type=InputType.LLR))]:
    T('C15 '+nm+' (expect 0,1,0,1)', lambda: th(llr).tolist())
