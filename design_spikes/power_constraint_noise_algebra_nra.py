import z3,time
def power_constraint(n, T=2.5):
    x=[z3.Real(f'x{i}') for i in range(n)]
    P=z3.Sum([v*v for v in x]); s=z3.Real('s'); eps=z3.Q(1,10**8)
    Tq=z3.RealVal(str(T))
    base=[s>=0, s*s==Tq/(P+eps), P>=z3.Q(1,10**10)]
    out=[v*s for v in x]; Po=z3.Sum([o*o for o in out])
    for name,neg in [('<=T',Po>Tq),('>=0.999T given P>=1e-5',z3.And(P>=z3.Q(1,10**5),Po<Tq*z3.Q(999,1000))),('sign',z3.Or([z3.And(v>0,o<=0) for v,o in zip(x,out)]))]:
        so=z3.Solver(); so.set(timeout=120000); so.add(base); so.add(neg); t=time.time(); r=so.check(); print('n',n,name,r,round(time.time()-t,2))
for n in (2,4,6): power_constraint(n)
# noise algebra: complex AWGN: noise = (g1 + i g2)*sqrt(P/2); coefficient extraction by substitution
P=z3.Real('P'); s=z3.Real('s'); g1,g2,xr,xi=z3.Reals('g1 g2 xr xi')
yr=xr+g1*s; yi=xi+g2*s
c1=z3.substitute(yr-xr,(g1,z3.RealVal(1)))-z3.substitute(yr-xr,(g1,z3.RealVal(0)))
c2=z3.substitute(yi-xi,(g2,z3.RealVal(1)))-z3.substitute(yi-xi,(g2,z3.RealVal(0)))
so=z3.Solver(); so.add(P>0,s>=0,s*s==P*z3.Q(1,2)); so.add(c1*c1+c2*c2!=P); t=time.time(); print('awgn complex power',so.check(),round(time.time()-t,3))
