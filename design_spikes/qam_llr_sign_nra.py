import z3, time, math, sys
sys.path.insert(0,'/repo')
import torch
from kaira.modulations.qam import QAMModulator
from fractions import Fraction
def run(order):
    m=QAMModulator(order)
    C=[(Fraction(float(c.real)),Fraction(float(c.imag))) for c in m.constellation]
    bp=m.bit_patterns.int().tolist()
    yr,yi,nv=z3.Reals('yr yi nv')
    Q=lambda f: z3.Q(f.numerator,f.denominator)
    d=[(yr-Q(cr))*(yr-Q(cr))+(yi-Q(ci))*(yi-Q(ci)) for cr,ci in C]
    n=len(C)
    def zmin(xs):
        r=xs[0]
        for x in xs[1:]: r=z3.If(x<r,x,r)
        return r
    # argmin (first min)
    idx=z3.IntVal(0); best=d[0]
    for i in range(1,n):
        idx=z3.If(d[i]<best,i,idx); best=z3.If(d[i]<best,d[i],best)
    tot=0
    for k in range(len(bp[0])):
        d0=zmin([d[i] for i in range(n) if bp[i][k]==0]); d1=zmin([d[i] for i in range(n) if bp[i][k]==1])
        llr=(d1-d0)/(2*nv)
        bit=z3.Or([z3.And(idx==i) for i in range(n) if bp[i][k]==1])
        s=z3.Solver(); s.set(timeout=300000); s.add(nv>0)
        s.add(z3.Or(z3.And(llr>0,bit), z3.And(llr<0,z3.Not(bit))))
        t=time.time(); r=s.check(); tot+=time.time()-t
        print(order,'bit',k,r,round(time.time()-t,2))
run(16)
run(64)
