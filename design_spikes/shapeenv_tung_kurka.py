import sys, warnings
warnings.filterwarnings('ignore')
sys.path.insert(0,'/repo')
import torch
from torch._subclasses.fake_tensor import FakeTensorMode
from torch.fx.experimental.symbolic_shapes import ShapeEnv, DimDynamic, StatelessSymbolicContext
def run(name, enc, dec, extra=lambda fx,mode:()):
    env=ShapeEnv(); mode=FakeTensorMode(shape_env=env, allow_non_fake_inputs=True)
    x=torch.zeros(2,3,32,32)
    ctx=StatelessSymbolicContext(dynamic_sizes=[DimDynamic.DYNAMIC,DimDynamic.STATIC,DimDynamic.DYNAMIC,DimDynamic.DYNAMIC])
    try:
        with mode:
            fx=mode.from_tensor(x, symbolic_context=ctx)
            a=extra(fx,mode)
            z=enc(fx,*a); y=dec(z,*a)
        print(name,'in',tuple(fx.shape),'latent',tuple(z.shape),'out',tuple(y.shape)); print('   guards',[str(g.expr) for g in env.guards][:8])
    except Exception as e:
        print(name,'EXC',type(e).__name__,str(e)[:300])
from kaira.models.image.tung2022_deepjscc_q import *
run('tung Q', Tung2022DeepJSCCQEncoder(8,4), Tung2022DeepJSCCQDecoder(8,4))
def csi(fx,mode): 
    return (torch.ones(2,1),)
run('tung Q2', Tung2022DeepJSCCQ2Encoder(8,4), Tung2022DeepJSCCQ2Decoder(8,4), csi)
from kaira.models.image.kurka2020_deepjscc_feedback import DeepJSCCFeedbackEncoder, DeepJSCCFeedbackDecoder
run('kurka', DeepJSCCFeedbackEncoder(8), DeepJSCCFeedbackDecoder(8))
