import z3, time
# Gray code over BV64: b2g(n) = n ^ (n>>1); g2b loop unrolled 64
W=64
n=z3.BitVec('n',W)
def b2g(x): return x ^ z3.LShR(x,1)
def g2b(x):
    mask=x; res=x
    for _ in range(W):
        mask=z3.LShR(mask,1); res = res ^ mask   # when mask==0 no-op, so unconditional unroll is equivalent
    return res
t=time.time()
s=z3.Solver(); s.add(g2b(b2g(n))!=n); print('roundtrip1',s.check(),time.time()-t)
t=time.time()
s=z3.Solver(); s.add(b2g(g2b(n))!=n); print('roundtrip2',s.check(),time.time()-t)
# hamming distance one between consecutive
t=time.time()
d=b2g(n)^b2g(n+1)
s=z3.Solver(); s.add(n!=z3.BitVecVal(2**W-1,W)); s.add(z3.Or(d==0, (d&(d-1))!=0)); print('adjacent',s.check(),time.time()-t)
