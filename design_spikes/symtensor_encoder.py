import sys, time
sys.path.insert(0,'/repo')
import numpy as np, torch, z3
from fractions import Fraction

class SymTensor(torch.Tensor):
    @staticmethod
    def __new__(cls, arr, dtype=torch.float32):
        r = torch.Tensor._make_wrapper_subclass(cls, tuple(arr.shape), dtype=dtype, device='cpu')
        r._arr = arr
        return r
    @classmethod
    def __torch_dispatch__(cls, func, types, args=(), kwargs=None):
        raise NotImplementedError(f"dispatch reached: {func}")
    def __repr__(self): return f"SymTensor(shape={tuple(self.shape)}, dtype={self.dtype})"
    @classmethod
    def __torch_function__(cls, func, types, args=(), kwargs=None):
        kwargs = kwargs or {}
        name = getattr(func,'__name__',str(func))
        h = HANDLERS.get(func)
        if h is None:
            # metadata-only things go native
            if name in ('__get__','dim','size','numel','is_complex','is_floating_point','ndimension','stride','__len__') or func in NATIVE:
                with torch._C.DisableTorchFunctionSubclass():
                    return func(*args, **kwargs)
            raise NotImplementedError(f"unsupported: {func} {name}")
        return h(*args, **kwargs)

def toarr(t):
    if isinstance(t, SymTensor): return t._arr
    if isinstance(t, torch.Tensor):
        a = np.empty(tuple(t.shape), dtype=object)
        flat = t.reshape(-1).tolist()
        a.reshape(-1)[:] = [int(v) if float(v).is_integer() else Fraction(v) for v in flat] if t.numel() else []
        return a
    return t
HANDLERS = {}
NATIVE = set()
def h_view(x, *shape):
    if len(shape)==1 and isinstance(shape[0],(tuple,list,torch.Size)): shape=tuple(shape[0])
    return SymTensor(x._arr.reshape(shape), x.dtype)
def h_matmul(a,b):
    A,B = toarr(a),toarr(b)
    return SymTensor(np.matmul(A,B), a.dtype if isinstance(a,SymTensor) else b.dtype)
def h_mod(a,b):
    A=toarr(a)
    f=np.vectorize(lambda e: e % b if not isinstance(e,(int,)) else e % b, otypes=[object])
    return SymTensor(f(A), a.dtype)
def h_to(x,*a,**k): return x
HANDLERS[torch.Tensor.view]=h_view
HANDLERS[torch.matmul]=h_matmul
HANDLERS[torch.Tensor.__mod__]=h_mod
HANDLERS[torch.Tensor.remainder]=h_mod
HANDLERS[torch.Tensor.to]=h_to

from kaira.models.fec.encoders.hamming_code import HammingCodeEncoder
enc = HammingCodeEncoder(mu=3)
k,n = enc.code_dimension, enc.code_length
bits = [z3.Int(f'm{i}') for i in range(k)]
arr = np.empty((1,k),dtype=object); arr[0,:]=bits
x = SymTensor(arr)
print(x.shape, x.dim(), isinstance(x, torch.Tensor), x.dtype)
from kaira.models.fec.encoders.linear_block_code import LinearBlockCodeEncoder
y = LinearBlockCodeEncoder.forward(enc, x)
print(y, y._arr[0,4])
s = enc.calculate_syndrome(y)
print(s._arr)
sol = z3.Solver(); sol.add([z3.And(b>=0,b<=1) for b in bits]); sol.add(z3.Or([e!=0 for e in s._arr.reshape(-1)]))
t=time.time(); print('syndrome(enc(m))==0 for all m:', sol.check(), time.time()-t)
