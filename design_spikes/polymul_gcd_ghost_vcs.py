import z3, time
I=z3.IntSort()
xor=z3.Function('xor',I,I,I); pmul=z3.Function('pmul',I,I,I)
a,b,c=z3.Ints('a b c')
ax=[ z3.ForAll([a,b],xor(a,b)==xor(b,a)), z3.ForAll([a,b,c],xor(xor(a,b),c)==xor(a,xor(b,c))),
 z3.ForAll([a],xor(a,a)==0), z3.ForAll([a],xor(a,0)==a),
 z3.ForAll([a,b,c],pmul(xor(a,b),c)==xor(pmul(a,c),pmul(b,c))),
 z3.ForAll([a,b],pmul(a,b)==pmul(b,a)),
 z3.ForAll([a,b,c],pmul(pmul(a,b),c)==pmul(a,pmul(b,c))),
 z3.ForAll([a],pmul(a,0)==0), z3.ForAll([a],pmul(a,1)==a),
 # recursion characterisation used by __mul__ loop: a*b = (b odd ? a : 0) xor (2a)*(b div 2)
 z3.ForAll([a,b],z3.Implies(z3.And(a>=0,b>0),pmul(a,b)==xor(z3.If(b%2==1,a,0),pmul(2*a,b/2)))),
]
def prove(name,f,to=20000):
    t=time.time(); s=z3.Solver(); s.set(timeout=to); s.add(ax); s.add(z3.Not(f)); r=s.check(); print(name,r,round(time.time()-t,3))
# __mul__: while b>0: if b&1: result^=a ; a<<=1; b>>=1  inv: xor(result,pmul(a,b))==pmul(a0,b0)
a0,b0,res=z3.Ints('a0 b0 res')
inv=lambda res,a,b: z3.And(xor(res,pmul(a,b))==pmul(a0,b0), a>=0,b>=0)
prove('mul init', z3.Implies(z3.And(a0>=0,b0>=0), inv(0,a0,b0)))
res2=z3.If(b%2==1,xor(res,a),res)
prove('mul preserve', z3.Implies(z3.And(inv(res,a,b),b>0), z3.And(inv(res2,2*a,b/2), b/2<b)))
prove('mul exit', z3.Implies(z3.And(inv(res,a,b),z3.Not(b>0)), res==pmul(a0,b0)))
# gcd with bezout ghosts: inv: A==xor(pmul(s,A0),pmul(t,B0)) and B==xor(pmul(u,A0),pmul(v,B0)); step: (A,B)<-(B, A mod B) with A = xor(pmul(q,B), r)
A0,B0,A,B,s_,t_,u,v,q,r=z3.Ints('A0 B0 A B s t u v q r')
bez=lambda A,B,s_,t_,u,v: z3.And(A==xor(pmul(s_,A0),pmul(t_,B0)), B==xor(pmul(u,A0),pmul(v,B0)))
prove('gcd preserve', z3.Implies(z3.And(bez(A,B,s_,t_,u,v), A==xor(pmul(q,B),r)),
      bez(B,r,u,v,xor(s_,pmul(q,u)),xor(t_,pmul(q,v)))))
# common divisor preservation: d | A and d | B  => d | r   (divides: exists k: X = pmul(k,d)) with ghost witnesses
d,k1,k2=z3.Ints('d k1 k2')
prove('gcd divisor', z3.Implies(z3.And(A==pmul(k1,d),B==pmul(k2,d),A==xor(pmul(q,B),r)), r==pmul(xor(k1,pmul(q,k2)),d)))
