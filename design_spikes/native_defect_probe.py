import sys, itertools, warnings
warnings.filterwarnings('ignore')
sys.path.insert(0,'/repo')
import torch
from kaira.models.fec.encoders import *
from kaira.models.fec.encoders.cyclic_code import CyclicCodeEncoder
from kaira.models.fec.encoders.bch_code import BCHCodeEncoder
from kaira.models.fec.encoders.hamming_code import HammingCodeEncoder
def allmsgs(k): return torch.tensor(list(itertools.product([0.,1.],repeat=k)))
def dmin(enc):
    M=allmsgs(enc.code_dimension); C=enc(M); w=C.sum(1); return int(w[w>0].min())
def ghT(enc):
    return int(((enc.generator_matrix.float()@enc.check_matrix.float().T)%2).sum())
for name,enc in [('cyc7 left',CyclicCodeEncoder(7,generator_polynomial=0b1011)),('cyc7 right',CyclicCodeEncoder(7,generator_polynomial=0b1011,information_set='right')),
                 ('bch15,5 left',BCHCodeEncoder(4,5)),('bch15,5 right',BCHCodeEncoder(4,5,information_set='right')),
                 ('ham3',HammingCodeEncoder(3)),('ham3 ext',HammingCodeEncoder(3,extended=True)),('ham4 ext',HammingCodeEncoder(4,extended=True))]:
    md = enc.minimum_distance() if callable(enc.minimum_distance) else enc.minimum_distance
    M=allmsgs(enc.code_dimension); C=enc(M); syn=enc.calculate_syndrome(C)
    print(name,'n,k',enc.code_length,enc.code_dimension,'true dmin',dmin(enc),'advertised',md,'G.H^T nonzeros',ghT(enc),'syn(codewords) nonzero rows',int((syn.sum(-1)>0).sum()))
from kaira.modulations.psk import QPSKModulator,QPSKDemodulator
from kaira.modulations.oqpsk import OQPSKModulator,OQPSKDemodulator
b=torch.tensor([[0.,0.,0.,1.,1.,0.,1.,1.]])
m,d=QPSKModulator(),QPSKDemodulator()
print('QPSK hard',d(m(b)).tolist(),'llr',d(m(b),0.1).tolist())
m,d=OQPSKModulator().eval(),OQPSKDemodulator().eval()
print('OQPSK hard',d(m(b)).tolist())
from kaira.modulations.utils import binary_to_gray
print('gray(1023)',binary_to_gray(1023), 1023^(1023>>1))
from kaira.channels.analog import LaplacianChannel
torch.manual_seed(0)
x=torch.zeros(200000,dtype=torch.complex64)
y=LaplacianChannel(avg_noise_power=1.0)(x); print('laplacian complex noise power',float((y.abs()**2).mean()))
y=LaplacianChannel(avg_noise_power=1.0)(x.real); print('laplacian real noise power',float((y.abs()**2).mean()))
