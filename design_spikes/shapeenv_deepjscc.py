import sys, warnings
warnings.filterwarnings('ignore')
sys.path.insert(0,'/repo')
import torch
from torch._subclasses.fake_tensor import FakeTensorMode
from torch.fx.experimental.symbolic_shapes import ShapeEnv, DimDynamic, StatelessSymbolicContext
from kaira.models.image.bourtsoulatze2019_deepjscc import Bourtsoulatze2019DeepJSCCEncoder as E, Bourtsoulatze2019DeepJSCCDecoder as D
enc,dec=E(8),D(8)
env=ShapeEnv()
mode=FakeTensorMode(shape_env=env, allow_non_fake_inputs=True)
x=torch.zeros(2,3,32,32)
ctx=StatelessSymbolicContext(dynamic_sizes=[DimDynamic.DYNAMIC,DimDynamic.STATIC,DimDynamic.DYNAMIC,DimDynamic.DYNAMIC])
with mode:
    fx=mode.from_tensor(x, symbolic_context=ctx)
    print('in',fx.shape)
    z=enc(fx); print('latent',z.shape)
    y=dec(z); print('out',y.shape)
print('guards:', [str(g.expr) for g in env.guards])
print(env.var_to_range)
