import z3, time, itertools
# Wagner: n reals r_i (nonzero, no ties). hard=(r<0). if parity odd flip argmin |r|. claim: output codeword c maximizes sum (1-2c_i) r_i over even-parity c.
def wagner(n):
    r=[z3.Real(f'r{i}') for i in range(n)]
    hard=[r_i<0 for r_i in r]
    absr=[z3.If(x<0,-x,x) for x in r]
    par=z3.BoolVal(False)
    for h in hard: par=z3.Xor(par,h)
    # argmin first index
    ismin=[]
    for i in range(n):
        ismin.append(z3.And([absr[i]<absr[j] for j in range(i)]+[absr[i]<=absr[j] for j in range(i+1,n)]))
    out=[z3.Xor(hard[i], z3.And(par,ismin[i])) for i in range(n)]
    metric=lambda bits: z3.Sum([z3.If(b,-x,x) for b,x in zip(bits,r)])
    mo=metric(out)
    # symbolic competitor codeword: bools c with even parity
    c=[z3.Bool(f'c{i}') for i in range(n)]
    pc=z3.BoolVal(False)
    for x in c: pc=z3.Xor(pc,x)
    s=z3.Solver(); s.set(timeout=120000)
    po=z3.BoolVal(False)
    for x in out: po=z3.Xor(po,x)
    s.add(z3.Or(po, z3.And(z3.Not(pc), metric(c)>mo)))
    t=time.time(); res=s.check(); print('wagner',n,res,round(time.time()-t,2))
for n in (3,5,8,11): wagner(n)
