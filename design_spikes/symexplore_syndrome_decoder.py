"""Spike 3: path-complete symbolic execution of the real SyndromeLookupDecoder.forward.
Throw-away; validates: SymScalar with forking __bool__, decision-prefix re-execution, iteration over
tensors, .item(), dict lookup after forks, setitem of concrete into symbolic, broadcasting, %."""
import sys, time, warnings, itertools
warnings.filterwarnings('ignore')
sys.path.insert(0,'/repo')
import numpy as np, torch, z3
from fractions import Fraction
from torch.overrides import TorchFunctionMode

# ---------------------------------------------------------------- scalars
class Explorer:
    def __init__(self): self.prefix=[]; self.trace=[]; self.pc=[]; self.todo=[]; self.solver=z3.Solver(); self.assume=[]
    def decide(self, cond):
        i=len(self.trace)
        if i < len(self.prefix):
            v=self.prefix[i]
        else:
            def feas(c):
                self.solver.push(); self.solver.add(self.assume+self.pc+[c]); r=self.solver.check(); self.solver.pop(); return r!=z3.unsat
            ft, ff = feas(cond), feas(z3.Not(cond))
            if ft and ff: self.todo.append(self.trace+[False]); v=True
            elif ft: v=True
            elif ff: v=False
            else: raise RuntimeError('infeasible path')
        self.trace.append(v); self.pc.append(cond if v else z3.Not(cond)); return v
EX=None
class SS:
    """symbolic scalar: z3 Bool/Int/Real"""
    __slots__=('e',)
    def __init__(self,e): self.e=e
    def __bool__(self):
        e=self.e if z3.is_bool(self.e) else self.e!=0
        return EX.decide(e)
    def _b(self,o,f):
        oe=o.e if isinstance(o,SS) else (z3.RealVal(str(o)) if isinstance(o,Fraction) else o)
        return wrap(f(self.e,oe))
    def __add__(s,o): return s._b(o,lambda a,b:a+b)
    __radd__=__add__
    def __sub__(s,o): return s._b(o,lambda a,b:a-b)
    def __rsub__(s,o): return s._b(o,lambda a,b:b-a)
    def __mul__(s,o):
        if not isinstance(o,SS) and o==0: return 0
        if not isinstance(o,SS) and o==1: return s
        return s._b(o,lambda a,b:a*b)
    __rmul__=__mul__
    def __mod__(s,o): return s._b(o,lambda a,b:a%b)
    def __eq__(s,o): return s._b(o,lambda a,b:a==b)
    def __ne__(s,o): return s._b(o,lambda a,b:a!=b)
    def __lt__(s,o): return s._b(o,lambda a,b:a<b)
    def __hash__(s): return id(s)
    def __repr__(s): return f'SS({s.e})'
def wrap(e):
    e=z3.simplify(e) if isinstance(e,z3.ExprRef) else e
    if isinstance(e,z3.ExprRef):
        if z3.is_int_value(e): return e.as_long()
        if z3.is_true(e): return True
        if z3.is_false(e): return False
        return SS(e)
    return e
def is_sym(v): return isinstance(v,SS)

# ---------------------------------------------------------------- tensors
class ST(torch.Tensor):
    @staticmethod
    def __new__(cls, arr, dtype=torch.float32):
        if not isinstance(arr,np.ndarray):
            a0=np.empty((),dtype=object); a0[()]=arr; arr=a0
        r=torch.Tensor._make_wrapper_subclass(cls, tuple(arr.shape), dtype=dtype, device='cpu'); r.a=arr; return r
    @classmethod
    def __torch_dispatch__(cls, func, types, args=(), kwargs=None): raise NotImplementedError(f'dispatch {func}')
    def __repr__(self): return f'ST{tuple(self.shape)}'
    def conc(self): return not any(is_sym(v) for v in self.a.reshape(-1))
def lift(t):
    if isinstance(t,ST): return t
    a=np.empty(tuple(t.shape),dtype=object); vals=t.reshape(-1).tolist()
    if vals: a.reshape(-1)[:]=[bool(v) if isinstance(v,bool) else (int(v) if float(v).is_integer() else Fraction(float(v))) for v in vals]
    return ST(a,t.dtype)
def lower(s):
    with torch._C.DisableTorchFunctionSubclass():
        return torch.tensor(np.array(s.a.tolist(),dtype=float)).to(s.dtype).reshape(tuple(s.shape))
def arr(x): return x.a if isinstance(x,ST) else (lift(x).a if isinstance(x,torch.Tensor) else x)
META={'dim','size','numel','is_complex','is_floating_point','__len__','__get__','stride'}
H={}
def reg(*fs):
    def d(h):
        for f in fs: H[f]=h
        return h
    return d
def tree(o,f):
    if isinstance(o,torch.Tensor): return f(o)
    if isinstance(o,(list,tuple)): return type(o)(tree(i,f) for i in o)
    if isinstance(o,dict): return {k:tree(v,f) for k,v in o.items()}
    return o
def anyt(o,p):
    if isinstance(o,torch.Tensor): return p(o)
    if isinstance(o,(list,tuple)): return any(anyt(i,p) for i in o)
    if isinstance(o,dict): return any(anyt(v,p) for v in o.values())
    return False
class Mode(TorchFunctionMode):
    def __torch_function__(self, func, types, args=(), kwargs=None):
        kwargs=kwargs or {}; name=getattr(func,'__name__',str(func))
        if name in META:
            with torch._C.DisableTorchFunctionSubclass(): return func(*args,**kwargs)
        symbolic = anyt((args,kwargs), lambda t: isinstance(t,ST) and not t.conc())
        if not symbolic and func is not torch.Tensor.__setitem__:
            with torch._C.DisableTorchFunctionSubclass():
                out=func(*tree(args,lambda t: lower(t) if isinstance(t,ST) else t), **tree(kwargs,lambda t: lower(t) if isinstance(t,ST) else t))
            return tree(out, lift)
        h=H.get(func)
        if h is None: raise NotImplementedError(f'unsupported sym op {name} {func}')
        OPS.add(name)
        return h(*args,**kwargs)
OPS=set()
def shp(shape):
    if len(shape)==1 and isinstance(shape[0],(tuple,list,torch.Size)): shape=tuple(shape[0])
    return tuple(shape)
@reg(torch.Tensor.view, torch.Tensor.reshape)
def _(x,*s): return ST(x.a.reshape(shp(s)),x.dtype)
@reg(torch.Tensor.__getitem__)
def _(x,i):
    i=tree(i,lambda t: lower(t).numpy() if isinstance(t,ST) else t.numpy()) if not isinstance(i,(int,slice,type(Ellipsis))) else i
    r=x.a[i]
    if not isinstance(r,np.ndarray): r0=np.empty((),dtype=object); r0[()]=r; r=r0
    return ST(r,x.dtype)
@reg(torch.Tensor.__setitem__)
def _(x,i,v):
    i=tree(i,lambda t: lower(t).numpy() if isinstance(t,ST) else t.numpy()) if not isinstance(i,(int,slice,type(Ellipsis))) else i
    x.a[i]=arr(v)
def ew2(f):
    u=np.frompyfunc(f,2,1)
    return lambda a,b: u(arr(a),arr(b))
@reg(torch.Tensor.add, torch.Tensor.__add__, torch.Tensor.__radd__, torch.add)
def _(a,b): return ST(ew2(lambda p,q:p+q)(a,b), torch.result_type(a,b) if isinstance(b,torch.Tensor) else a.dtype)
@reg(torch.Tensor.__mod__, torch.Tensor.remainder, torch.remainder)
def _(a,b): return ST(ew2(lambda p,q:p%q)(a,b), a.dtype)
@reg(torch.matmul)
def _(a,b): return ST(np.matmul(arr(a),arr(b)), a.dtype)
@reg(torch.Tensor.to, torch.Tensor.int, torch.Tensor.float, torch.Tensor.clone)
def _(x,*a,**k):
    dt=next((d for d in list(a)+list(k.values()) if isinstance(d,torch.dtype)),None)
    return ST(x.a.copy(), dt or x.dtype)
@reg(torch.Tensor.squeeze)
def _(x,d=None): return ST(np.squeeze(x.a, axis=d) if d is not None else np.squeeze(x.a), x.dtype)
@reg(torch.Tensor.unbind, torch.unbind)
def _(x,dim=0): return tuple(ST(x.a[i],x.dtype) for i in range(x.shape[0]))
@reg(torch.Tensor.__iter__)
def _(x): return iter([ST(np.array(x.a[i],dtype=object) if not isinstance(x.a[i],np.ndarray) else x.a[i],x.dtype) for i in range(x.shape[0])])
@reg(torch.Tensor.item)
def _(x): return x.a.reshape(-1)[0]
@reg(torch.Tensor.transpose)
def _(x,a,b): return ST(np.swapaxes(x.a,a,b),x.dtype)

@reg(torch.zeros_like)
def _(x,**k):
    with torch._C.DisableTorchFunctionSubclass(): return lift(torch.zeros(tuple(x.shape),dtype=k.get('dtype',x.dtype)))
@reg(torch.equal)
def _(a,b):
    A,B=arr(a),arr(b)
    if A.shape!=B.shape: return False
    conj=[]
    for p,q in zip(A.reshape(-1),B.reshape(-1)):
        r=(p==q)
        if isinstance(r,SS): conj.append(r.e)
        elif not r: return False
    return wrap(z3.And(conj)) if conj else True
@reg(torch.Tensor.__rsub__, torch.rsub)
def _(a,b): return ST(ew2(lambda p,q:q-p)(a,b), a.dtype)
@reg(torch.Tensor.sub, torch.Tensor.__sub__)
def _(a,b): return ST(ew2(lambda p,q:p-q)(a,b), a.dtype)
# ---------------------------------------------------------------- harness
from kaira.models.fec.encoders.hamming_code import HammingCodeEncoder
from kaira.models.fec.decoders.syndrome_lookup import SyndromeLookupDecoder
def harness(mu):
    global EX
    enc=HammingCodeEncoder(mu); dec=SyndromeLookupDecoder(enc)
    k,n=enc.code_dimension,enc.code_length
    m=[z3.Int(f'm{i}') for i in range(k)]; e=[z3.Int(f'e{i}') for i in range(n)]
    assume=[z3.And(v>=0,v<=1) for v in m+e]+[z3.Sum(e)<=1]
    G=enc.generator_matrix.int().tolist()
    cw=[z3.Sum([m[i]*G[i][j] for i in range(k)])%2 for j in range(n)]
    recv=[(cw[j]+e[j])%2 for j in range(n)]
    todo=[[]]; paths=0; proved=0; t0=time.time()
    while todo:
        prefix=todo.pop(); EX=Explorer(); EX.prefix=prefix; EX.assume=assume
        a=np.empty((1,n),dtype=object); a[0,:]=[SS(x) for x in recv]
        with Mode():
            out=dec(ST(a))
        todo.extend(EX.todo); paths+=1
        s=z3.Solver(); s.add(assume+EX.pc)
        s.add(z3.Or([ (o.e if isinstance(o,SS) else o)!=m[i] for i,o in enumerate(out.a.reshape(-1))]))
        r=s.check(); proved+= r==z3.unsat
        if r!=z3.unsat: print('CEX',s.model()); break
    print(f'Hamming mu={mu}: paths={paths} proved={proved} time={time.time()-t0:.1f}s ops={sorted(OPS)}')
harness(3)
harness(4)
