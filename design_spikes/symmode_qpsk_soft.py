import sys, time, warnings
warnings.filterwarnings('ignore')
sys.path.insert(0,'/repo')
import numpy as np, torch, z3
from fractions import Fraction
from torch.overrides import TorchFunctionMode

def is_sym(e): return isinstance(e, (z3.ExprRef, tuple))
class ST(torch.Tensor):
    """wrapper-subclass tensor; payload: numpy object arrays re (and im for complex)"""
    @staticmethod
    def __new__(cls, re, im=None, dtype=torch.float32):
        r = torch.Tensor._make_wrapper_subclass(cls, tuple(re.shape), dtype=dtype, device='cpu')
        r.re, r.im = re, im
        return r
    @classmethod
    def __torch_dispatch__(cls, func, types, args=(), kwargs=None):
        raise NotImplementedError(f"dispatch reached: {func}")
    def __repr__(self): return f"ST{tuple(self.shape)}:{self.dtype}"
    def concrete(self):
        f=lambda a: all(not is_sym(e) for e in a.reshape(-1))
        return f(self.re) and (self.im is None or f(self.im))

def lift(t):
    """real tensor -> ST with exact rational payload"""
    if isinstance(t, ST): return t
    def conv(x):
        a=np.empty(tuple(x.shape),dtype=object)
        vals=x.reshape(-1).tolist()
        a.reshape(-1)[:]=[ (bool(v) if isinstance(v,bool) else (int(v) if float(v).is_integer() else Fraction(float(v)))) for v in vals] if len(vals) else []
        return a
    if t.is_complex(): return ST(conv(t.real), conv(t.imag), t.dtype)
    return ST(conv(t), None, t.dtype)
def lower(s):
    """concrete ST -> real tensor"""
    if s.im is not None:
        return torch.complex(torch.tensor(np.array(s.re,dtype=float),dtype=torch.float32).reshape(s.shape), torch.tensor(np.array(s.im,dtype=float),dtype=torch.float32).reshape(s.shape))
    return torch.tensor(np.array(s.re.tolist(),dtype=float)).to(s.dtype).reshape(tuple(s.shape))

META_ONLY={'dim','size','numel','is_complex','is_floating_point','__len__','__get__','stride','storage_offset'}
H={}
def reg(*fs):
    def d(h):
        for f in fs: H[f]=h
        return h
    return d
def zreal(v): return v if is_sym(v) else (z3.RealVal(str(v)) if not isinstance(v,bool) else v)
def vec(f): return np.frompyfunc(f, 2, 1)
def ite(c,a,b):
    if not is_sym(c): return a if c else b
    return z3.If(c, zreal(a), zreal(b))
def lt(a,b):
    if not is_sym(a) and not is_sym(b): return a<b
    return zreal(a)<zreal(b)

class Mode(TorchFunctionMode):
    def __torch_function__(self, func, types, args=(), kwargs=None):
        kwargs=kwargs or {}
        name=getattr(func,'__name__',str(func))
        flat=list(args)+list(kwargs.values())
        def anyst(o):
            if isinstance(o,ST): return True
            if isinstance(o,(list,tuple)): return any(anyst(i) for i in o)
            return False
        if name in META_ONLY or not anyst(flat):
            with torch._C.DisableTorchFunctionSubclass():
                out=func(*args,**kwargs)
            if name not in META_ONLY and isinstance(out,torch.Tensor) and not isinstance(out,ST): return lift(out)
            return out
        # all-concrete fast path: run real torch
        def allconc(o):
            if isinstance(o,ST): return o.concrete()
            if isinstance(o,(list,tuple)): return all(allconc(i) for i in o)
            return True
        if func not in (torch.Tensor.__setitem__,) and allconc(flat):
            def low(o):
                if isinstance(o,ST): return lower(o)
                if isinstance(o,(list,tuple)): return type(o)(low(i) for i in o)
                return o
            with torch._C.DisableTorchFunctionSubclass():
                out=func(*low(args),**{k:low(v) for k,v in kwargs.items()})
            def up(o):
                if isinstance(o,torch.Tensor): return lift(o)
                if isinstance(o,(tuple,list)): return type(o)(up(i) for i in o)
                return o
            return up(out)
        h=H.get(func)
        if h is None: raise NotImplementedError(f"unsupported sym op: {name} {func}")
        return h(*args,**kwargs)

def L(x): return x if isinstance(x,ST) else (lift(x) if isinstance(x,torch.Tensor) else x)
@reg(torch.Tensor.unsqueeze)
def _(x,d): 
    ax = d if d>=0 else d+x.dim()+1
    return ST(np.expand_dims(x.re,ax), None if x.im is None else np.expand_dims(x.im,ax), x.dtype)
@reg(torch.Tensor.sub, torch.Tensor.__sub__, torch.sub)
def _(a,b):
    a,b=L(a),L(b)
    sub=np.frompyfunc(lambda p,q: (zreal(p)-zreal(q)) if (is_sym(p) or is_sym(q)) else p-q,2,1)
    if a.im is not None or b.im is not None:
        aim = a.im if a.im is not None else np.zeros_like(a.re)
        bim = b.im if b.im is not None else np.zeros_like(b.re)
        re=sub(a.re,b.re); im=sub(aim,bim)
        return ST(re,im,torch.complex64)
    return ST(sub(a.re,b.re),None,a.dtype)
@reg(torch.abs, torch.Tensor.abs)
def _(x):
    # keep |z|^2 form: represent abs as tagged sqrt; here spike: return object array of ('sqrt', radicand)
    sq=np.frompyfunc(lambda p,q: ('sqrt', zreal(p)*zreal(p)+zreal(q)*zreal(q)),2,1)(x.re,x.im)
    return ST(sq,None,torch.float32)
@reg(torch.Tensor.__pow__, torch.Tensor.pow, torch.pow)
def _(x,p):
    assert p==2
    f=np.frompyfunc(lambda e: e[1] if isinstance(e,tuple) else zreal(e)*zreal(e),1,1)
    return ST(f(x.re),None,x.dtype)
@reg(torch.Tensor.neg, torch.Tensor.__neg__)
def _(x): return ST(np.frompyfunc(lambda e:-e,1,1)(x.re),None,x.dtype)
@reg(torch.Tensor.div, torch.Tensor.__truediv__, torch.div)
def _(a,b):
    a=L(a)
    if isinstance(b,(int,float)): bb=np.array(Fraction(b),dtype=object)
    else: bb=L(b).re
    return ST(np.frompyfunc(lambda p,q: zreal(p)/zreal(q),2,1)(a.re,bb),None,a.dtype)
@reg(torch.max)
def _(x,dim=None):
    ax=dim if dim>=0 else dim+x.dim()
    arr=np.moveaxis(x.re,ax,-1)
    out=np.empty(arr.shape[:-1],dtype=object)
    for idx in np.ndindex(*arr.shape[:-1]):
        best=arr[idx+(0,)]
        for j in range(1,arr.shape[-1]):
            e=arr[idx+(j,)]; best=ite(lt(best,e),e,best)
        out[idx]=best
    return ST(out,None,x.dtype), None
@reg(torch.Tensor.__setitem__)
def _(x,idx,v):
    v=L(v) if isinstance(v,torch.Tensor) else v
    x.re[idx]= v.re if isinstance(v,ST) else v
@reg(torch.Tensor.__getitem__)
def _(x,idx):
    if isinstance(idx,ST): idx=lower(idx)
    if isinstance(idx,torch.Tensor): idx=idx.numpy()
    r=x.re[idx]; 
    if not isinstance(r,np.ndarray): r=np.array(r,dtype=object)
    im=None
    if x.im is not None:
        im=x.im[idx]
        if not isinstance(im,np.ndarray): im=np.array(im,dtype=object)
    return ST(r,im,x.dtype)
@reg(torch.Tensor.reshape)
def _(x,*shape):
    if len(shape)==1 and isinstance(shape[0],(tuple,list)): shape=tuple(shape[0])
    return ST(x.re.reshape(shape),None if x.im is None else x.im.reshape(shape),x.dtype)
@reg(torch.Tensor.sub_)
def _(a,b): raise NotImplementedError

from kaira.modulations.psk import QPSKDemodulator
dem=QPSKDemodulator()
yr,yi=z3.Real('yr'),z3.Real('yi')
re=np.empty((1,),dtype=object); im=np.empty((1,),dtype=object); re[0]=yr; im[0]=yi
y=ST(re,im,torch.complex64)
with Mode():
    out=dem(y, 0.5)
print(out, out.re)
# obligation: sign agrees with nearest point's bit: if yr>0 => bit0 = 0 => llr0 > 0
s=z3.Solver(); s.add(yr>0, z3.Not(out.re[0]>0)); print('llr0>0 when yr>0 ?', s.check(), s.model() if s.check()==z3.sat else '')
