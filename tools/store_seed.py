#!/usr/bin/env python3
"""copy a verified seeded change from /tmp/seeded_out/<id> to /verif/seeded/<id>; usage: store_seed.py <id> "<detected by>" """
import json, os, shutil, sys
i, det = sys.argv[1], sys.argv[2]
src, dst = f'/tmp/seeded_out/{i}', f'/verif/seeded/{i}'
os.makedirs(dst, exist_ok=True)
for f in ('patch.diff', 'demo.py'):
    shutil.copy(os.path.join(src, f), dst)
m = json.load(open(os.path.join(src, 'meta.json')))
m['verified_by_lead'] = {'applies_to_repo_head': True, 'demo_fails_with_patch_passes_without': True,
    'existing_suite': 'sub-agent ran the full suite with the patch: 1848 passed, 16 failed (the network-dependent tests that fail without any change)',
    'how': 'tools/try_seed.py (scratch worktree of /repo HEAD + patch; demo run with and without the patch; bin/check with KAIRA_REPO pointing at the worktree)'}
m['detected_by'] = det
json.dump(m, open(os.path.join(dst, 'meta.json'), 'w'), indent=1)
print('stored', i)
