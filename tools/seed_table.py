#!/usr/bin/env python3
"""Regenerate the 'which checks catch which seeded changes' table in DESIGN.md from seeded/*/meta.json."""
import json, os, glob, re
ROOT = os.path.dirname(os.path.dirname(os.path.abspath(__file__)))
rows = []
for d in sorted(glob.glob(os.path.join(ROOT, 'seeded', '*'))):
    m = json.load(open(os.path.join(d, 'meta.json')))
    i = os.path.basename(d)
    summ = re.sub(r'\s+', ' ', str(m.get('summary', '')))[:260]
    need = re.sub(r'\s+', ' ', str(m.get('needs_to_manifest', '')))[:200]
    det = re.sub(r'\s+', ' ', str(m.get('detected_by', '')))[:330]
    rows.append(f"| `{i}` | {summ} | {need} | {det} |")
table = "| seeded change | what it does | needs to manifest | caught by |\n|---|---|---|---|\n" + "\n".join(rows)
p = os.path.join(ROOT, 'DESIGN.md')
s = open(p).read()
begin, end = "<!-- SEED-TABLE-BEGIN -->", "<!-- SEED-TABLE-END -->"
block = f"{begin}\n{table}\n{end}"
if begin in s:
    s = s[:s.index(begin)] + block + s[s.index(end) + len(end):]
else:
    s += "\n### 10.6 Seeded changes: which checks catch which changes\n\nEach change was produced by a fresh sub-agent that saw only the property text and a scratch worktree of /repo (nothing from /verif),\nbreaks the property while the package still imports and the existing suite passes (1848 passed; the 16 network-dependent\ntests fail with and without it), and comes with a demonstration program that fails with the change and passes without it. I\nconfirmed each with `tools/try_seed.py` (scratch worktree of /repo HEAD + patch; demo with/without; `bin/check` pointed at the\nworktree through `KAIRA_REPO`) - none is ever committed to /repo. Files: `seeded/<id>/{patch.diff, demo.py, meta.json}`.\n\n" + block + "\n"
open(p, 'w').write(s)
print(len(rows), 'rows')
