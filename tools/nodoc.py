#!/usr/bin/env python3
"""Print python sources with docstrings stripped (reading aid only; not used by checks)."""
import ast,sys
def strip(path):
    src=open(path).read()
    tree=ast.parse(src)
    for node in ast.walk(tree):
        if isinstance(node,(ast.FunctionDef,ast.ClassDef,ast.Module)):
            if node.body and isinstance(node.body[0],ast.Expr) and isinstance(getattr(node.body[0],'value',None),ast.Constant) and isinstance(node.body[0].value.value,str):
                node.body=node.body[1:] or [ast.Pass()]
    print('#####',path); print(ast.unparse(tree))
for p in sys.argv[1:]: strip(p)
