#!/usr/bin/env python3
"""Apply a benign (semantics-preserving) edit in a scratch worktree and require the given checks to stay at exit 0.
usage: tools/try_benign.py benign/<x>.diff PROP [PROP...]"""
import os, subprocess, sys, tempfile, shutil
patch = os.path.abspath(sys.argv[1]); props = sys.argv[2:]
wt = tempfile.mkdtemp(prefix='try_benign_', dir='/tmp'); os.rmdir(wt)
run = lambda c: subprocess.run(c, shell=True, capture_output=True, text=True)
try:
    assert run(f'git -C /repo worktree add -q --detach {wt} HEAD').returncode == 0
    r = run(f'git -C {wt} apply {patch}')
    if r.returncode: print('PATCH DOES NOT APPLY', r.stderr[:200]); sys.exit(2)
    for p in props:
        c = run(f'cd /verif && KAIRA_REPO={wt} bin/check {p} --tier quick --no-evidence --jobs 10')
        lines = c.stdout.strip().splitlines()
        summ = [l for l in lines if l.startswith(f'[{p}]')]
        print(f'{os.path.basename(patch)} {p}: exit={c.returncode} {summ[-1][:150] if summ else lines[-2:]}')
        for l in lines:
            if l.startswith(('VIOLATION', 'UNDECIDED', 'ENGINE')): print('   ', l[:220])
finally:
    run(f'git -C /repo worktree remove --force {wt}'); shutil.rmtree(wt, ignore_errors=True)
