#!/usr/bin/env python3
"""Try a seeded change against the checks WITHOUT touching /repo: scratch worktree of /repo HEAD + patch, then
bin/check <props> with KAIRA_REPO pointing at it.  usage: tools/try_seed.py <seed dir> <PROP> [<PROP>...] [--tier quick]"""
import json, os, subprocess, sys, tempfile, shutil
seed = os.path.abspath(sys.argv[1]); props = [a for a in sys.argv[2:] if not a.startswith('--')]
tier = 'thorough' if '--thorough' in sys.argv else 'quick'
wt = tempfile.mkdtemp(prefix='try_seed_', dir='/tmp'); os.rmdir(wt)
run = lambda c, **k: subprocess.run(c, shell=True, capture_output=True, text=True, **k)
try:
    r = run(f'git -C /repo worktree add -q --detach {wt} HEAD'); assert r.returncode == 0, r.stderr
    demo = os.path.join(seed, 'demo.py')
    d0 = run(f'cd {wt} && PYTHONPATH={wt} /venv/bin/python -W ignore {demo} {wt}')
    r = run(f'git -C {wt} apply {seed}/patch.diff'); 
    if r.returncode != 0:
        print('PATCH DOES NOT APPLY:', r.stderr[:300]); sys.exit(2)
    d1 = run(f'cd {wt} && PYTHONPATH={wt} /venv/bin/python -W ignore {demo} {wt}')
    print(f'demo unpatched exit={d0.returncode} ({d0.stdout.strip()[-80:]!r}) patched exit={d1.returncode} ({d1.stdout.strip()[-120:]!r})')
    for p in props:
        c = run(f'cd /verif && KAIRA_REPO={wt} bin/check {p} --tier {tier} --no-evidence --jobs 10')
        lines = c.stdout.strip().splitlines()
        vio = [l for l in lines if l.startswith('VIOLATION')]
        summ = [l for l in lines if l.startswith(f'[{p}]')]
        print(f'{p}: exit={c.returncode} violations={len(vio)} {summ[-1][:160] if summ else lines[-3:]}')
        for v in vio[:3]: print('   ', v[:200])
        obs = set()
        for v in vio:
            try: obs.add(json.load(open(v.split('replay=')[1].split()[0])).get('obligation', '?').split('@')[0])
            except Exception: pass
        print('    obligations:', sorted(obs))
        und = [l for l in lines if l.startswith(('UNDECIDED','ENGINE-FAULT'))]
        for u in und[:3]: print('   ', u[:300])
finally:
    run(f'git -C /repo worktree remove --force {wt}'); shutil.rmtree(wt, ignore_errors=True)
