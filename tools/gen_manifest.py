#!/usr/bin/env python3
"""Generate /verif/MANIFEST.json from the table below (keeps the manifest schema-valid)."""
import json
import os
import sys

ROOT = os.path.dirname(os.path.dirname(os.path.abspath(__file__)))

E2 = "contract-based deductive verification: the unmodified kaira functions are executed on fully symbolic tensors (all paths), each contract clause is discharged by z3 / GF(2) normal form; counterexamples replayed natively"

CHECKS = {
    "C01": dict(
        text="For every enumerated code configuration (families x parameters x information sets x random generators) the contract clauses forward(x)==x.G, calculate_syndrome(y)==y.H^T, syndrome(forward(m))==0 and syndrome(y)==0 => y in rowspace(G) (n<=12 quick / 16 thorough) are discharged for ALL input bit vectors of four layouts by symbolic execution of the real methods; the object invariant (G binary rank k, H binary rank n-k, G.H^T=0, advertised n,k) is a ground obligation evaluated exactly on what the real constructors built. Bound that remains: the configuration grid. Construction sequences: seven encoders of one family built in one process with alternating information sets are each checked against their own G and H (state carried between constructions). Bounded: forward/syndrome on bits carried as int64/int32/uint8/bool/float64/float16 equal the float32 result.",
        note="Trusted: vk engine E2 (op table pinned to torch meta kernels + differential cross-check every run), z3, exact GF(2) ground kernel, rank-nullity lemma. Bodies of the SVD-free null-space/row-reduction helpers are covered through the invariant of every constructed code, not symbolically.",
        design="7/C01",
        technique=E2 + "; closed obligations by exact GF(2) rank computation",
    ),
    "C04": dict(
        text="inverse_encode(forward(m)) == (m, 0), extract_message and project_word likewise, with exact k/n shape scaling, discharged for ALL messages on every enumerated code x four layouts (1-D, batch, nested batch, two concatenated blocks; thorough adds 3 and 4 blocks) by symbolic execution of the real methods (Hamming's correction loop and Reed-Muller's nearest-codeword search are explored path-completely); rejection of non-multiple lengths discharged for all inputs; G.R=I as ground obligation per constructed code. Rejection also for layouts whose element count (but not last dimension) is a multiple of the block size. Bounded: round trip and single-error inverses on the other bit carriers (int64/int32/uint8/bool/float64/float16).",
        note="Trusted: as C01. Configuration grid is the remaining bound; Reed-Muller codes with k>4 use the 1-D layout only (2^k-way argmin per row).",
        design="7/C04",
        technique=E2,
    ),
    "C03": dict(
        text="For every enumerated code the advertised length/dimension/rate equal the shape facts of the published G, the TRUE minimum distance (exact enumeration of the row space of G, or MacWilliams via the dual) is >= the advertised one and equal where an exact value is documented; cyclic/BCH codes: g | X^n+1, g.h = X^n+1, deg g = n-k, every cyclic shift of every generator row stays in the row space, every row is a multiple of g, alpha^1..alpha^(delta-1) are roots of the BCH generator and its degree is the lcm degree; perfect codes meet the sphere-packing bound with equality. For k<=8 (thorough 11) the distance bound is additionally proved for all messages through the real forward() (z3). Closed obligations are decided exactly (ground), not sampled. Parameter sequences: several encoders of one family built and queried in one process are each compared with their own exact distance. BCH(31,21) and BCH(31,16) in the quick grid (the first BCH codes whose generator is not a minimum-weight word).",
        note="Trusted: vk.ground (exact GF(2)/GF(2)[x] kernel independent of /repo), C01's contract forward(x)==x.G linking G to the encoder. Bound: the configuration grid (the property's own size bounds in thorough tier). Known finding: the binary Reed-Solomon-style construction has true distance 1.",
        design="7/C03",
        technique="contracts as closed obligations on the objects the real constructors build, decided exactly by the ground GF(2) kernel (complete enumeration); distance clause also proved symbolically through the real forward() for small k",
    ),
    "C02": dict(
        text="t-error correction (decoded == m and reported errors == e for r = m.G xor e, wt(e) <= t, t from the ADVERTISED distance) is discharged for ALL messages and ALL error patterns at once - symbolic m and e with a cardinality constraint - for the syndrome-lookup decoder (redundancy <= 4 quick / 6 thorough), the brute-force ML decoder (k <= 4 / 6), the Hamming single-error inverse and the Reed-Muller nearest-codeword inverse, by path-complete symbolic execution of the real forward() (per-row loops, .item(), dict lookup, torch.equal, argmin). The minimum-distance clause of the complete decoders is discharged for EVERY received word (n <= 12). The syndrome table is checked as a ground obligation (complete, every entry a coset leader). Berlekamp-Massey: for the length-7 BCH codes (thorough: also (15,.) codes up to 4000 paths) the decoder is executed path-completely on a symbolic message and error pattern (it concretises every bit, so every feasible path = every (codeword, pattern) pair runs on the real code); larger codes and the Reed-Muller majority decoder are covered by the bounded stand-in only and are not counted as proved. Received words are also given as uint8/int64 tensors (integer-dtype variants), and as multi-block (..., m*n) layouts.",
        note="Trusted: C01's contract (received words are formed from the published G), vk engine, z3. Out of reach of proof: Berlekamp-Massey/Chien (full concretisation of the word; deep algebraic theorem) and the majority-logic decoder. Known finding: RS-style codes advertise t beyond their true distance.",
        design="7/C02",
        technique=E2 + "; bounded native stand-in for Berlekamp-Massey and majority-logic decoding",
    ),
    "C19": dict(
        text="Shape contract proved for ALL batch/height/width (unbounded): the real encoder/decoder modules of 8 published pairs run under FakeTensorMode+ShapeEnv with symbolic B,H,W; size expressions and guards are translated to z3 and decoder(encoder(x)).shape == x.shape, latent size == documented ratio, guard coverage (case split), cover and canary are discharged under 2^L | H,W with L read from the real module. Differentiability: AST taint analysis of the real forward methods (no detach/item/float/re-wrap on signal-dependent values) and autograd-graph reachability as discharged obligations; gradcheck and end-to-end encoder gradients as bounded stand-ins. Bounded: gradients stay finite on inputs with exactly-zero samples; the NOMA wrapper back-propagates into every device encoder it runs, over its option grid.",
        note="Trusted: PyTorch meta kernels/ShapeEnv guard recording (differentially checked every run), sympy->z3 translation, autograd correctness. Gradients vs finite differences are floating point: bounded only. Model wrappers with data-dependent branches fall to bounded shape checks.",
        design="7/C19",
        technique="contracts on the real nn.Modules discharged with symbolic shapes (FakeTensorMode/ShapeEnv -> z3, all B,H,W); AST taint analysis for the no-detach frame condition; gradcheck as bounded stand-in",
        engine="vk-E3-symshape",
    ),
    "C12": dict(
        text="With torch.rand_like replaced by its contract (fresh independent symbols in [0,1), universally quantified), the real forward() of the three binary channels is executed on symbolic inputs over each alphabet, a symbolic probability p in [0,1] and symbolic draws, all paths: BSC y_i = x_i xor [u_i<p]; BEC y_i = erasure if u_i<p else x_i; Z-channel 0 stays 0 and 1 -> [not u<p] with exactly one draw per one; alphabet preservation, p=0 identity, p=1 extreme, per-position dependence, input unmodified - discharged for all x, p, u per dtype/shape/alphabet configuration. The distributional statement follows by the moment lemma from the proved per-element law. Each channel also after the same object transmitted a block of the other alphabet. Closed: every erasure-symbol option incl. non-finite symbols - output is input or erasure symbol.",
        note="Assumed (never proved): torch.rand_like yields independent uniform variates. Shapes up to 4 elements (the law is per element and the obligation shows each output depends on its own input and draw only).",
        design="7/C12",
        technique=E2 + "; RNG replaced by its contract (fresh quantified symbols)",
    ),
    "C17": dict(
        text="Fold loops of SequentialModel/ConfigurableModel/CompositeConstraint/apply_constraint_chain: verification conditions generated from the real AST with uninterpreted stages and an UNBOUNDED stage count (invariant initiation/preservation/post, one call per stage in order, argument forwarding) discharged by z3. The real forward() methods of sequential, DeepJSCC, channel-code, Wyner-Ziv (all 16 presence combinations), feedback (1..5 rounds) and multiple-access models (1..3 users, shared/separate layouts, symbolic tensors) are executed with uninterpreted recording stubs, so the order/exactly-once/argument claims hold for all stage functions per enumerated size. ParallelModel: the thread pool is replaced by its contract and EVERY completion order admissible for the worker count (n <= 4 quick / 5 thorough, workers 1, 2, n, default) is enumerated, with and without a failing branch; refuting orders are replayed on the real ThreadPoolExecutor with event-gated branches. BranchingModel: all 2^n truth assignments of uninterpreted conditions. add_step/remove_step of ConfigurableModel and ParallelModel: list-model VCs from the real AST over z3 sequences of UNBOUNDED length (view' = view ++ [s]; view' = view without position i; TypeError / IndexError before any mutation). Histories reuse one stage object at several positions; the multiple-access model is also run with an aliasing pass-through encoder, one tensor object for all users and two consecutive calls (inputs unmodified). Every SequentialModel subclass runs the inherited fold on its edited stage list (closed); ParallelModel schedules also on the real thread pool with event-forced completion orders.",
        note="Trusted: concurrent.futures contract as stated in DESIGN 4.2 (schedules are those the contract admits, not observed timings); free term algebra of stubs; foldvc AST translation. Add/remove-step histories: by induction over the proved mutator contracts; exhaustive histories to length 3/4 as a bounded cross-check.",
        design="7/C17",
        technique="contracts on the real forward() methods: unbounded fold-loop VCs from the AST (z3, uninterpreted stages); execution with uninterpreted stubs; thread pool replaced by its contract with exhaustive admissible completion orders",
    ),
    "C05": dict(
        text="demod(mod(bits)) == bits and the symbol count are discharged for ALL bit sequences of the enumerated lengths (1..3 symbols; all ordered pairs/triples for schemes with memory) by symbolic execution of the real modulator (table lookup = ITE over the real constellation buffer) and demodulator (nearest point decided on exact rationals of the stored floats), for every scheme/order/labelling/normalisation configuration and 1-D/batched layouts; the dependency obligations (symbol i depends on bit group i only; the decision is per symbol, for all received y) extend the claim from the enumerated lengths to long sequences. DPSK hard decisions use atan2: bits are concretised by forking (still all bit patterns). Registry: ground. Long sequences: bounded. Round trips of the schemes with memory also on objects that were used in training mode and then reset. Alternative constructor options (DPSK bits_per_symbol / gray_coded aliases, real-valued BPSK output, pi/4-QPSK soft_output flag) as closed exhaustive obligations; symbolic round trip also for the 32- and 64-point schemes.",
        note="Trusted: vk engine; floats as reals with exact float32 table values. Known findings (pinned by tests): pi/4-QPSK treats short 1-D inputs as symbol indices and returns indices from 1-D hard demodulation.",
        design="7/C05",
        technique=E2,
    ),
    "C14": dict(
        text="Constellations: all admissible configurations are finitely many, so 2^b distinct points, 2^b distinct labels, unit average energy (1e-6) and the Gray nearest-neighbour property are ground obligations evaluated exhaustively on the exact rational values of the real tables; forward(bit_patterns[i]) == constellation[i] links labels to the points the modulator emits. Gray utilities: binary_to_gray / gray_to_binary verified from their real source by the E1 VC generator in BV(64) mode (loops unrolled 65 times with unwinding assertion): mutual inverses, reflected-code spec, consecutive integers at Hamming distance one, non-negativity, ValueError for negatives - for ALL n < 2^64; the hard-coded 1023/1365 pair (pinned by a test) is a known finding and every other input is proved by the */other_inputs obligations. Array forms: bounded.",
        note="Trusted: vk.e1 BV encoding of Python ints below 2^64, vk.ground, exact rational reading of float32 tables with the stated tie window. Bound: 2^64 for the Gray utilities (unbounded naturals not claimed).",
        design="7/C14",
        technique="ground obligations on the real tables (exhaustive); contract-based VCs from the real AST in BV(64) mode discharged by z3 for the Gray utilities",
        engine="vk-E1-vcgen",
    ),
    "C16": dict(
        text="forward of BitErrorRate / BlockErrorRate (+SER/FER aliases) and the StandardMetrics helpers == exact counts for ALL binary tensor pairs of the enumerated shapes/block sizes (symbolic bits; hence symmetric, zero iff equal, BER <= BLER <= min(1, B.BER)); non-divisor block sizes rejected. Streaming form as a data structure with abstract view (T,E): update proved for a SYMBOLIC prior state and symbolic batch ((T,E) -> (T+n, E+d), frame), compute and reset likewise; with the fold lemma this gives partition/order independence for histories of any length. Exhaustive short histories are a bounded cross-check. Helper BLER also on 2-D inputs. Closed, exhaustive: accumulated == one-shot also for soft inputs exactly on the decision threshold. Closed: non-contiguous views equal contiguous copies; accumulated counts exact for every (N, k), N <= 130.",
        note="Trusted: vk engine, lemma L-fold. Floats as reals (counter rounding above 2^24 not modelled).",
        design="7/C16",
        technique=E2 + "; data-structure contract with symbolic prior state + induction lemma",
    ),
    "C20": dict(
        text="For every encoder (forward, inverse_encode, calculate_syndrome; all catalogue codes) and the E2-reachable decoders (syndrome lookup, brute-force ML): f(batch)[i] == f(member i alone) for ALL member values, batches of 2-3 members and nested (2,1) leading dimensions; (B, 2n) either equals per-block evaluation or raises; a repeated call returns identical terms; inputs unmodified - discharged by symbolic execution (path-complete). Berlekamp-Massey and majority-logic decoding: bounded stand-in (random batches of 1..6 incl. special members, permutations, layouts). Modulators/demodulators/constraints: their batched-layout and per-symbol/per-item dependency clauses are part of C05/C06/C08. Bounded generic purity stand-in (batch == singles, permutation, layouts equal-or-raise, repeat, input unmodified) over hard decoders x six input dtypes, all soft decoders of C10/C11, memoryless modulators x five bit carriers, demodulators hard/soft x complex64/128.",
        note="Trusted: vk engine. Bound: configuration grid, batch sizes 2-3.",
        design="7/C20",
        technique=E2,
    ),
    "C07": dict(
        text="With torch.randn*/rand* replaced by their contract (fresh independent symbols), the real forward() of AWGN, Laplacian and nonlinear channels is executed on symbolic real/complex inputs and a symbolic noise power: result - x is affine in the draws with no constant term, each output element uses its own symbols, and the sum of squared coefficients times the symbol variance equals the configured power (real: one term; complex: real + imaginary parts) resp. signal power / 10^(snr/10); supplied noise is added verbatim; the Laplacian transform's law is summarised by quadrature of the extracted expression; every SNR conversion/measurement function satisfies the textbook formula (pow10/log10 axiomatised). Proved for all inputs/draws per shape (<= 4 elements) and dtype. AWGN also on a channel object that first carried a block of the other kind (real/complex) or precision.",
        note="Assumed: i.i.d. unit-variance symmetric law of torch.randn, uniform law of torch.rand; moment lemma. SNR values on a concrete grid (the code calls float() on them). Bounded: same-seed scaling, float behaviour of the conversions on a dense grid.",
        design="7/C07",
        technique=E2 + "; RNG replaced by its contract; coefficient algebra + moment lemma",
    ),
    "C13": dict(
        text="Real FlatFadingChannel: with supplied csi/noise y == h.x + n exactly and shape preserved (1-D, 2-D, 4-D); block expansion: coefficient of x[b,i] is the symbol of block i // T for all L in 1..7 x T in 1..L+1; distinct blocks/batch items use disjoint RNG symbols; second moments by the moment calculus: Rayleigh E|h|^2 = 1, Rician |LOS|^2 = K/(K+1), scattered 1/(K+1), ratio K (symbolic K >= 0); noise stage calibrated relative to mean|h.x|^2 - discharged for all inputs and draws per shape. Rayleigh/Rician generators also with a stray shadowing sigma (documented as unused). Closed same-seed relation: the SNR reference power is that of the whole faded signal for 6000- and 8192-sample items.",
        note="Assumed: RNG laws; log-normal fading: structure only. Shapes are small and enumerated.",
        design="7/C13",
        technique=E2 + "; RNG replaced by its contract; coefficient algebra + moment lemma",
    ),
    "C18": dict(
        text="BinaryPolynomial degree/__mul__/__mod__/div/gcd/lcm/__eq__/__hash__: verification conditions generated from the real source (ast) with sidecar loop invariants, ghost quotients / Bezout cofactors and the axiomatised GF(2)[x] theory on UNBOUNDED integers, all discharged by z3: a = q.b + r with deg r < deg b, gcd divides both and is a combination, lcm.gcd = product. FiniteBifield/FiniteBifieldElement __call__, __add__, __mul__, __pow__, inverse, trace, conjugates per m (all elements, all exponents). Per field m = 1..16 (ground, with the real operations): modulus has degree m, is irreducible (trial division), x has order exactly 2^m - 1 (so the quotient ring is a field: L-field), Fermat for all elements. minimal_polynomial/evaluate/derivative: bounded cross-checks against an independent bitmask implementation. Bounded: several fields built and used in turn in one process, every field re-examined after every construction.",
        note="Trusted: vk.e1 AST translation (differentially checked against the real functions on exhaustive small inputs every run), GF2POLY axioms (instance-tested on all bitmasks < 2^8, consistency probe), lemmas L-euclid/L-field/L-order. Precondition: polynomial values are non-negative ints.",
        design="7/C18",
        technique="contract-based VC generation from the real AST (loop invariants, ghost state, axiomatised GF(2)[x] theory over unbounded ints) discharged by z3; ground per-field obligations",
        engine="vk-E1-vcgen",
    ),
    "C06": dict(
        text="For symbolic received points y in C (PAM/BPSK: as their code expects) and symbolic noise variance > 0, constellation and labels read from the real demodulator: hard decision = a point at minimum Euclidean distance (for all y); soft output llr_k == kappa.(min over points labelled 1 - min over points labelled 0)/sigma^2 with kappa > 0 read off one evaluation and then PROVED for all y, sigma^2 (scalar, per-symbol); sign agrees with the hard decision; llr scales as 1/sigma^2 - for BPSK, QPSK, PSK <= 32, QAM <= 64, PAM <= 64, OQPSK, pi/4-QPSK (both tables); DPSK family on the decision variable z (helper contract + modular proof of forward). DPSK hard decisions (atan2) and 64-PSK/256-QAM identity clauses: bounded dense grids. pi/4-QPSK with carried phase: after an odd or even number of previously consumed symbols (default training mode) hard and soft output use the constellation of the absolute symbol position, for every y. Closed obligation: the table every demodulator decides against is the table of the modulator built with the same options (all orders, every option spelling).",
        note="Trusted: vk engine; the sound generalisation step in c06.py (nonlinear monomials abstracted by fresh reals, accepted only on unsat; refutations always come from the exact claim and are replayed natively). Floats as reals; float32 tables exact.",
        design="7/C06",
        technique=E2 + "; nearest-point / max-log queries linearised by cancelling |y|^2",
    ),
    "C15": dict(
        text="Producers: every soft demodulator of C06, symbolic bits through the real modulator and soft demodulator: llr_k > 0 <=> bit_k == 0. Consumers in LLR mode (LLR / weighted / ensemble / hysteresis outside the dead zone / adaptive (polarity) / dynamic (polarity) / min-distance thresholders, repetition soft-bit decoder, llr_to_bits, sign_to_bin): out == [llr < 0] for all real llr != 0 per element; LLRThresholder soft output == sigmoid(-llr), strictly decreasing (sigmoid axiomatised). Pairing consumer(producer(bits)) == bits executed directly for QPSK/16-QAM x 9 consumers. Soft-input decoders as consumers are C10/C11. Closed, exhaustive: string and enum spellings of input_type select the same consumer.",
        note="Known finding: FixedThresholder in LLR mode is inverted and pinned by a test. Interpretation notes (adaptive/dynamic thresholds depend on the batch mean; hysteresis dead zone) are stated as separate clauses in contracts/c15.py.",
        design="7/C15",
        technique=E2,
    ),
    "C10": dict(
        text="Wagner decoder: for EVERY real input the output is a maximum-likelihood codeword of the SPC code (codebook enumerated, z3), k <= 5, batched and multi-block layouts, plus the noise-free clause. Min-sum LDPC: the check-node update equals alpha.prod sign.min|.| with the offset floored at zero per edge, output shape (B, edges), scale invariance, and noise-free decoding for symbolic message and magnitude (n <= 8, 1 and 3 iterations). BP index structures (cv_order, ext_ce, marg_ec, idx_mess_t) as ground obligations. Soft Reed-Muller noise-free clause symbolically for m <= 3. Sum-product BP (complex log2 / 2^x) and larger RM codes: bounded stand-ins (all codewords at magnitudes 0.5..50; exact posteriors on cycle-free graphs by enumeration). Variable-node update and marginalisation (the linear half of every BP / min-sum iteration) for all real messages.",
        note="Trusted: vk engine incl. the scoped piecewise-linear rewriting in vk/ops_soft.py. Floats as reals (message clipping stated as precondition).",
        design="7/C10",
        technique=E2 + "; bounded native stand-in for sum-product BP",
    ),
    "C11": dict(
        text="Polar encoder: forward(m) == u.F^(kron m) (bit-reversed when interleaving) with u[info] = message, u[frozen] = frozen value for ALL messages (GF(2) normal form), N <= 16 all k (+ sampled N = 32, 64), frozen 0/1, interleave on/off, user masks, batches; info set == k most reliable positions by an independent reading of rank_polar.csv; calculate_gm == Kronecker power (ground). SC decoder == an independent textbook successive-cancellation recursion for every real LLR vector (N <= 8, all k; min-sum piecewise linear, sum-product by congruence on uninterpreted tanh/atanh); noise-free decoding for symbolic messages and magnitudes (SC N <= 16, polar BP N <= 8). Larger N, early stopping, permutations: bounded. Generator-matrix requests after the caller overwrote earlier results in place.",
        note="Precondition for SC == textbook: non-zero decision LLRs and no check-node message beyond the decoder's clip (default 1000). Floats as reals.",
        design="7/C11",
        technique=E2,
    ),
    "C08": dict(
        text="Total/average/per-antenna power constraints: for ALL real/complex inputs of the enumerated shapes (<= 6 elements per item) each item's output equals s.x_item with s > 0 the execution's own scale term, s^2 = T/(p + 1e-8), power(out) <= T(1+1e-6), >= 0.999 T for p >= 1e-5, per-item dependency, idempotence and rescaling invariance (normal-form identities + a small z3 lemma), both the batch-of-1 and batched code paths and the flat-signal branch; peak amplitude: bound, identity inside the limit, nearest-bound clipping (complex input is rejected); composite / apply_constraint_chain / combine_constraints == left fold (0..4 parts; unbounded fold-loop VCs are C17.fold_unbounded); factory OFDM/MIMO composites satisfy all limits simultaneously. PAPRConstraint (15 data-dependent iterations): bounded stand-in over the property's signal families. Composite: parts added (also to a nested composite) AFTER a first call. Closed: non-contiguous views (permuted, transposed, strided) equal contiguous copies for every constraint family.",
        note="Trusted: vk engine; floats as reals with the stated 1e-6 / 1e-3 tolerances. Shapes small and enumerated. PAPR: bounded only, never counted as proved.",
        design="7/C08",
        technique=E2 + "; bounded native stand-in for the iterative PAPR constraint",
    ),
    "C09": dict(
        text="The whole real ChannelCodeModel.forward (real encoder, modulator, IdentityConstraint, channel, demodulator, decoder) is executed on a symbolic message for 8 (code, decoder) x 6 modulation pairings with (a) the ideal channel, (b) a LambdaChannel displacing every symbol by a symbolic delta within half the minimum distance - proved for the larger polyhedral set of all delta with delta.(c_j - c_i) < |c_j - c_i|^2/2, which contains the ball by the per-constellation triangle lemma (discharged separately by z3) - and (c) a LambdaChannel flipping at most t code bits per block (BPSK/QPSK component sign flips): decoded == message for ALL messages and ALL admissible displacements / flip patterns. Soft-decision chains (soft demodulation with the noise variance forwarded through the pipeline into Wagner / SC min-sum / soft Reed-Muller decoders; BPSK and QPSK): ideal channel for every noise variance > 0 (symbolic), displaced symbols on a grid of variances. Stage order and fold are C17; per-stage contracts C01/C02/C05/C06. Berlekamp-Massey in the chain: bounded stand-in. Consecutive transmissions: three batched transmissions with odd symbol counts through ONE pipeline with the stateful pi/4-QPSK pair in default training mode, all messages. Link pairings include 'right' / custom information sets and real-valued BPSK output.",
        note="Trusted: vk engine; triangle lemma proved on the exact rational constellation values. Pairings are an enumerated grid (quick: at most 16 code bits per call). Soft chains with displaced QPSK symbols for 8-bit codes exceed the solver budget (quadratic LLRs) and are left to C10/C11/C15.",
        design="7/C09",
        technique=E2 + " on the whole pipeline; displacement precondition linearised through a separately proved triangle lemma",
    ),
}

NOT_YET = {}

NOT_APPLICABLE = {}


def main():
    props = [json.loads(l)["id"] for l in open(os.path.join(ROOT, "properties.jsonl"))]
    checks = []
    for pid in props:
        c = CHECKS.get(pid)
        if not c:
            continue
        checks.append(
            {
                "property_id": pid,
                "quick_cmd": f"bin/check {pid} --tier quick",
                "thorough_cmd": f"bin/check {pid} --tier thorough",
                "evidence_file": f"evidence/{pid}.json",
                "replay_cmd_template": "bin/check --replay {path}",
                "engine": c.get("engine", "vk-E2-symtorch"),
                "level_claimed": {"category": c.get("category", "proof"), "text": c["text"], "design_ref": "DESIGN.md section " + c["design"]},
                "level_note": c["note"],
                "technique": c["technique"],
            }
        )
    na = []
    for pid in props:
        if pid in CHECKS:
            continue
        na.append({"property_id": pid, "reason": NOT_APPLICABLE.get(pid, "not claimed yet: the contracts for this property are still being built (see DESIGN.md section 7); no check is registered, so nothing is asserted about it")})
    m = {
        "version": 1,
        "setup_cmd": "sh bin/setup",
        "hooks": {
            "guard": "KAIRA_VERIF",
            "enable": "no hooks: the unmodified kaira functions are executed symbolically or re-read from source on every run; bin/check exports KAIRA_VERIF=1 but nothing in /repo reads it",
            "baseline_off_cmd": "cd /repo && /venv/bin/python -m pytest -ra -q -p no:cacheprovider --timeout=900 --continue-on-collection-errors",
            "source_commits": [],
            "add_only": True,
        },
        "engines": [
            {"name": "vk-E2-symtorch", "path": "vk/", "serves_properties": [p for p in props if p in CHECKS and CHECKS[p].get("engine", "vk-E2-symtorch") == "vk-E2-symtorch"], "kind_free_text": "symbolic execution of the real torch code under a TorchFunctionMode with z3-term payloads; path-complete; obligations to z3; ground kernel for closed obligations; bounded native stand-in"},
            {"name": "vk-E3-symshape", "path": "vk/e3.py", "serves_properties": [p for p in props if p in CHECKS and CHECKS[p].get("engine") == "vk-E3-symshape"], "kind_free_text": "real nn.Modules under FakeTensorMode+ShapeEnv with symbolic batch/height/width; size expressions and guards to z3; AST taint analysis; gradcheck stand-in"},
            {"name": "vk-E1-vcgen", "path": "vk/e1/", "serves_properties": [p for p in props if p in CHECKS and CHECKS[p].get("engine") == "vk-E1-vcgen"], "kind_free_text": "ast -> verification conditions for pure-integer code with sidecar loop invariants and ghost state; z3"},
        ],
        "checks": checks,
        "notes": "fix: commits in /repo repair genuine defects found by failing obligations (listed as 'fixed:' lines in known_findings.jsonl). See DESIGN.md.",
        "not_applicable": na,
    }
    try:
        import jsonschema

        jsonschema.validate(m, json.load(open("/root/.vp/MANIFEST.schema.json")))
    except ImportError:
        pass
    with open(os.path.join(ROOT, "MANIFEST.json"), "w") as fh:
        json.dump(m, fh, indent=1)
    print(f"MANIFEST.json: {len(checks)} checks, {len(na)} not_applicable")


if __name__ == "__main__":
    sys.exit(main())
