#!/usr/bin/env python3
"""Run the repository's pinned test command and check that every stable-pass test of /root/.vp/BASELINE.json passes.
usage: tools/baseline_check.py [junit.xml to reuse]"""
import json, subprocess, sys, os, xml.etree.ElementTree as ET
base = json.load(open('/root/.vp/BASELINE.json'))
out = sys.argv[1] if len(sys.argv) > 1 else '/verif/scratch/junit_baseline.xml'
if len(sys.argv) <= 1:
    os.makedirs(os.path.dirname(out), exist_ok=True)
    subprocess.run(base['cmd'].replace('<file>', out), shell=True, stdout=subprocess.DEVNULL, stderr=subprocess.DEVNULL)
passed = set()
for tc in ET.parse(out).getroot().iter('testcase'):
    if not any(c.tag in ('failure', 'error', 'skipped') for c in tc):
        passed.add(f"{tc.get('classname')}::{tc.get('name')}")
missing = [t for t in base['stable_pass'] if t not in passed]
print(f"stable_pass={len(base['stable_pass'])} passing_now={len(base['stable_pass'])-len(missing)} missing={len(missing)}")
for t in missing[:20]:
    print("  NOT PASSING:", t)
sys.exit(1 if missing else 0)
