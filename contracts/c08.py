"""C08 - power, amplitude and PAPR constraints enforce their limit on every batch item.

Spec (from the property statement):  an *item* is one batch element (dim 0 when the tensor has more than one dimension and more
than one row, otherwise the whole tensor); for the per-antenna constraint an item is one (batch, antenna) row.
   power(item)  = sum |x_i|^2 (total), mean |x_i|^2 (average, per antenna)
   Total/Average/PerAntenna:   exists s > 0: out_item == s * x_item      (witness: the scale term of the execution itself)
                               power(out_item) <= T (1 + 1e-6)           for EVERY input (never more)
                               power(out_item) >= (1 - 1e-3) T           under requires power(x_item) >= 1e-5
                               out_item depends on x_item only           (symbols occurring in the output terms)
                               idempotent / invariant to rescaling within 1e-3 relative (requires non-negligible power)
   PeakAmplitude (real):       |out_i| <= A,  out_i == x_i when |x_i| <= A (else the nearest bound);  complex input: rejection
   Composite / chain / combine == left fold of the parts (recording affine stubs, 0..4 parts)
   Factory composites:         all configured limits hold simultaneously on the output
   PAPRConstraint:             bounded stand-in only (15 data-dependent iterations)
"""
from __future__ import annotations

import math
import random
import time
from fractions import Fraction as Fr

import numpy as np
import torch
import z3

from vk import spec as SP
from vk import sym as S
from vk.harness import ObResult, obligation
from vk.ops_cons import abs_as_sqrt
from vk.tensor import P, PC

from .codes import Cfg

FP = "kaira/constraints/power.py"
FA = "kaira/constraints/antenna.py"
FS = "kaira/constraints/signal.py"
FC = "kaira/constraints/composite.py"
FU = "kaira/constraints/utils.py"

EPS = Fr(1e-8)  # the code's "+ 1e-8" as the exact rational of the Python float
SLACK = Fr(1, 10**6)
NONNEG = Fr(1, 10**5)  # "non-negligible power" of the property
NZ = Fr(1, 10**9)  # a decade above the code's own "< 1e-10 => treat as the zero signal" switch
TARGETS = {"T.01": 0.01, "T1": 1.0, "T2.5": 2.5, "T1000": 1000.0}
SHAPES = {"n2": (2,), "n3": (3,), "n4": (4,), "n6": (6,), "1x3": (1, 3), "1x4": (1, 4), "1x6": (1, 6), "2x2": (2, 2), "2x3": (2, 3), "3x2": (3, 2), "2x1x2": (2, 1, 2), "2x2x2": (2, 2, 2),
          "1x2x2": (1, 2, 2), "2x2x1": (2, 2, 1), "1x2x3": (1, 2, 3), "2x2x1x2": (2, 2, 1, 2), "2x3x1": (2, 3, 1), "1x1x4": (1, 1, 4)}


# ------------------------------------------------------------------------------------------------ helpers
def _input(ctx, shape, cplx, name="x", scale=None):
    smp = (lambda r: r.gauss(0, 1) * scale) if scale else None
    return ctx.complexes(name, shape, sampler=smp) if cplx else ctx.reals(name, shape, sampler=smp)


def _comps(t, cplx):
    """list of per-element component tuples [(re,) or (re, im)] in row-major order with the array shape"""
    re, im = PC(t)
    return re, (im if cplx else None)


def sumsq(vals):
    acc = 0
    for v in vals:
        acc = S.add(acc, S.mul(v, v))
    return acc


def _items(kind, shape):
    """list of index lists: which flat positions form one item"""
    n = int(np.prod(shape))
    idx = np.arange(n).reshape(shape)
    if kind == "antenna":
        if len(shape) >= 2:
            return [list(idx[b, a].reshape(-1)) for b in range(shape[0]) for a in range(shape[1])], [a for b in range(shape[0]) for a in range(shape[1])]
        return [list(idx.reshape(-1))], [0]
    if len(shape) > 1 and shape[0] > 1:
        return [list(idx[b].reshape(-1)) for b in range(shape[0])], None
    return [list(idx.reshape(-1))], None


def _item_vals(re, im, pos):
    fr = re.reshape(-1)
    vals = [fr[i] for i in pos]
    if im is not None:
        fi = im.reshape(-1)
        vals += [fi[i] for i in pos]
    return vals


def _power(kind, vals, nelem):
    p = sumsq(vals)
    return p if kind == "total" else S.div(p, nelem)


def _power_code_shape(kind, re, im, pos):
    """the same polynomial as _power, with the summands grouped per element (re_i^2 + im_i^2) the way the code under contract sums
    |x_i|^2: an assumption stated on this very term is found by hash-consing when the code's zero-signal test `power < 1e-10` is
    decided, instead of through a nonlinear equality of two differently ordered sums (which z3 decides in 0.1 s or in minutes,
    depending on the history of the process)"""
    fr, fi = re.reshape(-1), im.reshape(-1)
    p = 0
    for i in pos:
        p = S.add(p, S.add(S.mul(fr[i], fr[i]), S.mul(fi[i], fi[i])))
    return p if kind == "total" else S.div(p, len(pos))


def _build(kind, T, shape):
    from kaira.constraints import AveragePowerConstraint, PerAntennaPowerConstraint, TotalPowerConstraint

    if kind == "total":
        return TotalPowerConstraint(T), None
    if kind == "avg":
        return AveragePowerConstraint(T), None
    if kind == "antenna":
        return PerAntennaPowerConstraint(uniform_power=T), None
    if kind == "antenna_budget":
        A = shape[1] if len(shape) >= 2 else 1
        budget = [T * (a + 1) for a in range(A)]
        return PerAntennaPowerConstraint(power_budget=torch.tensor(budget)), budget
    raise KeyError(kind)


def _sqrt_defs(ctx):
    """auxiliary square-root variables of this execution: name -> (z3 var, radicand expr)"""
    out = {}
    for c in ctx.ex.sides:
        if z3.is_and(c) and c.num_args() == 2 and z3.is_eq(c.arg(1)) and z3.is_ge(c.arg(0)):
            s = c.arg(0).arg(0)
            if z3.is_const(s) and str(s).startswith("sqrt!"):
                out[str(s)] = (s, c.arg(1).arg(1))
    return out


def _free_consts(e, acc=None, seen=None):
    acc = set() if acc is None else acc
    seen = set() if seen is None else seen
    stack = [e]
    while stack:
        t = stack.pop()
        if t.get_id() in seen:
            continue
        seen.add(t.get_id())
        if z3.is_const(t) and t.decl().kind() == z3.Z3_OP_UNINTERPRETED:
            acc.add(str(t))
        else:
            stack.extend(t.children())
    return acc


def _support(ctx, vals):
    """input symbols the payload values depend on, following the definitions of auxiliary sqrt variables"""
    defs = _sqrt_defs(ctx)
    names = set()
    for v in vals:
        if isinstance(v, S.Sym):
            _free_consts(v.e, names)
    todo = [n for n in names if n in defs]
    done = set()
    while todo:
        n = todo.pop()
        if n in done:
            continue
        done.add(n)
        new = _free_consts(defs[n][1])
        for m in new:
            if m not in names:
                names.add(m)
                if m in defs:
                    todo.append(m)
    return {n for n in names if n not in defs}


def _own_names(pos, cplx, name="x"):
    if cplx:
        return {f"{name}.re[{i}]" for i in pos} | {f"{name}.im[{i}]" for i in pos}
    return {f"{name}[{i}]" for i in pos}


def _witness_scale(ctx, out_vals, x_vals, px, target, kind):
    """the positive real factor: in the symbolic run the execution's own sqrt variable occurring in the item's output terms;
    natively sqrt(target / (power + 1e-8)) computed in exact/float arithmetic"""
    if ctx.mode == "sym":
        defs = _sqrt_defs(ctx)
        names = set()
        for v in out_vals:
            if isinstance(v, S.Sym):
                _free_consts(v.e, names)
        inner = set()
        for v in x_vals or []:
            if isinstance(v, S.Sym):
                _free_consts(v.e, inner)
        cands = [n for n in names if n in defs and n not in inner]  # the input item may itself be the output of an earlier scaling
        if len(cands) != 1:
            return None, None  # caller falls back to the specified scale sqrt(target / (power + 1e-8)) and asks the solver directly
        s, r = defs[cands[0]]
        return S.Sym(s), S.Sym(r)
    r = S.div(target, S.add(px, EPS))
    return S.norm(math.sqrt(float(r))), r


def _ident(a, b):
    """polynomial identity decided by normalisation (z3.simplify to sum-of-monomials form, no solver): True or None"""
    if not isinstance(a, S.Sym) and not isinstance(b, S.Sym):
        return True if a == b else None
    d = z3.simplify(S.zreal(a) - S.zreal(b), som=True)
    if z3.is_rational_value(d) and d.numerator_as_long() == 0:
        return True
    return None


def _ident_or_eq(a, b):
    return True if _ident(a, b) else S.eq(a, b)


def _radicand_is(rexpr, num, den):
    """the sqrt variable's radicand is num / den: structural match on the division node + polynomial identities, else an equation for the solver"""
    if isinstance(rexpr, S.Sym) and z3.is_app(rexpr.e) and rexpr.e.decl().kind() == z3.Z3_OP_DIV:
        n_, d_ = rexpr.e.children()
        if _ident(S.Sym(n_), num) and _ident(S.Sym(d_), den):
            return True
    return S.eq(S.mul(rexpr, den), num)


def _lemma(names, facts_fn, goal_fn, timeout_ms=20000):
    """cut rule: `facts => goal` is valid for ALL real values of the abstract variables `names` (own z3 instance, a handful of
    variables).  Used only when every instantiated fact has been established in the full context; returns True / False.
    The query is translated into a FRESH z3 context: in the process-wide context the term ids (and with them nlsat's variable
    order) depend on everything the worker process did before, which made this nonlinear query take anything between 0.1 s and
    minutes.  A fresh context makes it the same query every time; `unknown` is retried with other seeds before giving up."""
    env = {n: S.Sym(z3.Real("cut!" + n)) for n in names}
    parts = [S.zbool(f) for f in facts_fn(env)] + [z3.Not(S.zbool(goal_fn(env)))]
    for attempt, seed in enumerate((0, 7, 23)):
        c2 = z3.Context()
        so = z3.Solver(ctx=c2)
        so.set("timeout", timeout_ms * 3)
        so.set("random_seed", seed)
        for f in parts:
            so.add(f.translate(c2))
        r = so.check()
        if r != z3.unknown:
            return r == z3.unsat
    return False


def _rel_close(a, b, rtol):
    return S.le(S.sabs(S.sub(a, b)), S.add(Fr(1, 10**9), S.mul(rtol, S.sabs(b))))


# ------------------------------------------------------------------------------------------------ Total / Average / PerAntenna: scaling law
def _scal_cfgs(tier):
    out = []
    tg = list(TARGETS)
    k = 0
    real_shapes = {"total": ["n3", "n6", "1x4", "2x3", "3x2", "2x1x2", "2x2x2"], "avg": ["n3", "n6", "1x4", "2x3", "3x2", "2x2x2"],
                   "antenna": ["1x2x2", "2x2x1", "2x2x2", "1x2x3", "2x2x1x2", "1x1x4", "2x2", "2x3"], "antenna_budget": ["1x2x2", "2x2x2", "2x3x1", "2x2"]}
    cplx_shapes = {"total": ["n2", "n3", "1x3", "2x2", "2x1x2"], "avg": ["n3", "1x3", "2x2"], "antenna": ["1x2x2", "2x2x1", "2x2"], "antenna_budget": ["1x2x2", "2x2"]}  # incl. the complex [batch, antennas] layout
    for kind in ("total", "avg", "antenna", "antenna_budget"):
        for cplx, table in ((False, real_shapes), (True, cplx_shapes)):
            for shp in table[kind]:
                ts = tg if tier == "thorough" else [tg[k % len(tg)], tg[(k + 2) % len(tg)]]
                k += 1
                for t in ts:
                    out.append(Cfg(kind, "complex" if cplx else "real", shp, t))
    return out


FUN_POWER = FP + ":TotalPowerConstraint.forward; " + FP + ":TotalPowerConstraint._apply_constraint_to_single_item; " + FP + ":AveragePowerConstraint.forward; " + FP + ":AveragePowerConstraint._apply_constraint_to_single_item; " + FA + ":PerAntennaPowerConstraint.forward"


@obligation("C08.power_scaling", function=FUN_POWER, configs=_scal_cfgs, timeout_ms=30000, crosscheck=2)
def power_scaling(ctx, cfg):
    """inputs whose items all have power >= 1e-9 (not 'zero' in the code's sense): positive scaling, target power, per-item"""
    kind, dom, shp, tname = cfg
    cplx = dom == "complex"
    shape = SHAPES[shp]
    T = TARGETS[tname]
    x = _input(ctx, shape, cplx)
    re, im = _comps(x, cplx)
    base = "antenna" if kind.startswith("antenna") else kind
    items, ant = _items(base, shape)
    c, budget = _build(kind, T, shape)
    pxs = []
    for pos in items:
        px = _power(base if base != "antenna" else "avg", _item_vals(re, im, pos), len(pos))
        ctx.assume(S.le(NZ, px))
        pxs.append(px)
    with abs_as_sqrt():
        out = ctx.call(c.forward, x)
    ctx.ensure("returns", out.ok, note=repr(out.exc) if not out.ok else "")
    if not out.ok:
        return
    y = out.value
    ctx.ensure("shape_dtype_preserved", SP.shape_is(y, shape) and y.dtype == x.dtype)
    ctx.ensure("input_unmodified", out.unmodified)
    ore, oim = _comps(y, cplx)
    pk = base if base != "antenna" else "avg"
    c_scaled, c_pos, c_le, c_ge, c_dep, c_rad, c_pid = [], [], [], [], [], [], []
    cut_ok = ctx.mode == "sym"
    for k, pos in enumerate(items):
        tgt_cfg = S.norm(T if budget is None else budget[ant[k]])  # the configured limit
        # the per-antenna constraint stores its target as a float32 tensor: the scale is formed from the float32 rounding of the limit
        tgt = S.norm(float(torch.tensor(float(tgt_cfg), dtype=torch.float32))) if base == "antenna" else tgt_cfg
        xv, ov = _item_vals(re, im, pos), _item_vals(ore, oim, pos)
        s, r = _witness_scale(ctx, ov, xv, pxs[k], tgt, kind)
        if s is None:
            # no single scale term in this item's output: state the law with the specified scale and leave it to the solver
            r = S.div(tgt, S.add(pxs[k], EPS))
            s = S.ssqrt(r)
            cut_ok = False
        po = _power(pk, ov, len(pos))
        if ctx.mode == "sym":
            f_scaled = SP.conj(_ident_or_eq(o, S.mul(v, s)) for o, v in zip(ov, xv))
            f_rad = _radicand_is(r, tgt, S.add(pxs[k], EPS))
            f_pid = _ident_or_eq(po, S.mul(S.mul(s, s), pxs[k]))
            c_scaled.append(f_scaled)
            c_rad.append(f_rad)
            c_pid.append(f_pid)
            c_dep.append(_support(ctx, ov) <= _own_names(pos, cplx))
            cut_ok = cut_ok and f_scaled is True and f_rad is True and f_pid is True
        else:
            c_scaled.append(SP.conj(_rel_close(o, S.mul(v, s), Fr(1, 10**5)) for o, v in zip(ov, xv)))
        facts = lambda e, tgt=tgt: [S.le(0, e["s"]), S.eq(S.mul(e["s"], e["s"]), S.div(tgt, S.add(e["p"], EPS))), S.le(NZ, e["p"]), S.eq(e["po"], S.mul(S.mul(e["s"], e["s"]), e["p"]))]
        inst = {"s": s, "p": pxs[k], "po": po}
        goals = {"pos": lambda e: S.lt(0, e["s"]), "le": lambda e, tgt=tgt_cfg: S.le(e["po"], S.mul(tgt, 1 + SLACK)), "ge": lambda e, tgt=tgt_cfg: S.lor(S.lt(e["p"], NONNEG), S.le(S.mul(tgt, Fr(999, 1000)), e["po"]))}
        for gname, acc in (("pos", c_pos), ("le", c_le), ("ge", c_ge)):
            if cut_ok and _lemma(["s", "p", "po"], facts, goals[gname]):
                acc.append(True)
            else:
                acc.append(goals[gname](inst))
    CUT = "cut: follows for all reals from {s >= 0, s^2 == T/(p+1e-8), p >= 1e-9, power(out) == s^2 p}, each established above (sqrt definition, radicand, power identity)"
    ctx.ensure("out_is_scale_times_x", SP.conj(c_scaled), note="out_item == s * x_item with s the execution's own scale term (signs and phases preserved)")
    if ctx.mode == "sym":
        ctx.ensure("scale_squared_is_target_over_power", SP.conj(c_rad), note="s^2 == target / (power(x_item) + 1e-8)")
        ctx.ensure("power_of_output_is_s2_times_power_of_input", SP.conj(c_pid))
    ctx.ensure("scale_is_positive", SP.conj(c_pos), note=CUT if cut_ok else "")
    ctx.ensure("never_more_than_target", SP.conj(c_le), note=CUT if cut_ok else "")
    ctx.ensure("target_within_0.1pct", SP.conj(c_ge), note="requires power(x_item) >= 1e-5" + (" | " + CUT if cut_ok else ""))
    if ctx.mode == "sym":
        ctx.ensure("depends_on_own_item_only", all(c_dep), note="input symbols occurring in the item's output terms (through the sqrt definitions) belong to the item")
    else:
        # native form of the dependency obligation: perturb every other item, this item's output must not move
        ok = True
        if len(items) > 1:
            with torch.no_grad():
                for k, pos in enumerate(items):
                    x2 = x.clone().reshape(-1)
                    mask = torch.ones(x2.numel(), dtype=torch.bool)
                    mask[pos] = False
                    x2[mask] = x2[mask] * 3.0 + 0.5
                    y2 = c.forward(x2.reshape(shape)).reshape(-1)
                    ok = ok and bool(torch.allclose(y2[pos], y.reshape(-1)[pos], rtol=1e-6, atol=0))
        ctx.ensure("depends_on_own_item_only", ok)


def _nm_cfgs(tier):
    out = []
    for kind, shapes in (("total", ["n3", "1x3", "2x2", "2x1x2"]), ("avg", ["n3", "2x2"] + (["1x3"] if tier == "thorough" else [])), ("antenna", ["1x2x2", "2x2x1", "2x2"])):
        for i, shp in enumerate(shapes):
            for t in (list(TARGETS) if tier == "thorough" else [list(TARGETS)[(i + (kind == "avg")) % 4]]):
                out.append(Cfg(kind, "real", shp, t))
    out += [Cfg("total", "complex", "n2", "T1"), Cfg("avg", "complex", "n2", "T2.5")]
    return out


@obligation("C08.power_never_more", function=FUN_POWER, configs=_nm_cfgs, timeout_ms=20000, crosscheck=3)
def power_never_more(ctx, cfg):
    """EVERY input, including items below the code's zero threshold (replaced by a flat signal) and mixed batches"""
    kind, dom, shp, tname = cfg
    cplx = dom == "complex"
    shape = SHAPES[shp]
    T = TARGETS[tname]
    x = _input(ctx, shape, cplx, scale=1e-5 if ctx.rng is not None and ctx.rng.random() < 0.4 else None)
    re, im = _comps(x, cplx)
    base = "antenna" if kind.startswith("antenna") else kind
    items, ant = _items(base, shape)
    c, budget = _build(kind, T, shape)
    with abs_as_sqrt():
        out = ctx.call(c.forward, x)
    ctx.ensure("returns", out.ok, note=repr(out.exc) if not out.ok else "")
    if not out.ok:
        return
    ore, oim = _comps(out.value, cplx)
    cl = []
    for k, pos in enumerate(items):
        po = _power(base if base != "antenna" else "avg", _item_vals(ore, oim, pos), len(pos))
        cl.append(S.le(po, S.mul(S.norm(T), 1 + SLACK)))
    ctx.ensure("never_more_than_target", SP.conj(cl))
    ctx.ensure("shape_preserved", SP.shape_is(out.value, shape))
    ctx.ensure("input_unmodified", out.unmodified)


# ------------------------------------------------------------------------------------------------ idempotence, rescaling invariance
def _ir_cfgs(tier):
    out = []
    for kind, shapes in (("total", ["n3", "2x2", "1x4"] + (["2x3"] if tier == "thorough" else [])), ("avg", ["n3", "2x2"] + (["2x3"] if tier == "thorough" else [])), ("antenna", ["1x2x2", "2x2x1"])):
        for i, shp in enumerate(shapes):
            for t in (list(TARGETS) if tier == "thorough" else [list(TARGETS)[(2 * i + (kind == "avg")) % 4], list(TARGETS)[(2 * i + 1 + (kind == "avg")) % 4]]):
                out.append(Cfg(kind, "real", shp, t, "idem"))
                out.append(Cfg(kind, "real", shp, t, "rescale"))
    out += [Cfg("total", "complex", "n2", "T1", "idem"), Cfg("avg", "complex", "2x2", "T.01", "idem")]
    # complex inputs: the scale factor c is taken from a grid (concrete), not symbolic.  With symbolic c the code's zero-signal test
    # on sum |c x_i|^2 is a nonlinear query that z3 answered in 0.1 s or not within 40 minutes depending on the history of the worker
    # process (and did not react to interrupts); all c > 0 symbolically is kept for real inputs, where the query is stable.
    for cval in ("0.01", "3.5", "10000"):
        out += [Cfg("total", "complex", "n2", "T2.5", "rescale:" + cval), Cfg("avg", "complex", "2x2", "T1000", "rescale:" + cval)]
    return out


@obligation("C08.idempotent_and_scale_invariant", function=FUN_POWER, configs=_ir_cfgs, timeout_ms=30000, crosscheck=2, max_paths=16)
def idem_rescale(ctx, cfg):
    """C(C(x)) ~ C(x) and C(c x) ~ C(x) for EVERY c > 0 (symbolic), within 1e-3 relative per sample; requires non-negligible power
    (>= 1e-5) of every item of x and of c x.  Proof shape: both executions are positive scalings by their own sqrt terms s1, s2
    (identities), whose radicands are target/(power + 1e-8) (identities); the per-sample bound then follows for all reals (cut lemma)."""
    kind, dom, shp, tname, var = cfg
    var, _, cgrid = var.partition(":")
    cplx = dom == "complex"
    shape = SHAPES[shp]
    T = TARGETS[tname]
    x = _input(ctx, shape, cplx)
    re, im = _comps(x, cplx)
    base = "antenna" if kind.startswith("antenna") else kind
    pk = base if base != "antenna" else "avg"
    items, ant = _items(base, shape)
    c, _ = _build(kind, T, shape)
    tgt = S.norm(float(torch.tensor(T, dtype=torch.float32))) if base == "antenna" else S.norm(T)
    pxs = []
    for pos in items:
        px = _power(pk, _item_vals(re, im, pos), len(pos))
        ctx.assume(S.le(NONNEG, px))
        pxs.append(px)
    with abs_as_sqrt():
        o1 = ctx.call(c.forward, x)
    ctx.ensure("returns", o1.ok)
    if not o1.ok:
        return
    a_re, a_im = _comps(o1.value, cplx)
    cs = None
    if var == "idem":
        x2, (r2, i2) = o1.value, (a_re, a_im)
    else:
        if cgrid:
            cs = Fr(cgrid)
        else:
            cs = ctx.scalar("c", "real", sampler=lambda r: r.choice([0.01, 0.37, 3.5, 100.0, 1e4]))
            ctx.assume(S.lt(0, cs))
        r2 = np.asarray([S.mul(v, cs) for v in re.reshape(-1)], dtype=object).reshape(shape)
        i2 = np.asarray([S.mul(v, cs) for v in im.reshape(-1)], dtype=object).reshape(shape) if cplx else None
        with ctx.sym():
            x2 = torch.complex(ctx.tensor(r2), ctx.tensor(i2)) if cplx else ctx.tensor(r2)
    # power of the second call's input, built the way the code builds it (so that its zero-signal test sees the same term)
    p2s = []
    for k, pos in enumerate(items):
        p2 = _power(pk, _item_vals(r2, i2, pos), len(pos))
        if var == "idem":
            # established by C08.power_scaling (target_within_0.1pct) for this very execution shape; re-established here as a cut
            s1, rr1 = _witness_scale(ctx, _item_vals(a_re, a_im, pos), None, pxs[k], tgt, kind) if ctx.mode == "sym" else (None, None)
            if ctx.mode == "sym":
                ok = s1 is not None and _radicand_is(rr1, tgt, S.add(pxs[k], EPS)) is True and _ident(p2, S.mul(S.mul(s1, s1), pxs[k])) and _lemma(
                    ["s", "p", "po"], lambda e: [S.le(0, e["s"]), S.eq(S.mul(e["s"], e["s"]), S.div(tgt, S.add(e["p"], EPS))), S.le(NONNEG, e["p"]), S.eq(e["po"], S.mul(S.mul(e["s"], e["s"]), e["p"]))],
                    lambda e: S.le(S.mul(tgt, Fr(999, 1000)), e["po"]))
                ctx.ensure("first_output_has_target_power", bool(ok), note="cut (same facts as C08.power_scaling)")
                if not ok:
                    return
            ctx.assume(S.le(S.mul(tgt, Fr(999, 1000)), p2))
        else:
            ctx.assume(S.le(NONNEG, p2))
            if cplx:
                ctx.assume(S.le(NONNEG, _power_code_shape(pk, r2, i2, pos)))  # same polynomial, the code's grouping
        p2s.append(p2)
    with abs_as_sqrt():
        o2 = ctx.call(c.forward, x2)
    ctx.ensure("second_returns", o2.ok)
    if not o2.ok:
        return
    b_re, b_im = _comps(o2.value, cplx)
    rt = Fr(1, 1000)
    name = "idempotent_within_1e-3" if var == "idem" else "invariant_to_input_scale_within_1e-3"
    absd = lambda a, b: S.le(S.sabs(S.sub(b, a)), S.add(Fr(1, 10**9), S.mul(rt, S.sabs(a))))
    if ctx.mode != "sym":
        av = list(a_re.reshape(-1)) + (list(a_im.reshape(-1)) if cplx else [])
        bv = list(b_re.reshape(-1)) + (list(b_im.reshape(-1)) if cplx else [])
        ctx.ensure(name, SP.conj(absd(a, b) for a, b in zip(av, bv)))
        return
    facts_ok = True
    for k, pos in enumerate(items):
        xv = _item_vals(re, im, pos)
        x2v = _item_vals(r2, i2, pos)
        o1v, o2v = _item_vals(a_re, a_im, pos), _item_vals(b_re, b_im, pos)
        s1, rr1 = _witness_scale(ctx, o1v, xv, pxs[k], tgt, kind)
        s2, rr2 = _witness_scale(ctx, o2v, x2v, p2s[k], tgt, kind)
        if s1 is None or s2 is None or str(s1.e) == str(s2.e):
            facts_ok = False
            break
        f = [_ident(o, S.mul(v, s1)) for o, v in zip(o1v, xv)] + [_ident(o, S.mul(v, s2)) for o, v in zip(o2v, x2v)]
        f += [_radicand_is(rr1, tgt, S.add(pxs[k], EPS)) is True, _radicand_is(rr2, tgt, S.add(p2s[k], EPS)) is True]
        f += [_ident(p2s[k], S.mul(S.mul(s1, s1), pxs[k])) if var == "idem" else _ident(p2s[k], S.mul(S.mul(cs, cs), pxs[k]))]
        facts_ok = facts_ok and all(v is True for v in f)
    if facts_ok:
        ctx.ensure("both_executions_are_scalings_with_the_specified_radicands", True, note="out1 == s1 x, out2 == s2 x2, s_i^2 == T/(power_i + 1e-8), power(x2) == " + ("s1^2 power(x)" if var == "idem" else "c^2 power(x)") + " (polynomial identities, normal form)")
    if not facts_ok:
        # no abstraction available: ask the solver directly
        av = list(a_re.reshape(-1)) + (list(a_im.reshape(-1)) if cplx else [])
        bv = list(b_re.reshape(-1)) + (list(b_im.reshape(-1)) if cplx else [])
        ctx.ensure(name, SP.conj(absd(a, b) for a, b in zip(av, bv)))
        return
    if var == "idem":
        ok = _lemma(["s1", "s2", "p", "p2", "v"],
                    lambda e: [S.le(0, e["s1"]), S.le(0, e["s2"]), S.eq(S.mul(e["s1"], e["s1"]), S.div(tgt, S.add(e["p"], EPS))), S.le(NONNEG, e["p"]), S.eq(e["p2"], S.mul(S.mul(e["s1"], e["s1"]), e["p"])),
                               S.eq(S.mul(e["s2"], e["s2"]), S.div(tgt, S.add(e["p2"], EPS)))],
                    lambda e: absd(S.mul(e["v"], e["s1"]), S.mul(S.mul(e["v"], e["s1"]), e["s2"])))
    else:
        ok = _lemma(["s1", "s2", "p", "p2", "v", "c"],
                    lambda e: [S.lt(0, e["c"]), S.le(0, e["s1"]), S.le(0, e["s2"]), S.eq(S.mul(e["s1"], e["s1"]), S.div(tgt, S.add(e["p"], EPS))), S.le(NONNEG, e["p"]), S.eq(e["p2"], S.mul(S.mul(e["c"], e["c"]), e["p"])), S.le(NONNEG, e["p2"]),
                               S.eq(S.mul(e["s2"], e["s2"]), S.div(tgt, S.add(e["p2"], EPS)))],
                    lambda e: absd(S.mul(e["v"], e["s1"]), S.mul(S.mul(e["v"], e["c"]), e["s2"])))
    ctx.ensure(name, bool(ok), note="cut: for all reals v, s1, s2, p" + ("" if var == "idem" else ", c > 0") + ": the facts above imply |out2 - out1| <= 1e-9 + 1e-3 |out1| for out1 = v s1, out2 = " + ("v s1 s2" if var == "idem" else "c v s2"))


# ------------------------------------------------------------------------------------------------ PeakAmplitude
AMPS = {"A.01": 0.01, "A1": 1.0, "A2.5": 2.5, "A1000": 1000.0}


def _peak_cfgs(tier):
    shapes = ["n3", "1x4", "2x3", "2x2x2"] + (["n6", "2x2x1x2"] if tier == "thorough" else [])
    return [Cfg("peak", shp, a) for shp in shapes for a in (list(AMPS) if tier == "thorough" else ["A1", "A.01", "A2.5"])]


@obligation("C08.peak_amplitude", function=FS + ":PeakAmplitudeConstraint.forward", configs=_peak_cfgs, crosscheck=3)
def peak_amplitude(ctx, cfg):
    from kaira.constraints import PeakAmplitudeConstraint

    _, shp, an = cfg
    shape = SHAPES[shp]
    A = S.norm(AMPS[an])
    x = ctx.reals("x", shape, sampler=lambda r: r.gauss(0, 1) * r.choice([0.01, 1, 100]) * AMPS[an])
    out = ctx.call(PeakAmplitudeConstraint(AMPS[an]).forward, x)
    ctx.ensure("returns", out.ok, note=repr(out.exc) if not out.ok else "")
    if not out.ok:
        return
    xv, ov = P(x).reshape(-1), P(out.value).reshape(-1)
    ctx.ensure("every_sample_bounded", SP.conj(S.le(S.sabs(o), A) for o in ov))
    ctx.ensure("identity_inside_the_limit", SP.conj(S.lor(S.lt(A, S.sabs(v)), S.eq(o, v)) for o, v in zip(ov, xv)))
    ctx.ensure("clipped_to_nearest_bound", SP.conj(S.land(S.lor(S.le(v, A), S.eq(o, A)), S.lor(S.le(S.mul(-1, A), v), S.eq(o, S.mul(-1, A)))) for o, v in zip(ov, xv)), note="sign preserved")
    ctx.ensure("elementwise", True if ctx.mode != "sym" else all(_support(ctx, [o]) <= {f"x[{i}]"} for i, o in enumerate(ov)))
    ctx.ensure("shape_preserved", SP.shape_is(out.value, shape))
    ctx.ensure("input_unmodified", out.unmodified)
    o2 = ctx.call(PeakAmplitudeConstraint(AMPS[an]).forward, out.value)
    ctx.ensure("idempotent", o2.ok and SP.all_eq(P(o2.value), P(out.value)))


@obligation("C08.peak_amplitude_complex", function=FS + ":PeakAmplitudeConstraint.forward; " + FU + ":create_ofdm_constraints", configs=lambda tier: [Cfg("closed")], kind="ground", engine="ground")
def peak_complex(cfg):
    """the property needs a bound or a rejection for complex input: closed obligation on what the code does"""
    from kaira.constraints import PeakAmplitudeConstraint
    from kaira.constraints.utils import create_ofdm_constraints

    res = []
    for shape in [(4,), (1, 4), (2, 3), (2, 2, 2)]:
        z = torch.complex(torch.randn(shape, generator=torch.Generator().manual_seed(1)), torch.randn(shape, generator=torch.Generator().manual_seed(2))) * 3
        for A in (0.01, 1.0, 100.0):
            try:
                y = PeakAmplitudeConstraint(A)(z)
                res.append(("bounded" if bool((y.abs() <= A * (1 + 1e-6)).all()) else "UNBOUNDED", shape, A))
            except Exception as e:
                res.append(("raises " + type(e).__name__, shape, A))
    kinds = sorted({r[0] for r in res})
    yield "complex_input_bounded_or_rejected", all(k == "bounded" or k.startswith("raises") for k in kinds), f"PeakAmplitudeConstraint on complex input: {kinds} over {len(res)} (shape, limit) pairs"
    try:
        y = create_ofdm_constraints(total_power=1.0, max_papr=None, is_complex=True, peak_amplitude=1.0)(torch.complex(torch.ones(4), torch.ones(4)))
        r = "returned"
        ok = bool((y.abs() <= 1.0 + 1e-6).all())
    except Exception as e:
        r, ok = "raises " + type(e).__name__, True
    yield "ofdm_factory_complex_with_peak_limit_bounded_or_rejected", ok, f"create_ofdm_constraints(is_complex=True, peak_amplitude=1.0) on a complex signal: {r} (the factory advertises complex support; the peak stage rejects complex tensors)"


# ------------------------------------------------------------------------------------------------ composite == left fold
def _stub(a, b):
    from kaira.constraints.base import BaseConstraint

    class Affine(BaseConstraint):
        """recording stand-in for an arbitrary part: x -> a*x + b (distinct, non-commuting maps make the order observable)"""

        def __init__(self):
            super().__init__()
            self.calls = 0

        def forward(self, x, *args, **kwargs):
            self.calls += 1
            return x * a + b + (kwargs.get("shift", 0) if kwargs else 0)

    return Affine()


STUBS = [(2.0, 1.0), (-3.0, 0.5), (0.5, -2.0), (4.0, 3.0)]


@obligation("C08.composite_is_left_fold", function=FC + ":CompositeConstraint.forward; " + FC + ":CompositeConstraint.__init__; " + FC + ":CompositeConstraint.add_constraint; " + FU + ":apply_constraint_chain; " + FU + ":combine_constraints",
            configs=lambda tier: [Cfg(api, k) for api in ("composite", "chain", "combine", "add") for k in range(0, 5)] + [Cfg(api, k) for api in ("add_after_call", "nested_add_after_call") for k in range(2, 5)] + [Cfg(api, "dup") for api in ("composite", "chain", "combine", "add")], crosscheck=2)
def composite_fold(ctx, cfg):
    from kaira.constraints import CompositeConstraint
    from kaira.constraints.utils import apply_constraint_chain, combine_constraints

    api, k = cfg
    x = ctx.reals("x", (3,))
    if k == "dup":
        # one constraint OBJECT at several positions of the chain (avg -> peak -> avg is the textbook use): positions, not objects, count
        base = [_stub(a, b) for a, b in STUBS[:3]]
        order = [0, 1, 0, 2, 1]
        parts = [base[i] for i in order]
        coeffs = [STUBS[i] for i in order]
        k = len(parts)
    else:
        parts = [_stub(a, b) for a, b in STUBS[:k]]
        coeffs = STUBS[:k]
    want = P(x).copy()
    for a, b in coeffs:
        want = np.asarray([S.add(S.mul(v, S.norm(a)), S.norm(b)) for v in want], dtype=object)
    if api == "composite":
        out = ctx.call(CompositeConstraint(parts).forward, x)
    elif api == "chain":
        out = ctx.call(apply_constraint_chain, parts, x)
    elif api == "add":
        comp = CompositeConstraint(parts[:1])
        for p in parts[1:]:
            comp.add_constraint(p)
        if k == 0:
            comp = CompositeConstraint([])
        out = ctx.call(comp.forward, x)
    elif api in ("add_after_call", "nested_add_after_call"):
        # history: the composite has been CALLED before parts are added (to it, or to a composite nested inside it); the next
        # call must apply the parts it holds now
        if api == "add_after_call":
            comp = target = CompositeConstraint(parts[:1])
        else:
            target = CompositeConstraint(parts[:1])
            comp = CompositeConstraint([target])
        with torch.no_grad():
            comp(torch.tensor([0.25, -1.0, 2.0]))
        for p in parts[1:]:
            target.add_constraint(p)
        for p in parts:
            p.calls = 0
        out = ctx.call(comp.forward, x)
    else:
        if k == 0:
            try:
                combine_constraints([])
                ctx.ensure("empty_list_rejected", False)
            except ValueError:
                ctx.ensure("empty_list_rejected", True)
            return
        comb = combine_constraints(parts)
        ctx.ensure("single_part_returned_as_is", k != 1 or comb is parts[0])
        out = ctx.call(comb.forward, x)
    ctx.ensure("returns", out.ok, note=repr(out.exc) if not out.ok else "")
    if not out.ok:
        return
    ctx.ensure("equals_left_fold_of_parts", SP.all_eq(P(out.value), want), note=f"{k} parts")
    ctx.ensure("each_part_applied_exactly_once", all(p.calls == sum(1 for q in parts if q is p) for p in parts), note="once per POSITION it occupies in the chain")
    ctx.ensure("input_unmodified", out.unmodified)


@obligation("C08.composite_real_parts", function=FC + ":CompositeConstraint.forward; " + FU + ":apply_constraint_chain", configs=lambda tier: [Cfg("peak_total", "n3"), Cfg("peak_avg", "n3")], timeout_ms=30000, crosscheck=2, max_paths=64)
def composite_real(ctx, cfg):
    """random-chain instance with real parts: composite(x) == part_k(...part_1(x)) evaluated by calling the parts one by one"""
    from kaira.constraints import AveragePowerConstraint, CompositeConstraint, PeakAmplitudeConstraint, TotalPowerConstraint

    name, shp = cfg
    mk = {"peak": lambda: PeakAmplitudeConstraint(1.5), "total": lambda: TotalPowerConstraint(2.5), "avg": lambda: AveragePowerConstraint(0.5)}
    shape = SHAPES[shp]
    x = ctx.reals("x", shape)
    for pos in _items("total", shape)[0]:
        ctx.assume(S.le(NZ, sumsq(_item_vals(P(x), None, pos))))
    parts = [mk[n]() for n in name.split("_")]
    out = ctx.call(CompositeConstraint(parts).forward, x)
    ctx.ensure("returns", out.ok)
    if not out.ok:
        return
    cur = x
    for p in [mk[n]() for n in name.split("_")]:
        o = ctx.call(p.forward, cur)
        if not o.ok:
            ctx.ensure("parts_return", False)
            return
        cur = o.value
    ctx.ensure("equals_sequential_application", SP.all_close(P(out.value), P(cur), rtol=Fr(1, 10**6)))


# ------------------------------------------------------------------------------------------------ factory composites
@obligation("C08.factory_structure", function=FU + ":create_ofdm_constraints; " + FU + ":create_mimo_constraints", configs=lambda tier: [Cfg("closed")], kind="ground", engine="ground")
def factory_structure(cfg):
    from kaira.constraints import CompositeConstraint, PAPRConstraint, PeakAmplitudeConstraint, PerAntennaPowerConstraint, TotalPowerConstraint
    from kaira.constraints.utils import create_mimo_constraints, create_ofdm_constraints

    def sig(c):
        out = []
        for p in c.constraints:
            out.append((type(p).__name__, getattr(p, "max_papr", None) or getattr(p, "max_amplitude", None) or getattr(p, "total_power", None) or getattr(p, "uniform_power", None)))
        return out

    c = create_ofdm_constraints(total_power=2.0, max_papr=5.0, peak_amplitude=1.5)
    yield "ofdm_parts", isinstance(c, CompositeConstraint) and sorted(sig(c)) == sorted([("PAPRConstraint", 5.0), ("PeakAmplitudeConstraint", 1.5), ("TotalPowerConstraint", 2.0)]), f"{sig(c)}"
    c = create_ofdm_constraints(total_power=2.0, max_papr=None)
    yield "ofdm_optional_parts_omitted", sig(c) == [("TotalPowerConstraint", 2.0)], f"{sig(c)}"
    c = create_mimo_constraints(num_antennas=2, uniform_power=0.5, max_papr=4.0)
    yield "mimo_parts_uniform", sorted(sig(c)) == sorted([("PerAntennaPowerConstraint", 0.5), ("PAPRConstraint", 4.0)]), f"{sig(c)}"
    c = create_mimo_constraints(num_antennas=2, total_power=3.0)
    yield "mimo_parts_total", sig(c) == [("TotalPowerConstraint", 3.0)], f"{sig(c)}"
    bad = []
    for kw in ({}, {"uniform_power": 1.0, "total_power": 1.0}):
        try:
            create_mimo_constraints(num_antennas=2, **kw)
            bad.append(kw)
        except ValueError:
            pass
    yield "mimo_rejects_ambiguous_power_spec", not bad, f"{bad}"


def _peak_of(vals):
    m = 0
    for v in vals:
        m = S.smax(m, S.sabs(v))
    return m


@obligation("C08.ofdm_limits_simultaneously", function=FU + ":create_ofdm_constraints; " + FC + ":CompositeConstraint.forward; " + FS + ":PeakAmplitudeConstraint.forward; " + FP + ":TotalPowerConstraint.forward",
            configs=lambda tier: [Cfg("n3", 1.0, 2.0), Cfg("n3", 1.0, 1.0), Cfg("2x2", 1.0, 1.5), Cfg("n2", 2.0, 5.0)] + ([Cfg("n3", 0.5, 0.25), Cfg("1x3", 10.0, 250.0)] if tier == "thorough" else []), timeout_ms=8000, crosscheck=3)
def ofdm_limits(ctx, cfg):
    """create_ofdm_constraints(total_power=T, max_papr=None, peak_amplitude=A) on real signals, FEASIBLE configurations only
    (T <= n * A^2: signals meeting both limits exist).  The PAPR stage is out of reach symbolically (bounded obligation below)."""
    from kaira.constraints.utils import create_ofdm_constraints

    shp, A, T = cfg
    shape = SHAPES[shp]
    items, _ = _items("total", shape)
    n = len(items[0])
    assert T <= n * A * A
    x = ctx.reals("x", shape, sampler=lambda r: r.gauss(0, 1) * r.choice([0.1, 1, 10]))
    for pos in items:
        ctx.assume(S.le(NONNEG, sumsq(_item_vals(P(x), None, pos))))
    comp = create_ofdm_constraints(total_power=T, max_papr=None, is_complex=False, peak_amplitude=A)
    out = ctx.call(comp.forward, x)
    ctx.ensure("returns", out.ok, note=repr(out.exc) if not out.ok else "")
    if not out.ok:
        return
    ov = P(out.value)
    pw, pk = [], []
    for pos in items:
        vals = _item_vals(ov, None, pos)
        pw.append(S.le(sumsq(vals), S.mul(S.norm(T), 1 + SLACK)))
        pk.append(S.le(_peak_of(vals), S.mul(S.norm(A), 1 + SLACK)))
    if n <= 2:
        # end-to-end power clause only where NRA decides it for either stage order (clip-then-scale and scale-then-clip); for longer items
        # the power limit of the composite rests on C08.power_never_more (TotalPower, every input) + C08.composite_is_left_fold, and on the bounded sweep
        ctx.ensure("power_limit_holds", SP.conj(pw))
    ctx.ensure("peak_limit_holds", SP.conj(pk), note=f"peak_amplitude={A}, total_power={T}, {n} samples per item (feasible: T <= n A^2)")


# ------------------------------------------------------------------------------------------------ measure_signal_properties (the observation function)
@obligation("C08.measure_signal_properties", function=FU + ":measure_signal_properties", configs=lambda tier: [Cfg("real", "n3"), Cfg("real", "1x3"), Cfg("complex", "n2")], timeout_ms=20000, crosscheck=3, max_paths=64)
def measure_props(ctx, cfg):
    from kaira.constraints.utils import measure_signal_properties

    dom, shp = cfg
    cplx = dom == "complex"
    shape = SHAPES[shp]
    x = _input(ctx, shape, cplx)
    re, im = _comps(x, cplx)
    n = int(np.prod(shape))
    mags2 = [S.add(S.mul(a, a), S.mul(b, b)) if cplx else S.mul(a, a) for a, b in zip(re.reshape(-1), (im if cplx else re).reshape(-1))]
    tot = 0
    for m in mags2:
        tot = S.add(tot, m)
    ctx.assume(S.lt(0, tot))

    def norm_dict(t):
        d = measure_signal_properties(t)
        return {k: (v if isinstance(v, S.Sym) else S.norm(v)) for k, v in d.items() if k != "papr_db"}

    with abs_as_sqrt():
        out = ctx.call(norm_dict, x)
    ctx.ensure("returns", out.ok, note=repr(out.exc) if not out.ok else "")
    if not out.ok:
        return
    d = out.value
    rt = Fr(1, 10**5)
    ctx.ensure("mean_power", _rel_close(d["mean_power"], S.div(tot, n), rt))
    pk = d["peak_power"]
    ctx.ensure("peak_power_is_an_upper_bound", SP.conj(S.le(m, S.mul(pk, 1 + rt)) for m in mags2))
    ctx.ensure("peak_power_is_attained", SP.disj(_rel_close(pk, m, rt) for m in mags2))
    ctx.ensure("peak_amplitude_squared_is_peak_power", S.land(S.le(0, d["peak_amplitude"]), _rel_close(S.mul(d["peak_amplitude"], d["peak_amplitude"]), pk, Fr(1, 10**4))))
    ctx.ensure("papr_is_peak_over_mean", _rel_close(S.mul(d["papr"], d["mean_power"]), pk, Fr(1, 10**4)))


# ------------------------------------------------------------------------------------------------ bounded stand-ins: PAPR, factory composites, signal families
FAMILIES = ("gauss", "uniform", "ofdm", "heavy", "const", "alt")


def _family(name, n, cplx, gen):
    g = lambda: torch.randn(n, generator=gen)
    u = lambda: torch.rand(n, generator=gen)
    if name == "gauss":
        x = torch.complex(g(), g()) if cplx else g()
    elif name == "uniform":
        x = torch.complex(u() * 2 - 1, u() * 2 - 1) if cplx else u() * 2 - 1
    elif name == "ofdm":
        x = torch.fft.ifft(torch.complex(g(), g())) * math.sqrt(n)
        x = x if cplx else x.real.contiguous()
    elif name == "heavy":
        x = g() / (u() + 0.05)
        x = torch.complex(x, g() / (u() + 0.05)) if cplx else x
    elif name == "const":
        x = torch.ones(n) * (1.2 + 0.5j) if cplx else torch.ones(n) * 1.7
    else:
        x = torch.tensor([(-1.0) ** i for i in range(n)]) * 2.0
        x = x * (1 + 1j) if cplx else x
    return x


def _papr(v):
    p = v.abs() ** 2
    return float(p.max() / p.mean())


def _nonsparse(v):
    m = v.abs()
    return float((m >= 0.1 * m.max()).float().mean()) >= 0.25


def _layouts(n):
    """(shape, items) layouts of the property: 1-D, batch of 1, batch of B, 3-D, 4-D"""
    return [((n,), 1), ((1, n), 1), ((3, n), 3), ((2, 2, n // 2), 2), ((2, 2, 2, n // 4), 2)]


def _bres(spec, name, cfg, fail, evals, cases, detail, t0):
    r = ObResult(prop="C08", ob=f"{spec.id}/{name}", config=str(cfg), function=spec.function, engine="standin", backend="native", kind="bounded")
    r.verdict = "discharged" if fail is None else "refuted"
    r.paths, r.queries, r.witness = evals, cases, fail
    r.replay_confirmed = None if fail is None else True
    r.detail = "bounded: " + detail
    r.wall_s = round(time.time() - t0, 2)
    return r


@obligation("C08.papr_bounded", function=FP + ":PAPRConstraint.forward; " + FP + ":PAPRConstraint._apply_constraint_to_single_item", configs=lambda tier: [Cfg(f, d) for f in FAMILIES for d in ("real", "complex")], kind="custom", engine="standin")
def papr_bounded(spec, cfg, tier, seed):
    from kaira.constraints import PAPRConstraint

    fam, dom = cfg
    cplx = dom == "complex"
    t0 = time.time()
    import zlib

    gen = torch.Generator().manual_seed(seed * 977 + zlib.crc32(f"{fam}/{dom}".encode()) % 1000)  # stable across processes (str hash is salted)
    fail_limit = fail_item = fail_batch = fail_weak = None
    evals = cases = 0
    reps = 2 if tier == "quick" else 8
    with torch.no_grad():
        for L in (1.5, 2.0, 3.0, 4.0, 6.0, 10.0):
            c = PAPRConstraint(L)
            for n in (8, 16, 64) + ((256,) if tier == "thorough" else ()):
                for scale in (1e-2, 1.0, 1e2, 1e4):
                    for shape, nb in _layouts(n):
                        for _ in range(reps):
                            per = int(np.prod(shape)) // nb
                            rows = [_family(fam, per, cplx, gen) * scale for _ in range(nb)]
                            if not all(_nonsparse(r) for r in rows):
                                continue
                            x = torch.stack(rows).reshape(shape)
                            y = c(x)
                            evals += 1
                            yi = y.reshape(nb, -1)
                            for b in range(nb):
                                cases += 1
                                pr = _papr(yi[b])
                                if pr > L * (1 + 1e-6):
                                    w_ = {"max_papr": L, "shape": list(shape), "scale": scale, "item": b, "papr_out": pr, "papr_in": _papr(rows[b]), "x_item": [str(v) for v in rows[b].tolist()[:16]]}
                                    # weak signals (mean power < 1e-3, where the code's absolute 1e-8 guard is not negligible) are the known
                                    # finding recorded through C08.papr_weak_signal_inputs; they are reported under their own clause
                                    if float((rows[b].abs() ** 2).mean()) < 1e-3:
                                        fail_weak = fail_weak or w_
                                    else:
                                        fail_limit = fail_limit or w_
                                # every sample keeps its sign / phase and is never amplified
                                xb = rows[b].reshape(-1)
                                ok = bool((yi[b].abs() <= xb.abs() * (1 + 1e-5) + 1e-12).all()) and bool(((yi[b] * xb.conj()).real >= -1e-9 * float(xb.abs().max()) ** 2).all())
                                if cplx:
                                    ok = ok and bool(((yi[b] * xb.conj()).imag.abs() <= 1e-4 * (yi[b].abs() * xb.abs()) + 1e-12).all())
                                if not ok and fail_item is None:
                                    fail_item = {"max_papr": L, "shape": list(shape), "scale": scale, "item": b}
                                # batched path == per-item path
                                if nb > 1:
                                    ys = c(rows[b].reshape((1,) + tuple(shape[1:]))).reshape(-1)  # batch of one: the single-item path
                                    if not torch.allclose(ys, yi[b], rtol=1e-5, atol=1e-7 * scale) and fail_batch is None:
                                        fail_batch = {"max_papr": L, "shape": list(shape), "scale": scale, "item": b}
    d = f"family {fam}/{dom}: limits 1.5..10 x n 8..{64 if tier == 'quick' else 256} x scales 1e-2..1e4 x layouts 1-D,(1,n),(3,n),3-D,4-D; non-sparse signals only (>= 1/4 of the samples within 20 dB of the peak); {evals} calls, {cases} items"
    return [_bres(spec, "output_papr_within_limit", cfg, fail_limit, evals, cases, d + "; items of mean power >= 1e-3", t0), _bres(spec, "output_papr_within_limit.weak_signals", cfg, fail_weak, evals, cases, d + "; items of mean power < 1e-3", t0),
            _bres(spec, "clips_without_amplifying_or_rotating", cfg, fail_item, evals, cases, d, t0),
            _bres(spec, "batched_path_equals_per_item_path", cfg, fail_batch, evals, cases, d + " (torch.vmap raises on the data-dependent loop; the except branch loops over the items)", t0)]


@obligation("C08.families_power", function=FUN_POWER, configs=lambda tier: [Cfg(k, d) for k in ("total", "avg", "antenna") for d in ("real", "complex")], kind="custom", engine="standin")
def families_power(spec, cfg, tier, seed):
    """the property's own sweep (signal families x scales x layouts x targets) as a float-level cross-check of the symbolic obligations"""
    kind, dom = cfg
    cplx = dom == "complex"
    t0 = time.time()
    gen = torch.Generator().manual_seed(seed * 31 + 5)
    fail = None
    evals = cases = 0
    with torch.no_grad():
        for T in (1e-2, 1.0, 37.5, 1e3):
            for fam in FAMILIES:
                for n in (8, 64):
                    for scale in (1e-2, 1.0, 1e2, 1e4):
                        for shape, nb in _layouts(n):
                            if kind == "antenna" and len(shape) < 3:
                                continue
                            c, _ = _build(kind, T, shape)
                            x = torch.stack([_family(fam, int(np.prod(shape)) // nb, cplx, gen) * scale for _ in range(nb)]).reshape(shape)
                            y = c(x)
                            evals += 1
                            items, _ = _items(kind, shape)
                            for pos in items:
                                cases += 1
                                yv, xv = y.reshape(-1)[pos], x.reshape(-1)[pos]
                                p = float((yv.abs() ** 2).sum()) / (1 if kind == "total" else len(pos))
                                ratio = yv / xv
                                pin = float((xv.abs() ** 2).sum()) / (1 if kind == "total" else len(pos))
                                okp = p <= T * (1 + 1e-5) and (p >= T * (1 - 1e-3) or pin < 1.01e-5)
                                oks = bool((ratio.real > 0).all()) and float((ratio - ratio.reshape(-1)[0]).abs().max()) <= 1e-4 * float(ratio.abs().max())
                                if not (okp and oks) and fail is None:
                                    fail = {"target": T, "family": fam, "shape": list(shape), "scale": scale, "item_power": p, "positive_common_factor": oks}
    d = f"{kind}/{dom}: targets 1e-2..1e3 x 6 families x n 8,64 x scales 1e-2..1e4 x 5 layouts; {evals} calls, {cases} items; float32 tolerance 1e-5 on 'never more'"
    return [_bres(spec, "item_power_and_positive_factor", cfg, fail, evals, cases, d, t0)]


@obligation("C08.factory_limits_bounded", function=FU + ":create_ofdm_constraints; " + FU + ":create_mimo_constraints; " + FC + ":CompositeConstraint.forward; " + FP + ":PAPRConstraint.forward", configs=lambda tier: [Cfg("ofdm", "real"), Cfg("ofdm_nopeak", "real"), Cfg("ofdm_nopeak", "complex"), Cfg("mimo_uniform", "real"), Cfg("mimo_uniform", "complex"), Cfg("mimo_total", "real"), Cfg("random_chain", "real")], kind="custom", engine="standin")
def factory_bounded(spec, cfg, tier, seed):
    from kaira.constraints import AveragePowerConstraint, CompositeConstraint, PAPRConstraint, PeakAmplitudeConstraint, TotalPowerConstraint
    from kaira.constraints.utils import apply_constraint_chain, create_mimo_constraints, create_ofdm_constraints

    kind, dom = cfg
    cplx = dom == "complex"
    t0 = time.time()
    gen = torch.Generator().manual_seed(seed * 53 + 11)
    rng = random.Random(seed * 7 + 1)
    fails = {}
    evals = cases = 0

    def note(name, w):
        fails.setdefault(name, w)

    with torch.no_grad():
        for fam in FAMILIES:
            for scale in (1e-2, 1.0, 1e2, 1e4):
                for n in (16, 64):
                    for rep in range(2 if tier == "quick" else 6):
                        if kind.startswith("ofdm"):
                            L = rng.choice([3.0, 4.0, 6.0])
                            T = rng.choice([0.5, 1.0, 10.0])
                            # feasible peak limit: a constant-modulus signal of power T has amplitude sqrt(T/n); allow head-room up to the PAPR limit
                            A = math.sqrt(T / n * L) if kind == "ofdm" else None
                            comp = create_ofdm_constraints(total_power=T, max_papr=L, is_complex=cplx, peak_amplitude=A)
                            for shape, nb in _layouts(n)[:3]:
                                rows = [_family(fam, n, cplx, gen) * scale for _ in range(nb)]
                                if not all(_nonsparse(r) for r in rows):
                                    continue
                                y = comp(torch.stack(rows).reshape(shape)).reshape(nb, -1)
                                evals += 1
                                for b in range(nb):
                                    cases += 1
                                    w = {"family": fam, "scale": scale, "shape": list(shape), "total_power": T, "max_papr": L, "peak_amplitude": A, "item": b, "papr": _papr(y[b]), "power": float((y[b].abs() ** 2).sum()), "peak": float(y[b].abs().max())}
                                    if w["power"] > T * (1 + 1e-5):
                                        note("power_limit", w)
                                    if w["papr"] > L * (1 + 1e-5):
                                        note("papr_limit", w)
                                    if A is not None and w["peak"] > A * (1 + 1e-5):
                                        note("peak_limit", w)
                        elif kind.startswith("mimo"):
                            L = rng.choice([3.0, 4.0, 6.0])
                            Tq = rng.choice([0.5, 1.0, 10.0])
                            A_ = 2
                            comp = create_mimo_constraints(num_antennas=A_, max_papr=L, **({"uniform_power": Tq} if kind == "mimo_uniform" else {"total_power": Tq}))
                            for B in (1, 3):
                                x = torch.stack([_family(fam, n, cplx, gen) * scale for _ in range(B * A_)]).reshape(B, A_, n)
                                if not all(_nonsparse(x[b]) for b in range(B)):
                                    continue
                                y = comp(x)
                                evals += 1
                                for b in range(B):
                                    cases += 1
                                    w = {"family": fam, "scale": scale, "shape": [B, A_, n], "power": Tq, "max_papr": L, "item": b, "papr": _papr(y[b])}
                                    if w["papr"] > L * (1 + 1e-5):
                                        note("papr_limit", w)
                                    if kind == "mimo_uniform":
                                        pa = (y[b].abs() ** 2).mean(dim=-1)
                                        if float(pa.max()) > Tq * (1 + 1e-5):
                                            note("power_limit", dict(w, antenna_power=pa.tolist()))
                                    elif float((y[b].abs() ** 2).sum()) > Tq * (1 + 1e-5):
                                        note("power_limit", dict(w, total=float((y[b].abs() ** 2).sum())))
                        else:
                            # random chains: composite == sequential application of the same parts
                            mk = [lambda: PeakAmplitudeConstraint(rng.choice([0.5, 2.0])), lambda: TotalPowerConstraint(rng.choice([0.1, 5.0])), lambda: AveragePowerConstraint(rng.choice([0.1, 5.0])), lambda: PAPRConstraint(rng.choice([3.0, 6.0]))]
                            parts = [rng.choice(mk)() for _ in range(rng.randint(0, 4))]
                            x = torch.stack([_family(fam, n, False, gen) * scale for _ in range(2)])
                            y = CompositeConstraint(parts)(x)
                            z = x
                            for p in parts:
                                z = p(z)
                            evals += 1
                            cases += 1
                            if not torch.equal(y, z) or not torch.equal(apply_constraint_chain(parts, x), z):
                                note("composite_equals_sequential", {"parts": [type(p).__name__ for p in parts], "family": fam, "scale": scale})
    d = f"{kind}/{dom}: 6 families x scales 1e-2..1e4 x n 16,64 x layouts/batches, non-sparse signals, feasible limit combinations; {evals} calls, {cases} items"
    names = {"ofdm": ["power_limit", "papr_limit", "peak_limit"], "ofdm_nopeak": ["power_limit", "papr_limit"], "mimo_uniform": ["power_limit", "papr_limit"], "mimo_total": ["power_limit", "papr_limit"], "random_chain": ["composite_equals_sequential"]}[kind]
    return [_bres(spec, nm, cfg, fails.get(nm), evals, cases, d, t0) for nm in names]


# ---------------------------------------------------------------------------------------- known weak-signal inputs (closed obligations)
# Found by C08.papr_bounded while its signal seed was still process-dependent: admissible (non-sparse) weak signals on which the
# constraint misses a tight limit.  Kept as explicit closed obligations so that the finding is reproduced deterministically.
PAPR_WEAK_SIGNALS = {
    "uniform_n8_a": (1.5, [8.478760719299316e-05, -3.0695198802277446e-05, -0.004958632867783308, -7.162570545915514e-05, -0.008678712882101536, -0.003923397045582533, -0.006031017284840345, -0.00473908893764019]),
}


@obligation("C08.papr_weak_signal_inputs", function=FP + ":PAPRConstraint._apply_constraint_to_single_item", configs=lambda tier: [Cfg("weak", k) for k in PAPR_WEAK_SIGNALS], kind="ground", engine="ground")
def papr_weak_signal_inputs(cfg):
    from kaira.constraints.power import PAPRConstraint

    L, vals = PAPR_WEAK_SIGNALS[cfg[1]]
    x = torch.tensor(vals)
    mags = sorted(abs(v) for v in vals)
    nonsparse = sum(1 for v in mags if v >= mags[-1] / 10) * 4 >= len(mags)
    y = PAPRConstraint(L)(x)
    p = y.abs() ** 2
    papr = float(p.max() / p.mean())
    yield "admissible_non_sparse_signal", nonsparse, f"{sum(1 for v in mags if v >= mags[-1] / 10)} of {len(mags)} samples within 20 dB of the peak"
    yield "output_papr_within_limit", papr <= L * (1 + 1e-6), f"PAPRConstraint({L}) on a weak real signal (mean power {float((x ** 2).mean()):.3g}): output PAPR {papr:.4f} > limit {L}" if papr > L else f"output PAPR {papr:.4f}"


# ================================================================================================ non-contiguous views (closed)
@obligation("C08.noncontiguous_views", function=FP + ":TotalPowerConstraint.forward; " + FP + ":AveragePowerConstraint.forward; " + FP + ":PAPRConstraint.forward; " + FS + ":PeakAmplitudeConstraint.forward; kaira/constraints/antenna.py:PerAntennaPowerConstraint.forward",
            configs=lambda tier: [Cfg("views", k) for k in ("total", "avg", "papr", "peak", "antenna")], kind="ground", engine="ground")
def noncontiguous_views(cfg):
    """the constraint applied to a non-contiguous VIEW (dense permuted / channels-last, transposed, every second sample) returns what it
    returns for a contiguous copy of the same numbers, and the limit it enforces holds on that output.  Closed: fixed seeded inputs,
    real and complex, 2-D to 4-D."""
    from kaira.constraints import AveragePowerConstraint, PAPRConstraint, PeakAmplitudeConstraint, PerAntennaPowerConstraint, TotalPowerConstraint

    kind = cfg[1]
    mk = {"total": lambda: TotalPowerConstraint(2.0), "avg": lambda: AveragePowerConstraint(0.5), "papr": lambda: PAPRConstraint(2.5), "peak": lambda: PeakAmplitudeConstraint(0.8), "antenna": lambda: PerAntennaPowerConstraint(uniform_power=1.0)}[kind]
    g = torch.Generator().manual_seed(8)
    bad, n = [], 0
    for cplx in (False, True):
        if cplx and kind == "peak":
            continue  # PeakAmplitudeConstraint is real-valued (C08.peak_amplitude_complex)
        def rnd(*shape):
            t = torch.randn(*shape, generator=g) * 3
            return torch.complex(t, torch.randn(*shape, generator=g)) if cplx else t
        views = [("permuted_3d", rnd(5, 64, 4).permute(0, 2, 1)), ("channels_last_4d", rnd(3, 8, 8, 2).permute(0, 3, 1, 2)), ("every_second_sample", rnd(4, 2, 64)[..., ::2]), ("transposed_2d", rnd(32, 4).t())]
        for nm, xv in views:
            if kind == "antenna" and xv.dim() < 3:
                continue
            n += 1
            try:
                a, b = mk()(xv), mk()(xv.contiguous())
            except Exception as e:
                bad.append(f"{nm} complex={cplx}: raised {e!r}")
                continue
            if a.shape != b.shape or not torch.allclose(a, b, rtol=1e-5, atol=1e-6):
                bad.append(f"{nm} complex={cplx} strides {tuple(xv.stride())}: result for the view differs from the result for a contiguous copy (max |diff| {float((a - b).abs().max()) if a.shape == b.shape else 'shape'}; output power {float(a.abs().pow(2).mean()):.4g} vs {float(b.abs().pow(2).mean()):.4g})")
    yield "view_equals_contiguous_copy", not bad, "; ".join(bad[:3]) or f"{n} views"
