"""C18 - GF(2)[x] and GF(2^m) arithmetic (kaira/models/fec/algebra.py).

Layer 1 (engine E1, kind=proof): sidecar contracts for the real methods; VCs are generated from the working-tree source on
        every run (vk.e1) and discharged by z3 over unbounded integers with the axiomatised theory GF2POLY.
        Top-level postconditions are the clauses of the property statement:
          a = q.b + r, deg r < deg b            (BinaryPolynomial.__mod__ / div)
          gcd | a, gcd | b, gcd = s.a + t.b     (BinaryPolynomial.gcd)
          lcm . gcd = a . b                     (BinaryPolynomial.lcm)
        helper contracts (degree, __mul__, __eq__, constructors) come from the code.
Layer 2 (kind=ground): per field m: tabulated modulus has degree m and is irreducible (trial division), x has order 2^m-1.
Layer 3 (kind=bounded): exhaustive small-operand cross-checks against vk.ground (never counted as proved).
"""
from __future__ import annotations

import itertools
import time

import z3

from vk import ground as Gd
from vk.e1 import theory as T
from vk.e1.check import ALG, verify_function
from vk.e1.contract import Contract, Loop, NS, register
from vk.harness import ObResult, obligation

xor, pmul, pmod, shl, deg, bor, mindeg, fmul, fpow = T.xor, T.pmul, T.pmod, T.shl, T.deg, T.bor, T.mindeg, T.fmul, T.fpow
AND, OR, NOT, IF, IMP = T.AND, T.OR, T.NOT, T.IF, T.IMP
A = ALG + ":"
BP = "BinaryPolynomial"
FE = "FiniteBifieldElement"
FF = "FiniteBifield"


def _pairs(bits):
    return lambda cfg: ({"self": a, "other": b} for a in range(1 << bits) for b in range(1 << bits))


def _named_pairs(n1, n2, bits):
    return lambda cfg: ({n1: a, n2: b} for a in range(1 << bits) for b in range(1 << bits))


# ================================================================================ BinaryPolynomial
register(Contract(
    key=A + "BinaryPolynomial.degree", types={"self": BP}, returns="int",
    requires=lambda a: a.self.value >= 0,
    ensures=lambda a, res, w: {"is_deg": res == deg(a.self.value)},
    theory=("deg",), small=lambda cfg: ({"self": v} for v in range(1 << 10)), small_desc="all values < 2^10",
))

register(Contract(
    key=A + "BinaryPolynomial.__eq__", types={"self": BP, "other": BP}, returns="bool",
    ensures=lambda a, res, w: {"value_equality": res == (a.self.value == a.other.value)},
    theory=(), small=_pairs(5), small_desc="all pairs < 2^5",
))

register(Contract(
    key=A + "BinaryPolynomial.__hash__", types={"self": BP}, returns="int",
    ensures=lambda a, res, w: {"hash_of_value": res == T.pyhash(a.self.value)},
    theory=(), small=lambda cfg: ({"self": v} for v in range(256)), small_desc="all values < 2^8",
))

register(Contract(
    key=A + "BinaryPolynomial.__mul__", types={"self": BP, "other": BP}, returns=BP,
    requires=lambda a: AND(a.self.value >= 0, a.other.value >= 0),
    ensures=lambda a, res, w: {"product": res.value == pmul(a.self.value, a.other.value), "nonneg": res.value >= 0},
    loops={0: Loop(
        roles={"acc": "result", "a": "a", "b": "b"},
        inv=lambda e: AND(xor(e.r.acc, pmul(e.r.a, e.r.b)) == pmul(e.old.self.value, e.old.other.value), e.r.a >= 0, e.r.b >= 0, e.r.acc >= 0),
        variant=lambda e: e.r.b,
    )},
    theory=("mul",), small=_pairs(6), small_desc="all operand pairs < 2^6",
))


def _mod_witness(a, res):
    return {"Q": Gd.pdivmod(a.self.value, a.modulus.value)[0]}


register(Contract(
    key=A + "BinaryPolynomial.__mod__", types={"self": BP, "modulus": BP}, returns=BP,
    requires=lambda a: AND(a.self.value >= 0, a.modulus.value >= 0),
    raises=(("ValueError", lambda a: a.modulus.value == 0),),
    post_ghosts=("Q",),
    ensures=lambda a, res, w: {
        "euclid": a.self.value == xor(pmul(w.Q, a.modulus.value), res.value),
        "deg_lt": deg(res.value) < deg(a.modulus.value),
        "nonneg": AND(res.value >= 0, w.Q >= 0),
    },
    ghosts={"Q": lambda e: 0},
    native_witness=_mod_witness,
    loops={0: Loop(
        roles={"rem": "remainder"},
        ghosts={"Q": lambda e: 0},
        inv=lambda e: AND(xor(e.r.rem, pmul(e.g.Q, e.old.modulus.value)) == e.old.self.value, e.r.rem >= 0, e.g.Q >= 0),
        variant=lambda e: deg(e.r.rem),
        update=lambda pre, post, calls: {"Q": xor(pre.g.Q, shl(1, deg(pre.r.rem) - deg(pre.old.modulus.value)))},
    )},
    theory=("core",), small=_named_pairs("self", "modulus", 6), small_desc="all operand pairs < 2^6",
))


def _div_witness(a, res):
    return {"R": xor(a.self.value, pmul(res.value, a.divisor.value))}


register(Contract(
    key=A + "BinaryPolynomial.div", types={"self": BP, "divisor": BP}, returns=BP,
    requires=lambda a: AND(a.self.value >= 0, a.divisor.value >= 0),
    raises=(("ValueError", lambda a: a.divisor.value == 0),),
    post_ghosts=("R",),
    ensures=lambda a, res, w: {
        "euclid": a.self.value == xor(pmul(res.value, a.divisor.value), w.R),
        "deg_lt": deg(w.R) < deg(a.divisor.value),
        "nonneg": AND(res.value >= 0, w.R >= 0),
    },
    witness={0: lambda e: {"R": 0}, 1: lambda e: {"R": 0}, 2: lambda e: {"R": e.old.self.value}, 3: lambda e: {"R": e.r.remainder}},
    native_witness=_div_witness,
    loops={0: Loop(
        roles={"rem": "remainder", "quo": "quotient"},
        inv=lambda e: AND(
            xor(pmul(e.r.quo, e.old.divisor.value), e.r.rem) == e.old.self.value, e.r.rem >= 0, e.r.quo >= 0,
            OR(e.r.quo == 0, mindeg(e.r.quo) > deg(e.r.rem) - deg(e.old.divisor.value)),
        ),
        variant=lambda e: deg(e.r.rem),
    )},
    theory=("div",), small=_named_pairs("self", "divisor", 6), small_desc="all operand pairs < 2^6",
))


def _xgcd(a, b):
    """independent extended Euclid on bitmasks: returns g, s, t with g = s.a + t.b"""
    r0, r1, s0, s1, t0, t1 = a, b, 1, 0, 0, 1
    while r1:
        q, r = Gd.pdivmod(r0, r1)
        r0, r1, s0, s1, t0, t1 = r1, r, s1, s0 ^ Gd.pmul(q, s1), t1, t0 ^ Gd.pmul(q, t1)
    return r0, s0, t0


def _gcd_witness(a, res):
    Av, Bv, g = a.self.value, a.other.value, res.value
    g0, s0, t0 = _xgcd(Av, Bv)
    if g == 0:
        return {"ka": 0, "kb": 0, "s": 0, "t": 0}
    c = Gd.pdivmod(g, g0)[0] if g0 else 0
    return {"ka": Gd.pdivmod(Av, g)[0], "kb": Gd.pdivmod(Bv, g)[0], "s": Gd.pmul(c, s0), "t": Gd.pmul(c, t0)}


def _gcd_ensures(Av, Bv, g, w):
    return {
        "divides_self": Av == pmul(w.ka, g),
        "divides_other": Bv == pmul(w.kb, g),
        "combination": g == xor(pmul(w.s, Av), pmul(w.t, Bv)),
        "nonneg": AND(g >= 0, w.ka >= 0, w.kb >= 0, w.s >= 0, w.t >= 0),
    }


MODK = "BinaryPolynomial.__mod__"


def _gcd_update(pre, post, calls):
    q = calls[MODK][0].Q
    g = pre.g
    return {
        "s": g.u, "t": g.v, "u": xor(g.s, pmul(q, g.u)), "v": xor(g.t, pmul(q, g.v)),
        "x1": xor(pmul(g.x1, q), g.y1), "y1": g.x1, "x2": xor(pmul(g.x2, q), g.y2), "y2": g.x2,
    }


def _gcd_inv(e):
    g, Av, Bv, a, b = e.g, e.old.self.value, e.old.other.value, e.r.a.value, e.r.b.value
    return AND(
        a >= 0, b >= 0, g.s >= 0, g.t >= 0, g.u >= 0, g.v >= 0, g.x1 >= 0, g.y1 >= 0, g.x2 >= 0, g.y2 >= 0,
        a == xor(pmul(g.s, Av), pmul(g.t, Bv)), b == xor(pmul(g.u, Av), pmul(g.v, Bv)),
        Av == xor(pmul(g.x1, a), pmul(g.y1, b)), Bv == xor(pmul(g.x2, a), pmul(g.y2, b)),
    )


_one, _zero = (lambda e: 1), (lambda e: 0)
register(Contract(
    key=A + "BinaryPolynomial.gcd", types={"self": BP, "other": BP}, returns=BP,
    requires=lambda a: AND(a.self.value >= 0, a.other.value >= 0),
    post_ghosts=("ka", "kb", "s", "t"),
    ensures=lambda a, res, w: _gcd_ensures(a.self.value, a.other.value, res.value, w),
    witness={
        0: lambda e: {"ka": 0, "kb": 1, "s": 0, "t": 1},
        1: lambda e: {"ka": 1, "kb": 0, "s": 1, "t": 0},
        2: lambda e: {"ka": 1, "kb": 1, "s": 1, "t": 0},
        3: lambda e: {"ka": e.g.x1, "kb": e.g.x2, "s": e.g.s, "t": e.g.t},
    },
    native_witness=_gcd_witness,
    loops={0: Loop(
        roles={"a": "a", "b": "b"},
        ghosts={"s": _one, "t": _zero, "u": _zero, "v": _one, "x1": _one, "y1": _zero, "x2": _zero, "y2": _one},
        inv=_gcd_inv,
        variant=lambda e: deg(e.r.b.value),
        update=_gcd_update,
    )},
    theory=("core",), small=_pairs(6), small_desc="all operand pairs < 2^6",
))


def _lcm_witness(a, res):
    Av, Bv = a.self.value, a.other.value
    g, s, t = _xgcd(Av, Bv)
    if g == 0:
        return {"g": 0, "ka": 0, "kb": 0, "s": 0, "t": 0}
    return {"g": g, "ka": Gd.pdivmod(Av, g)[0], "kb": Gd.pdivmod(Bv, g)[0], "s": s, "t": t}


def _lcm_ensures(a, res, w):
    d = {"lcm_times_gcd": pmul(res.value, w.g) == pmul(a.self.value, a.other.value), "nonneg_result": res.value >= 0}
    for k, v in _gcd_ensures(a.self.value, a.other.value, w.g, w).items():
        d["g_" + k] = v
    return d


def _lcm_w0(e):
    z = e.old.self.value == 0
    return {"g": IF(z, e.old.other.value, e.old.self.value), "ka": IF(z, 0, 1), "kb": IF(z, 1, 0), "s": IF(z, 0, 1), "t": IF(z, 1, 0)}


def _lcm_w3(e):
    c = e.calls["BinaryPolynomial.gcd"][0]
    return {"g": e.r.gcd.value, "ka": c.ka, "kb": c.kb, "s": c.s, "t": c.t}


def _lcm_hints():
    def X(e, w):
        return pmul(w.ka, e.old.other.value)

    def R(e):
        return e.calls["BinaryPolynomial.div"][0].R

    return (
        lambda e, res, w: pmul(e.old.self.value, e.old.other.value) == pmul(X(e, w), w.g),
        lambda e, res, w: R(e) == pmul(xor(res.value, X(e, w)), w.g),
        lambda e, res, w: xor(res.value, X(e, w)) >= 0,
        lambda e, res, w: xor(res.value, X(e, w)) == 0,
        lambda e, res, w: res.value == X(e, w),
    )


register(Contract(
    key=A + "BinaryPolynomial.lcm", types={"self": BP, "other": BP}, returns=BP,
    requires=lambda a: AND(a.self.value >= 0, a.other.value >= 0),
    post_ghosts=("g", "ka", "kb", "s", "t"),
    ensures=_lcm_ensures,
    witness={0: _lcm_w0, 1: lambda e: {"g": e.old.self.value, "ka": 1, "kb": 1, "s": 1, "t": 0}, 2: lambda e: {"g": 0, "ka": 0, "kb": 0, "s": 0, "t": 0}, 3: _lcm_w3},
    hints={3: _lcm_hints()},
    native_witness=_lcm_witness,
    theory=("core",), small=_pairs(6), small_desc="all operand pairs < 2^6",
))


# ================================================================================ obligations (E1)
def _one_cfg(tier):
    return ["-"]


def _e1(id_, key, configs=_one_cfg):
    @obligation(id_, function=key, configs=configs, kind="custom", engine="E1")
    def body(spec, cfg, tier, seed, _key=key):
        return verify_function(spec, _key, cfg, tier, seed)

    return body


_e1("C18.poly_degree", A + "BinaryPolynomial.degree")
_e1("C18.poly_mul", A + "BinaryPolynomial.__mul__")
_e1("C18.poly_mod", A + "BinaryPolynomial.__mod__")
_e1("C18.poly_div", A + "BinaryPolynomial.div")
_e1("C18.poly_gcd", A + "BinaryPolynomial.gcd")
_e1("C18.poly_lcm", A + "BinaryPolynomial.lcm")
_e1("C18.poly_eq", A + "BinaryPolynomial.__eq__")
_e1("C18.poly_hash", A + "BinaryPolynomial.__hash__")
