"""C18 - GF(2)[x] and GF(2^m) arithmetic (kaira/models/fec/algebra.py).

Layer 1 (engine E1, kind=proof): sidecar contracts for the real methods; VCs are generated from the working-tree source on
        every run (vk.e1) and discharged by z3 over unbounded integers with the axiomatised theory GF2POLY.
        Top-level postconditions are the clauses of the property statement:
          a = q.b + r, deg r < deg b            (BinaryPolynomial.__mod__ / div)
          gcd | a, gcd | b, gcd = s.a + t.b     (BinaryPolynomial.gcd)
          lcm . gcd = a . b                     (BinaryPolynomial.lcm)
        helper contracts (degree, __mul__, __eq__, constructors) come from the code.
Layer 2 (kind=ground): per field m: tabulated modulus has degree m and is irreducible (trial division), x has order 2^m-1.
Layer 3 (kind=bounded): exhaustive small-operand cross-checks against vk.ground (never counted as proved).
"""
from __future__ import annotations

import itertools
import time

import z3

from vk import ground as Gd
from vk.e1 import theory as T
from vk.e1.check import ALG, verify_function
from vk.e1.contract import Contract, Loop, NS, register
from vk.harness import ObResult, obligation

xor, pmul, pmod, shl, deg, bor, mindeg, fmul, fpow = T.xor, T.pmul, T.pmod, T.shl, T.deg, T.bor, T.mindeg, T.fmul, T.fpow
AND, OR, NOT, IF, IMP = T.AND, T.OR, T.NOT, T.IF, T.IMP
A = ALG + ":"
BP = "BinaryPolynomial"
FE = "FiniteBifieldElement"
FF = "FiniteBifield"


def _pairs(bits):
    return lambda cfg: ({"self": a, "other": b} for a in range(1 << bits) for b in range(1 << bits))


def _named_pairs(n1, n2, bits):
    return lambda cfg: ({n1: a, n2: b} for a in range(1 << bits) for b in range(1 << bits))


# ================================================================================ BinaryPolynomial
register(Contract(
    key=A + "BinaryPolynomial.degree", types={"self": BP}, returns="int",
    requires=lambda a: a.self.value >= 0,
    ensures=lambda a, res, w: {"is_deg": res == deg(a.self.value)},
    theory=("deg",), small=lambda cfg: ({"self": v} for v in range(1 << 10)), small_desc="all values < 2^10",
))

register(Contract(
    key=A + "BinaryPolynomial.__eq__", types={"self": BP, "other": BP}, returns="bool",
    ensures=lambda a, res, w: {"value_equality": res == (a.self.value == a.other.value)},
    theory=(), small=_pairs(5), small_desc="all pairs < 2^5",
))

register(Contract(
    key=A + "BinaryPolynomial.__hash__", types={"self": BP}, returns="int",
    ensures=lambda a, res, w: {"hash_of_value": res == T.pyhash(a.self.value)},
    theory=(), small=lambda cfg: ({"self": v} for v in range(256)), small_desc="all values < 2^8",
))

register(Contract(
    key=A + "BinaryPolynomial.__mul__", types={"self": BP, "other": BP}, returns=BP,
    requires=lambda a: AND(a.self.value >= 0, a.other.value >= 0),
    ensures=lambda a, res, w: {"product": res.value == pmul(a.self.value, a.other.value), "nonneg": res.value >= 0},
    loops={0: Loop(
        roles={"acc": "result", "a": "a", "b": "b"},
        inv=lambda e: AND(xor(e.r.acc, pmul(e.r.a, e.r.b)) == pmul(e.old.self.value, e.old.other.value), e.r.a >= 0, e.r.b >= 0, e.r.acc >= 0),
        variant=lambda e: e.r.b,
    )},
    theory=("mul",), small=_pairs(6), small_desc="all operand pairs < 2^6",
))


def _mod_witness(a, res):
    return {"Q": Gd.pdivmod(a.self.value, a.modulus.value)[0]}


register(Contract(
    key=A + "BinaryPolynomial.__mod__", types={"self": BP, "modulus": BP}, returns=BP,
    requires=lambda a: AND(a.self.value >= 0, a.modulus.value >= 0),
    raises=(("ValueError", lambda a: a.modulus.value == 0),),
    post_ghosts=("Q",),
    ensures=lambda a, res, w: {
        "euclid": a.self.value == xor(pmul(w.Q, a.modulus.value), res.value),
        "deg_lt": deg(res.value) < deg(a.modulus.value),
        "nonneg": AND(res.value >= 0, w.Q >= 0),
    },
    ghosts={"Q": lambda e: 0},
    native_witness=_mod_witness,
    loops={0: Loop(
        roles={"rem": "remainder"},
        ghosts={"Q": lambda e: 0},
        inv=lambda e: AND(xor(e.r.rem, pmul(e.g.Q, e.old.modulus.value)) == e.old.self.value, e.r.rem >= 0, e.g.Q >= 0),
        variant=lambda e: deg(e.r.rem),
        update=lambda pre, post, calls: {"Q": xor(pre.g.Q, shl(1, deg(pre.r.rem) - deg(pre.old.modulus.value)))},
    )},
    theory=("core",), small=_named_pairs("self", "modulus", 6), small_desc="all operand pairs < 2^6",
))


def _div_witness(a, res):
    return {"R": xor(a.self.value, pmul(res.value, a.divisor.value))}


register(Contract(
    key=A + "BinaryPolynomial.div", types={"self": BP, "divisor": BP}, returns=BP,
    requires=lambda a: AND(a.self.value >= 0, a.divisor.value >= 0),
    raises=(("ValueError", lambda a: a.divisor.value == 0),),
    post_ghosts=("R",),
    ensures=lambda a, res, w: {
        "euclid": a.self.value == xor(pmul(res.value, a.divisor.value), w.R),
        "deg_lt": deg(w.R) < deg(a.divisor.value),
        "nonneg": AND(res.value >= 0, w.R >= 0),
    },
    witness={0: lambda e: {"R": 0}, 1: lambda e: {"R": 0}, 2: lambda e: {"R": e.old.self.value}, 3: lambda e: {"R": e.r.remainder}},
    native_witness=_div_witness,
    loops={0: Loop(
        roles={"rem": "remainder", "quo": "quotient"},
        inv=lambda e: AND(
            xor(pmul(e.r.quo, e.old.divisor.value), e.r.rem) == e.old.self.value, e.r.rem >= 0, e.r.quo >= 0,
            OR(e.r.quo == 0, mindeg(e.r.quo) > deg(e.r.rem) - deg(e.old.divisor.value)),
        ),
        variant=lambda e: deg(e.r.rem),
    )},
    theory=("div",), small=_named_pairs("self", "divisor", 6), small_desc="all operand pairs < 2^6",
))


def _xgcd(a, b):
    """independent extended Euclid on bitmasks: returns g, s, t with g = s.a + t.b"""
    r0, r1, s0, s1, t0, t1 = a, b, 1, 0, 0, 1
    while r1:
        q, r = Gd.pdivmod(r0, r1)
        r0, r1, s0, s1, t0, t1 = r1, r, s1, s0 ^ Gd.pmul(q, s1), t1, t0 ^ Gd.pmul(q, t1)
    return r0, s0, t0


def _gcd_witness(a, res):
    Av, Bv, g = a.self.value, a.other.value, res.value
    g0, s0, t0 = _xgcd(Av, Bv)
    if g == 0:
        return {"ka": 0, "kb": 0, "s": 0, "t": 0}
    c = Gd.pdivmod(g, g0)[0] if g0 else 0
    return {"ka": Gd.pdivmod(Av, g)[0], "kb": Gd.pdivmod(Bv, g)[0], "s": Gd.pmul(c, s0), "t": Gd.pmul(c, t0)}


def _gcd_ensures(Av, Bv, g, w):
    return {
        "divides_self": Av == pmul(w.ka, g),
        "divides_other": Bv == pmul(w.kb, g),
        "combination": g == xor(pmul(w.s, Av), pmul(w.t, Bv)),
        "nonneg": AND(g >= 0, w.ka >= 0, w.kb >= 0, w.s >= 0, w.t >= 0),
    }


MODK = "BinaryPolynomial.__mod__"


def _gcd_update(pre, post, calls):
    q = calls[MODK][0].Q
    g = pre.g
    return {
        "s": g.u, "t": g.v, "u": xor(g.s, pmul(q, g.u)), "v": xor(g.t, pmul(q, g.v)),
        "x1": xor(pmul(g.x1, q), g.y1), "y1": g.x1, "x2": xor(pmul(g.x2, q), g.y2), "y2": g.x2,
    }


def _gcd_inv(e):
    g, Av, Bv, a, b = e.g, e.old.self.value, e.old.other.value, e.r.a.value, e.r.b.value
    return AND(
        a >= 0, b >= 0, g.s >= 0, g.t >= 0, g.u >= 0, g.v >= 0, g.x1 >= 0, g.y1 >= 0, g.x2 >= 0, g.y2 >= 0,
        a == xor(pmul(g.s, Av), pmul(g.t, Bv)), b == xor(pmul(g.u, Av), pmul(g.v, Bv)),
        Av == xor(pmul(g.x1, a), pmul(g.y1, b)), Bv == xor(pmul(g.x2, a), pmul(g.y2, b)),
    )


def _gcd_hints():
    def parts(pre, post, calls):
        return calls[MODK][0].Q, pre.g, pre.old.self.value, pre.old.other.value, pre.r.a.value, pre.r.b.value, post.r.b.value

    def h0(pre, post, calls):
        q, g, Av, Bv, a, b, r = parts(pre, post, calls)
        return r == xor(a, pmul(q, b))

    def h1(pre, post, calls):
        q, g, Av, Bv, a, b, r = parts(pre, post, calls)
        return pmul(q, b) == xor(pmul(q, pmul(g.u, Av)), pmul(q, pmul(g.v, Bv)))

    def h2(pre, post, calls):
        q, g, Av, Bv, a, b, r = parts(pre, post, calls)
        return pmul(q, b) == xor(pmul(pmul(q, g.u), Av), pmul(pmul(q, g.v), Bv))

    return (h0, h1, h2)


_one, _zero = (lambda e: 1), (lambda e: 0)
register(Contract(
    key=A + "BinaryPolynomial.gcd", types={"self": BP, "other": BP}, returns=BP,
    requires=lambda a: AND(a.self.value >= 0, a.other.value >= 0),
    post_ghosts=("ka", "kb", "s", "t"),
    ensures=lambda a, res, w: _gcd_ensures(a.self.value, a.other.value, res.value, w),
    witness={
        0: lambda e: {"ka": 0, "kb": 1, "s": 0, "t": 1},
        1: lambda e: {"ka": 1, "kb": 0, "s": 1, "t": 0},
        2: lambda e: {"ka": 1, "kb": 1, "s": 1, "t": 0},
        3: lambda e: {"ka": e.g.x1, "kb": e.g.x2, "s": e.g.s, "t": e.g.t},
    },
    native_witness=_gcd_witness,
    loops={0: Loop(
        roles={"a": "a", "b": "b"},
        ghosts={"s": _one, "t": _zero, "u": _zero, "v": _one, "x1": _one, "y1": _zero, "x2": _zero, "y2": _one},
        inv=_gcd_inv,
        variant=lambda e: deg(e.r.b.value),
        update=_gcd_update,
        hints=_gcd_hints(),
    )},
    theory=("core",), small=_pairs(6), small_desc="all operand pairs < 2^6",
))


def _lcm_witness(a, res):
    Av, Bv = a.self.value, a.other.value
    g, s, t = _xgcd(Av, Bv)
    if g == 0:
        return {"g": 0, "ka": 0, "kb": 0, "s": 0, "t": 0}
    return {"g": g, "ka": Gd.pdivmod(Av, g)[0], "kb": Gd.pdivmod(Bv, g)[0], "s": s, "t": t}


def _lcm_ensures(a, res, w):
    d = {"lcm_times_gcd": pmul(res.value, w.g) == pmul(a.self.value, a.other.value), "nonneg_result": res.value >= 0}
    for k, v in _gcd_ensures(a.self.value, a.other.value, w.g, w).items():
        d["g_" + k] = v
    return d


def _lcm_w0(e):
    z = e.old.self.value == 0
    return {"g": IF(z, e.old.other.value, e.old.self.value), "ka": IF(z, 0, 1), "kb": IF(z, 1, 0), "s": IF(z, 0, 1), "t": IF(z, 1, 0)}


def _lcm_w3(e):
    c = e.calls["BinaryPolynomial.gcd"][0]
    return {"g": e.r.gcd.value, "ka": c.ka, "kb": c.kb, "s": c.s, "t": c.t}


def _lcm_hints():
    def X(e, w):
        return pmul(w.ka, e.old.other.value)

    def R(e):
        return e.calls["BinaryPolynomial.div"][0].R

    return (
        lambda e, res, w: pmul(e.old.self.value, e.old.other.value) == pmul(X(e, w), w.g),
        lambda e, res, w: R(e) == pmul(xor(res.value, X(e, w)), w.g),
        lambda e, res, w: xor(res.value, X(e, w)) >= 0,
        lambda e, res, w: xor(res.value, X(e, w)) == 0,
        lambda e, res, w: res.value == X(e, w),
    )


register(Contract(
    key=A + "BinaryPolynomial.lcm", types={"self": BP, "other": BP}, returns=BP,
    requires=lambda a: AND(a.self.value >= 0, a.other.value >= 0),
    post_ghosts=("g", "ka", "kb", "s", "t"),
    ensures=_lcm_ensures,
    witness={0: _lcm_w0, 1: lambda e: {"g": e.old.self.value, "ka": 1, "kb": 1, "s": 1, "t": 0}, 2: lambda e: {"g": 0, "ka": 0, "kb": 0, "s": 0, "t": 0}, 3: _lcm_w3},
    hints={3: _lcm_hints()},
    native_witness=_lcm_witness,
    theory=("core",), small=_pairs(6), small_desc="all operand pairs < 2^6",
))


# ================================================================================ obligations (E1)
def _one_cfg(tier):
    return ["-"]


def _e1(id_, key, configs=_one_cfg):
    @obligation(id_, function=key, configs=configs, kind="custom", engine="E1")
    def body(spec, cfg, tier, seed, _key=key):
        return verify_function(spec, _key, cfg, tier, seed)

    return body


_e1("C18.poly_degree", A + "BinaryPolynomial.degree")
_e1("C18.poly_mul", A + "BinaryPolynomial.__mul__")
_e1("C18.poly_mod", A + "BinaryPolynomial.__mod__")
_e1("C18.poly_div", A + "BinaryPolynomial.div")
_e1("C18.poly_gcd", A + "BinaryPolynomial.gcd")
_e1("C18.poly_lcm", A + "BinaryPolynomial.lcm")
_e1("C18.poly_eq", A + "BinaryPolynomial.__eq__")
_e1("C18.poly_hash", A + "BinaryPolynomial.__hash__")


# ================================================================================ soundness guards of the theory
def _axiom_cfgs(tier):
    return sorted({g for _n, g, _k, _f in T.AXIOMS}) + ["consistency"]


@obligation("C18.theory_axioms", function=A + "BinaryPolynomial.__mul__", configs=_axiom_cfgs, kind="custom", engine="E1")
def theory_axioms(spec, cfg, tier, seed):
    """every axiom of GF2POLY/GF2QUOT evaluated on an exhaustive small domain with vk.ground; z3 must not derive false"""
    out = []
    t0 = time.time()
    if cfg == "consistency":
        r = T.consistency_probe(5000)
        out.append(ObResult(prop=spec.prop, ob=f"{spec.id}/no_false_from_axioms", config=cfg, function="vk/e1/theory.py", engine="E1", backend="z3", kind="crosscheck",
                            verdict="error" if r == "unsat" else "discharged", wall_s=round(time.time() - t0, 3), detail=f"z3 on the axioms alone, 5 s: {r} (must not be unsat)"))
        return out
    for name, ok, n, detail in T.instance_tests(cfg):
        out.append(ObResult(prop=spec.prop, ob=f"{spec.id}/{name}", config=cfg, function="vk/e1/theory.py", engine="E1", backend="ground", kind="crosscheck",
                            verdict="discharged" if ok else "error", paths=n, wall_s=round(time.time() - t0, 3), detail=f"{n} instances (all bitmasks < 2^8; 2^5 for 4-variable axioms) {detail}"))
    return out


# ================================================================================ ground: per field
def _alg():
    from vk.e1.source import load_module

    return load_module(ALG)


def _prime_factors(n):
    out, p = [], 2
    while p * p <= n:
        if n % p == 0:
            out.append(p)
            while n % p == 0:
                n //= p
        p += 1
    if n > 1:
        out.append(n)
    return out


def _ipow(a, e, M):
    """independent square-and-multiply in GF(2)[x]/(M)"""
    r = Gd.pmod(1, M)
    a = Gd.pmod(a, M)
    while e:
        if e & 1:
            r = Gd.pmod(Gd.pmul(r, a), M)
        a = Gd.pmod(Gd.pmul(a, a), M)
        e >>= 1
    return r


def _m_cfgs(lo, q, t):
    return lambda tier: [f"m={m}" for m in range(lo, (q if tier == "quick" else t) + 1)]


def _m(cfg):
    return int(str(cfg).split("=")[1])


@obligation("C18.field_ground", function=A + "FiniteBifield.__init__; " + A + "FiniteBifield.primitive_element; " + A + "FiniteBifield.__call__", configs=_m_cfgs(1, 16, 16), kind="custom", engine="ground")
def field_ground(spec, cfg, tier, seed):
    """closed obligations on what the real constructor tabulates, evaluated with the REAL kaira operations and, side by
    side, with the independent bitmask kernel vk.ground"""
    mod = _alg()
    m = _m(cfg)
    out = []

    def G(name, ok, detail, witness=None):
        out.append(ObResult(prop=spec.prop, ob=f"{spec.id}/{name}", config=str(cfg), function=spec.function, engine="ground", backend="ground", kind="ground",
                            verdict="discharged" if ok else "refuted", replay_confirmed=None if ok else True, witness=None if ok else (witness or {"m": m}), detail=detail, wall_s=round(time.time() - t0, 3)))

    t0 = time.time()
    F = mod.FiniteBifield(m)
    M = F.modulus.value
    G("size", F.size == 2**m and F.m == m, f"size={F.size}")
    G("modulus_degree", F.modulus.degree == m and Gd.pdeg(M) == m, f"modulus {bin(M)} has degree {F.modulus.degree}")
    # irreducibility: trial division by every polynomial of degree 1..m//2 (real % and independent pmod)
    bad = None
    n = 0
    for d in range(2, 1 << (m // 2 + 1)):
        n += 1
        r_real = (F.modulus % mod.BinaryPolynomial(d)).value
        r_ind = Gd.pmod(M, d)
        if r_real == 0 or r_ind == 0 or r_real != r_ind:
            bad = (d, r_real, r_ind)
            break
    G("modulus_irreducible", bad is None, f"trial division by all {n} polynomials of degree 1..{m // 2}: " + ("no divisor" if bad is None else f"divisor/mismatch {bad}"))
    # multiplicative order of the designated primitive element
    x = F.primitive_element()
    N = 2**m - 1
    one_real = (x**N).value
    one_ind = _ipow(x.value, N, M)
    G("primitive_order_divides", one_real == 1 and one_ind == 1, f"x={x.value}: x^(2^m-1) = {one_real} (kaira) / {one_ind} (independent)", {"m": m, "x": x.value})
    fails = []
    for q in _prime_factors(N):
        v_real = (x ** (N // q)).value
        v_ind = _ipow(x.value, N // q, M)
        if v_real == 1 or v_ind == 1 or v_real != v_ind:
            fails.append((q, v_real, v_ind))
    G("primitive_order_exact", not fails and x.value != 0, f"x^((2^m-1)/q) != 1 for every prime q in {_prime_factors(N)}" + (f"; fails {fails}" if fails else "") + ("; x is the zero element" if x.value == 0 else ""), {"m": m, "x": x.value})
    # Fermat (L-order instance used by the contract of inverse): every non-zero element satisfies a^(2^m-1) = 1
    bad = next((a for a in range(1, 2**m) if _ipow(a, N, M) != 1), None)
    G("fermat_all_elements", bad is None, f"a^(2^m-1) = 1 for all {2**m - 1} non-zero residues (independent kernel)" + ("" if bad is None else f"; fails at {bad}"))
    return out


# ================================================================================ bounded cross-checks (never counted as proved)
def _B(spec, cfg, name, n, fail, t0, what):
    return ObResult(prop=spec.prop, ob=f"{spec.id}/{name}", config=str(cfg), function=spec.function, engine="standin", backend="native", kind="bounded",
                    verdict="discharged" if fail is None else "refuted", paths=n, witness=fail, replay_confirmed=None if fail is None else True,
                    detail=f"bounded: {n} native evaluations; {what}", wall_s=round(time.time() - t0, 3))


@obligation("C18.bounded_poly", function=A + "BinaryPolynomial.__mul__; " + A + "BinaryPolynomial.__mod__; " + A + "BinaryPolynomial.div; " + A + "BinaryPolynomial.gcd; " + A + "BinaryPolynomial.lcm; " + A + "BinaryPolynomial.derivative; " + A + "BinaryPolynomial.to_coefficient_list; " + A + "BinaryPolynomial.evaluate",
            configs=lambda tier: [f"a in [{32 * i},{32 * i + 32})" for i in range(8)], kind="custom", engine="standin")
def bounded_poly(spec, cfg, tier, seed):
    """Euclidean-ring laws on all pairs of polynomials below degree 8, real kaira operations against vk.ground"""
    mod = _alg()
    P = mod.BinaryPolynomial
    lo = int(str(cfg).split("[")[1].split(",")[0])
    t0 = time.time()
    fails = {}
    counts = {}

    def chk(name, ok, w):
        counts[name] = counts.get(name, 0) + 1
        if not ok and name not in fails:
            fails[name] = w

    for a in range(lo, lo + 32):
        pa = P(a)
        chk("degree", pa.degree == Gd.pdeg(a), {"a": a})
        cl = pa.to_coefficient_list()
        chk("coefficient_list", sum(c << i for i, c in enumerate(cl)) == a and all(c in (0, 1) for c in cl) and (len(cl) == max(a.bit_length(), 1)), {"a": a})
        dv = 0
        for i in range(1, a.bit_length(), 2):
            if a >> i & 1:
                dv |= 1 << (i - 1)
        chk("derivative", pa.derivative().value == dv, {"a": a})
        for b in range(256):
            pb = P(b)
            w = {"a": a, "b": b}
            chk("mul", (pa * pb).value == Gd.pmul(a, b), w)
            chk("eq_hash", ((pa == pb) == (a == b)) and (a != b or hash(pa) == hash(pb)), w)
            if b:
                q, r = Gd.pdivmod(a, b)
                rr, qq = (pa % pb).value, pa.div(pb).value
                chk("mod", rr == r, w)
                chk("div", qq == q, w)
                chk("euclid", a == Gd.pmul(qq, b) ^ rr and Gd.pdeg(rr) < Gd.pdeg(b), w)
            g = pa.gcd(pb).value
            g0, s, t = _xgcd(a, b)
            chk("gcd", g == g0 and (g == 0 or (Gd.pmod(a, g) == 0 and Gd.pmod(b, g) == 0)) and g == Gd.pmul(s, a) ^ Gd.pmul(t, b), w)
            l = pa.lcm(pb).value
            chk("lcm_times_gcd", Gd.pmul(l, g) == Gd.pmul(a, b), w)
            # integer-point evaluation: xor of integer powers, as the code defines it for ints
            if b < 4:
                ev = 0
                for i in range(a.bit_length()):
                    if a >> i & 1:
                        ev ^= b**i
                chk("evaluate_int", pa.evaluate(b) == ev, w)
    return [_B(spec, cfg, k, n, fails.get(k), t0, "all pairs of polynomials below degree 8 in this slice vs vk.ground") for k, n in counts.items()]


def _field_cfgs(tier):
    return [f"m={m}" for m in range(1, 6 if tier == "quick" else 9)]


@obligation("C18.bounded_field_axioms", function=A + "FiniteBifieldElement.__add__; " + A + "FiniteBifieldElement.__mul__; " + A + "FiniteBifieldElement.inverse; " + A + "FiniteBifield.__call__", configs=_field_cfgs, kind="custom", engine="standin")
def bounded_field_axioms(spec, cfg, tier, seed):
    """field axioms on all pairs (m <= 5; thorough m <= 8) and all triples (m <= 4; thorough m <= 5), real operations against the independent kernel"""
    mod = _alg()
    m = _m(cfg)
    F = mod.FiniteBifield(m)
    M = F.modulus.value
    t0 = time.time()
    fails, counts = {}, {}

    def chk(name, ok, w):
        counts[name] = counts.get(name, 0) + 1
        if not ok and name not in fails:
            fails[name] = dict(w, m=m)

    E = [F(v) for v in range(2**m)]
    im = lambda a, b: Gd.pmod(Gd.pmul(a, b), M)
    chk("call_reduces", all(F(v + k * 2**m).value == v for v in range(2**m) for k in (0, 1, 3)), {})
    for a in E:
        w = {"a": a.value}
        chk("add_zero_mul_one", (a + F(0)).value == a.value and (a * F(1)).value == a.value and (a + a).value == 0, w)
        if a.value:
            inv = a.inverse()
            chk("inverse", (a * inv).value == 1 and im(a.value, inv.value) == 1, w)
        for b in E:
            w = {"a": a.value, "b": b.value}
            chk("add_is_xor", (a + b).value == a.value ^ b.value, w)
            chk("mul_vs_independent", (a * b).value == im(a.value, b.value), w)
            chk("commutative", (a * b).value == (b * a).value and (a + b).value == (b + a).value, w)
            chk("no_zero_divisors", (a * b).value != 0 or a.value == 0 or b.value == 0, w)
    if m <= (4 if tier == "quick" else 5):
        for a in E:
            for b in E:
                ab, apb = a * b, a + b
                for c in E:
                    w = {"a": a.value, "b": b.value, "c": c.value}
                    chk("mul_associative", (ab * c).value == (a * (b * c)).value, w)
                    chk("add_associative", (apb + c).value == (a + (b + c)).value, w)
                    chk("distributive", (a * (b + c)).value == (ab + a * c).value, w)
    return [_B(spec, cfg, k, n, fails.get(k), t0, "all pairs / triples of field elements vs independent bitmask kernel") for k, n in counts.items()]


def _defs_cfgs(tier):
    return [f"m={m}" for m in range(1, 7 if tier == "quick" else 9)]


def _coset_minpoly(a, m, M):
    """product over the conjugacy class of (x - c), expanded with the independent kernel; coefficients must land in {0,1}"""
    orbit, c = [], a
    while c not in orbit:
        orbit.append(c)
        c = Gd.pmod(Gd.pmul(c, c), M)
    poly = [1]  # coefficients in GF(2^m), lowest first
    for c in orbit:
        nxt = [0] * (len(poly) + 1)
        for i, co in enumerate(poly):
            nxt[i + 1] ^= co
            nxt[i] ^= Gd.pmod(Gd.pmul(co, c), M)
        poly = nxt
    if not all(co in (0, 1) for co in poly):
        return None, orbit
    return sum(co << i for i, co in enumerate(poly)), orbit


def _irreducible(p):
    d = Gd.pdeg(p)
    return d >= 1 and all(Gd.pmod(p, q) != 0 for q in range(2, 1 << (d // 2 + 1)))


@obligation("C18.bounded_field_defs", function=A + "FiniteBifieldElement.__pow__; " + A + "FiniteBifieldElement.inverse; " + A + "FiniteBifieldElement.trace; " + A + "FiniteBifieldElement.conjugates; " + A + "FiniteBifieldElement.minimal_polynomial; " + A + "BinaryPolynomial.evaluate",
            configs=_defs_cfgs, kind="custom", engine="standin")
def bounded_field_defs(spec, cfg, tier, seed):
    """power / trace / conjugates / minimal polynomial of EVERY element (m <= 6; thorough m <= 8) against their definitions"""
    mod = _alg()
    m = _m(cfg)
    F = mod.FiniteBifield(m)
    M = F.modulus.value
    t0 = time.time()
    fails, counts = {}, {}

    def chk(name, ok, w):
        counts[name] = counts.get(name, 0) + 1
        if not ok and name not in fails:
            fails[name] = dict(w, m=m)

    for v in range(2**m):
        a = mod.FiniteBifieldElement(F, v)  # fresh object: no memoised minimal polynomial
        w = {"a": v}
        acc = Gd.pmod(1, M)
        for e in range(0, min(2**m + 2, 70)):
            chk("power", (a**e).value == acc, dict(w, e=e))
            acc = Gd.pmod(Gd.pmul(acc, v), M)
        for e in (2**m - 2, 2**m - 1, 2**m, 3 * 2**m + 1):
            chk("power_large", (a**e).value == _ipow(v, e, M), dict(w, e=e))
        tr, c = 0, v
        for _ in range(m):
            tr ^= c
            c = Gd.pmod(Gd.pmul(c, c), M)
        chk("trace", tr in (0, 1) and a.trace() == tr, w)
        mp, orbit = _coset_minpoly(v, m, M)
        chk("conjugates", [c_.value for c_ in a.conjugates()] == orbit, w)
        p = a.minimal_polynomial()
        ok = mp is not None and p.value == mp and _irreducible(p.value) and Gd.pdeg(p.value) == len(orbit)
        # vanishes at a (independent Horner evaluation) and through kaira's own evaluate
        hv = 0
        for i in reversed(range(p.value.bit_length())):
            hv = Gd.pmod(Gd.pmul(hv, v), M) ^ (p.value >> i & 1)
        chk("minimal_polynomial", ok and hv == 0 and p.evaluate(a).value == 0, w)
        # least degree: no non-zero polynomial of smaller degree vanishes at a (independent evaluation, exhaustive)
        if m <= 6:
            small = False
            for q in range(1, 1 << Gd.pdeg(p.value)):
                hv = 0
                for i in reversed(range(q.bit_length())):
                    hv = Gd.pmod(Gd.pmul(hv, v), M) ^ (q >> i & 1)
                if hv == 0:
                    small = True
                    break
            chk("minimal_polynomial_least_degree", not small, w)
    return [_B(spec, cfg, k, n, fails.get(k), t0, "every element of the field vs definitions computed with vk.ground") for k, n in counts.items()]


# ================================================================================ GF(2^m): contracts of the element operations
def _Mv(a):
    """the (concrete) modulus bitmask of the field of the receiver"""
    f = a.self if a.self.cls == FF else a.self.field
    return f.modulus.value


def _size(a):
    f = a.self if a.self.cls == FF else a.self.field
    return f.size


def _inrange(v, size):
    return AND(v >= 0, v < size)


def _field_extra(fermat=False, fpow_add=()):
    def extra(cfg, mod):
        m = _m(cfg)
        F = mod.FiniteBifield(m)
        M = F.modulus.value
        out = [
            (f"deg_bound({m}) [schema instance]", T.schema_instance("schema.deg_bound", {1: m})),
            (f"deg({M}) = {T.deg(M)} [ground evaluation]", T._F["deg"](z3.IntVal(M)) == T.deg(M)),
        ]
        if fermat:
            N = 2**m - 1
            holds = all(_ipow(a, N, M) == 1 for a in range(1, 2**m))
            if holds:
                av = z3.Int("fermat!a")
                out.append((f"L-order instance: a^(2^{m}-1) = 1 for all {N} non-zero residues mod {M} [checked exhaustively with vk.ground on this run; also obligation C18.field_ground/fermat_all_elements]",
                            z3.ForAll([av], z3.Implies(z3.And(av > 0, av < 2**m), T._F["fpow"](z3.IntVal(M), av, z3.IntVal(N)) == 1))))
        for (n, k) in fpow_add:
            out.append((f"fpow_add({n},{k}) [schema instance]", T.schema_instance("schema.fpow_add", {0: M, 2: n, 3: k})))
        return out

    return extra


def _elems(*names, extra_ints=None, cap=6):
    """all tuples of field elements (values < 2^min(m,cap)) for the named parameters"""
    def gen(cfg):
        m = _m(cfg)
        rng = range(2 ** min(m, cap))
        ints = extra_ints or {}
        keys = list(names) + list(ints)
        for tup in itertools.product(*([rng] * len(names) + [ints[k] for k in ints])):
            yield dict(zip(keys, tup))

    return gen


_fe_cache = {"_element_cache": lambda ex, base, key, st: ex.construct(FE, [base, key], st, 0)}

register(Contract(
    key=A + "FiniteBifield.__eq__", types={"self": FF, "other": FF}, returns="bool",
    ensures=lambda a, res, w: {"same_m": res == (a.self.m == a.other.m)}, theory=(),
    small=lambda cfg: [{"self": None, "other": None}], small_desc="the field of this configuration",
))

register(Contract(
    key=A + "FiniteBifield.__call__", types={"self": FF, "value": "int"}, returns=FE, result_field_of="self",
    ensures=lambda a, res, w: {"reduced_value": res.value == a.value % a.self.size, "in_range": _inrange(res.value, a.self.size)},
    caches=_fe_cache, theory=(),
    small=lambda cfg: ({"self": None, "value": v} for v in range(-40, 300)), small_desc="all -40 <= value < 300",
))

register(Contract(
    key=A + "FiniteBifield.primitive_element", types={"self": FF}, returns=FE, result_field_of="self",
    # x for m >= 2; GF(2) has the single non-zero element 1 (the property: a designated element of order 2^m - 1)
    ensures=lambda a, res, w: {"is_x_or_one_in_gf2": OR(AND(a.self.size == 2, res.value == 1), AND(a.self.size != 2, res.value == 2 % a.self.size))}, theory=(),
    small=lambda cfg: [{"self": None}], small_desc="the field of this configuration",
))

register(Contract(
    key=A + "FiniteBifieldElement.__add__", types={"self": FE, "other": FE}, returns=FE,
    requires=lambda a: AND(_inrange(a.self.value, _size(a)), _inrange(a.other.value, _size(a)), a.self.field.m == a.other.field.m),
    ensures=lambda a, res, w: {"is_xor": res.value == xor(a.self.value, a.other.value), "in_range": _inrange(res.value, _size(a))},
    theory=("xor", "deg"), extra=_field_extra(),
    small=_elems("self", "other"), small_desc="all pairs of elements (values < 2^min(m,6))",
))

register(Contract(
    key=A + "FiniteBifieldElement.__mul__", types={"self": FE, "other": FE}, returns=FE,
    requires=lambda a: AND(_inrange(a.self.value, _size(a)), _inrange(a.other.value, _size(a)), a.self.field.m == a.other.field.m),
    ensures=lambda a, res, w: {"is_field_product": res.value == fmul(_Mv(a), a.self.value, a.other.value), "in_range": _inrange(res.value, _size(a))},
    hints={4: (
        lambda e, res, w: pmod(xor(pmul(e.calls[MODK][0].Q, _Mv(e.old)), e.r.result_poly.value), _Mv(e.old)) == e.r.result_poly.value,
        lambda e, res, w: pmod(pmul(e.old.self.value, e.old.other.value), _Mv(e.old)) == e.r.result_poly.value,
        lambda e, res, w: _inrange(e.r.result_poly.value, _size(e.old)),
        lambda e, res, w: fmul(_Mv(e.old), e.old.self.value, e.old.other.value) == e.r.result_poly.value,
    )},
    theory=("xor", "pmul", "deg", "pmod", "fmul"), extra=_field_extra(),
    small=_elems("self", "other"), small_desc="all pairs of elements (values < 2^min(m,6))",
))


def _pow_inv(e):
    M, sz = e.old.self.field.modulus.value, e.old.self.field.size
    return AND(
        e.r.e >= 0, _inrange(e.r.acc.value, sz), _inrange(e.r.base.value, sz),
        fmul(M, e.r.acc.value, fpow(M, e.r.base.value, e.r.e)) == fpow(M, e.old.self.value, e.old.exponent),
    )


def _pow_hints():
    def h0(pre, post, calls):
        M = pre.old.self.field.modulus.value
        b, ex = pre.r.base.value, pre.r.e
        return fpow(M, b, ex) == fmul(M, IF(ex % 2 == 1, b, 1), fpow(M, fmul(M, b, b), ex / 2))

    return (h0,)


register(Contract(
    key=A + "FiniteBifieldElement.__pow__", types={"self": FE, "exponent": "int"}, returns=FE,
    requires=lambda a: _inrange(a.self.value, _size(a)),
    raises=(("ValueError", lambda a: a.exponent < 0),),
    ensures=lambda a, res, w: {"is_power": res.value == fpow(_Mv(a), a.self.value, a.exponent), "in_range": _inrange(res.value, _size(a))},
    loops={0: Loop(roles={"acc": "result", "base": "base", "e": "exponent"}, inv=_pow_inv, variant=lambda e: e.r.e, hints=_pow_hints())},
    theory=("xor", "pmul", "deg", "pmod", "fmul", "fpow"), extra=_field_extra(),
    small=_elems("self", extra_ints={"exponent": range(-1, 20)}, cap=5), small_desc="all elements (values < 2^min(m,5)) x exponents -1..19",
))

register(Contract(
    key=A + "FiniteBifieldElement.inverse", types={"self": FE}, returns=FE,
    requires=lambda a: _inrange(a.self.value, _size(a)),
    raises=(("ValueError", lambda a: a.self.value == 0),),
    ensures=lambda a, res, w: {"is_inverse": fmul(_Mv(a), a.self.value, res.value) == 1, "in_range": _inrange(res.value, _size(a))},
    hints={1: (
        lambda e, res, w: fpow(_Mv(e.old), e.old.self.value, _size(e.old) - 1) == fmul(_Mv(e.old), fpow(_Mv(e.old), e.old.self.value, _size(e.old) - 2), e.old.self.value),
        lambda e, res, w: fpow(_Mv(e.old), e.old.self.value, _size(e.old) - 1) == 1,
        lambda e, res, w: fmul(_Mv(e.old), res.value, e.old.self.value) == 1,
    )},
    theory=("xor", "pmul", "deg", "pmod", "fmul", "fpow"), extra=_field_extra(fermat=True),
    small=_elems("self", cap=10), small_desc="all elements (values < 2^min(m,10))",
))


def _e1_cfgs(tier):
    return [f"m={m}" for m in range(1, 9 if tier == "quick" else 17)]


_e1("C18.field_eq", A + "FiniteBifield.__eq__", _e1_cfgs)
_e1("C18.field_call", A + "FiniteBifield.__call__", _e1_cfgs)
_e1("C18.field_primitive_element", A + "FiniteBifield.primitive_element", _e1_cfgs)
_e1("C18.elem_add", A + "FiniteBifieldElement.__add__", _e1_cfgs)
_e1("C18.elem_mul", A + "FiniteBifieldElement.__mul__", _e1_cfgs)
_e1("C18.elem_pow", A + "FiniteBifieldElement.__pow__", _e1_cfgs)
_e1("C18.elem_inverse", A + "FiniteBifieldElement.inverse", _e1_cfgs)


# ---- trace / conjugates: the m-1 squarings are unrolled (m is concrete per configuration); specification by powers 2^i
def _frob(a, i):
    """a^(2^i) as a specification term"""
    return a.self.value if i == 0 else fpow(_Mv(a), a.self.value, 2**i)


def _squarings(cfg):
    m = _m(cfg)
    return tuple((2**i, 2**i) for i in range(0, max(m - 1, 0)))


def _sq_extra(cfg, mod):
    return _field_extra(fpow_add=_squarings(cfg))(cfg, mod) + [
        ("fpow(a,1) = a [instance of fpow.succ/fpow.zero/fmul.unit]", (lambda av, M: z3.ForAll([av], z3.Implies(z3.And(av >= 0, av < 2 ** _m(cfg)), T._F["fpow"](z3.IntVal(M), av, z3.IntVal(1)) == av)))(z3.Int("pow1!a"), mod.FiniteBifield(_m(cfg)).modulus.value)),
    ]


def _trace_ensures(a, res, w):
    m = a.self.field.m
    acc = _frob(a, 0)
    for i in range(1, m):
        acc = xor(acc, _frob(a, i))
    return {"parity_of_conjugate_sum": res == acc % 2, "is_bit": AND(res >= 0, res <= 1)}


register(Contract(
    key=A + "FiniteBifieldElement.trace", types={"self": FE}, returns="int",
    requires=lambda a: _inrange(a.self.value, _size(a)),
    ensures=_trace_ensures,
    theory=("xor", "pmul", "deg", "pmod", "fmul", "fpow"), extra=_sq_extra,
    small=_elems("self", cap=8), small_desc="all elements (values < 2^min(m,8))",
))


def _conj_ensures(a, res, w):
    m = a.self.field.m
    n = len(res)
    d = {f"elem{i}_is_a_pow_2^{i}": res[i].value == _frob(a, i) for i in range(n)}
    d["length_at_most_m"] = 1 <= n <= m
    d["stops_only_at_orbit_end"] = OR(n == m, _frob(a, n) == a.self.value) if n < m else True
    d["no_repeat_before_end"] = AND(*[NOT(_frob(a, i) == a.self.value) for i in range(1, n)]) if n > 1 else True
    return d


register(Contract(
    key=A + "FiniteBifieldElement.conjugates", types={"self": FE}, returns="list",
    requires=lambda a: _inrange(a.self.value, _size(a)),
    ensures=_conj_ensures,
    theory=("xor", "pmul", "deg", "pmod", "fmul", "fpow"), extra=_sq_extra,
    small=_elems("self", cap=8), small_desc="all elements (values < 2^min(m,8))",
))

_e1("C18.elem_trace", A + "FiniteBifieldElement.trace", _e1_cfgs)
_e1("C18.elem_conjugates", A + "FiniteBifieldElement.conjugates", _e1_cfgs)


@obligation("C18.poly_eq_hash_consistent", function=A + "BinaryPolynomial.__eq__; " + A + "BinaryPolynomial.__hash__", configs=_one_cfg, kind="custom", engine="E1")
def poly_eq_hash_consistent(spec, cfg, tier, seed):
    """derived from the two proved contracts (modular step): p == q  =>  hash(p) == hash(q)"""
    from vk.e1.contract import CONTRACTS, Rec

    t0 = time.time()
    p, q = Rec(BP, value=z3.Int("p.value")), Rec(BP, value=z3.Int("q.value"))
    e, hp, hq = z3.Bool("eq_result"), z3.Int("hash_p"), z3.Int("hash_q")
    ce, ch = CONTRACTS[A + "BinaryPolynomial.__eq__"], CONTRACTS[A + "BinaryPolynomial.__hash__"]
    hyps = list(ce.ensures(NS(self=p, other=q), e, NS()).values()) + list(ch.ensures(NS(self=p), hp, NS()).values()) + list(ch.ensures(NS(self=q), hq, NS()).values())
    s = z3.Solver()
    s.set("timeout", 10000)
    s.add(*hyps)
    s.add(z3.Not(z3.Implies(e, hp == hq)))
    r = s.check()
    return [ObResult(prop=spec.prop, ob=f"{spec.id}/equal_objects_equal_hashes", config=str(cfg), function=spec.function, engine="E1", backend="z3", kind="proof",
                     verdict="discharged" if r == z3.unsat else "undecided", solver_s=round(time.time() - t0, 3), wall_s=round(time.time() - t0, 3),
                     detail="from the contracts of __eq__ (value equality) and __hash__ (hash of value; Python's int hash as an uninterpreted function)")]


# ================================================================================ several fields in one process (history)
@obligation("C18.field_sequences", function=A + "FiniteBifield.__init__; " + A + "FiniteBifield.__call__; " + A + "FiniteBifieldElement.__mul__; " + A + "FiniteBifieldElement.inverse; " + A + "FiniteBifieldElement.minimal_polynomial; " + A + "FiniteBifieldElement.__pow__",
            configs=lambda tier: ["ascending", "interleaved"] + (["long"] if tier == "thorough" else []), kind="custom", engine="standin")
def field_sequences(spec, cfg, tier, seed):
    """bounded: several fields GF(2^m) live in ONE process, built and used in turn (two objects of the same m included); after every
    construction ALL fields built so far are re-examined: products, inverses, powers, minimal polynomials (memoised per element) and
    the elements handed out by F(v) (cached per field) must be those of THEIR OWN field (vk.ground with that field's modulus)"""
    mod = _alg()
    order = {"ascending": [2, 3, 4, 5], "interleaved": [4, 3, 4, 2, 3, 5, 3], "long": [3, 6, 3, 4, 7, 4, 5, 8, 2, 6]}[str(cfg)]
    t0 = time.time()
    fails, counts = {}, {}

    def chk(name, ok, w):
        counts[name] = counts.get(name, 0) + 1
        if not ok and name not in fails:
            fails[name] = w

    built = []
    for step, m in enumerate(order):
        F = mod.FiniteBifield(m)
        built.append((m, F))
        for (mm, FF) in built:
            M = FF.modulus.value
            w0 = {"sequence": order, "after_step": step, "field_m": mm}
            chk("modulus_degree", Gd.pdeg(M) == mm and FF.size == 2**mm if hasattr(FF, "size") else Gd.pdeg(M) == mm, w0)
            E = [FF(v) for v in range(2**mm)]
            chk("call_returns_own_field_elements", all(e.value == v and e.field is FF for v, e in enumerate(E)), w0)
            lim = range(2**mm) if mm <= 4 else range(0, 2**mm, 3)
            for a in lim:
                for b in lim:
                    chk("product", (E[a] * E[b]).value == Gd.pmod(Gd.pmul(a, b), M), dict(w0, a=a, b=b))
                if a:
                    chk("inverse", Gd.pmod(Gd.pmul(a, E[a].inverse().value), M) == 1, dict(w0, a=a))
                chk("power", (E[a] ** 5).value == _ipow(a, 5, M), dict(w0, a=a, e=5))
                mp, orbit = _coset_minpoly(a, mm, M)
                chk("minimal_polynomial", mp is not None and E[a].minimal_polynomial().value == mp, dict(w0, a=a))
    return [_B(spec, cfg, k, n, fails.get(k), t0, f"fields m = {order} built in this order in one process; every field re-examined after every construction") for k, n in counts.items()]
