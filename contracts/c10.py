"""C10 - soft-input decoders are exact where the algorithm is; clean input decodes clean.

Contracts (DESIGN.md section 7, C10):
  Wagner      forall r in R^n: the output is the message of a codeword of the single-parity-check code that maximises the
              correlation sum_i (1-2c_i) r_i over all 2^k codewords (codebook enumerated concretely from the published G);
              noise-free clause; shapes 1-D, (B,n), multi-block.                                             [P-forall, z3 LRA]
  min-sum     compute_cv_minsum: for every edge c->v   msg = alpha * prod_{v'!=v} sign(m_v') * min_{v'!=v} |m_v'|  - beta * sign(.)
              (messages clamped to +-500 first, as the function documents), shape (batch, num_edges); positive homogeneity for
              beta = 0; whole decoder: noise-free LLRs of any positive magnitude decode to the message.      [P-forall, z3 LRA]
  BP          index structures (ground): cv_order is the permutation between variable-major and check-major edge order, ext_ce lists
              exactly the other edges of each check, idx_mess_t[i] is a position carrying message bit i; the update itself goes
              through log2 of complex numbers: bounded stand-in (noise-free decoding; exact posteriors on cycle-free graphs).
  soft RM     noise-free LLRs of any positive magnitude decode to the message.                                [P-forall, z3]
"""
from __future__ import annotations

import contextlib
import io
import itertools
import math
import random
import time
from fractions import Fraction

import numpy as np
import torch

from vk import ground as Gd
from vk import ops_soft as OS
from vk import spec as SP
from vk import sym as S
from vk.harness import ObResult, obligation
from vk.tensor import P

from . import codes
from .codes import SEED, Cfg

FD = "kaira/models/fec/decoders/"
FU = "kaira/models/fec/utils.py"
FW = FD + "wagner_soft_decision_decoder.py"
FMS = FD + "min_sum_ldpc.py"
FBP = FD + "belief_propagation.py"
FRM = FD + "reed_muller_decoder.py"


def _quiet(fn, *a, **k):
    with contextlib.redirect_stdout(io.StringIO()):
        return fn(*a, **k)


def noise_free(x_payload, mags):
    """llr_j = a_j (1 - 2 x_j) as a case distinction on the code bit"""
    vals = np.empty(len(x_payload), dtype=object)
    for j, xj in enumerate(x_payload):
        a = mags[j] if isinstance(mags, (list, tuple)) else mags
        vals[j] = S.ite(S.eq(xj, 1), S.mul(-1, a), a)
    return vals


def positive_reals(ctx, name, n):
    t = ctx.reals(name, (n,), sampler=lambda r: r.choice([0.5, 1.0, 50.0, abs(r.gauss(0, 3)) + 0.01]))
    vals = list(P(t))
    for v in vals:
        ctx.assume(S.lt(0, v))
    return vals


def codebook(G):
    """all codewords of the row space of the concrete integer matrix G, as (message tuple, codeword tuple)"""
    k, n = len(G), len(G[0])
    out = []
    for m in itertools.product([0, 1], repeat=k):
        out.append((m, tuple(sum(m[i] * G[i][j] for i in range(k)) % 2 for j in range(n))))
    return out


# ================================================================================================ Wagner
_WAG = {}


def _wagner(k):
    if k not in _WAG:
        from kaira.models.fec.decoders.wagner_soft_decision_decoder import WagnerSoftDecisionDecoder

        enc = codes.build(Cfg("spc", k))
        _WAG[k] = (enc, codes.warm(WagnerSoftDecisionDecoder(enc), k + 1, soft=True))
    return _WAG[k]


def _wagner_cfgs(tier):
    kmax = 6 if tier == "quick" else 10
    out = []
    for k in range(1, kmax + 1):
        if k <= (5 if tier == "quick" else 8):
            out.append(Cfg("spc", k, "1d"))
        if k <= (3 if tier == "quick" else 4):
            out.append(Cfg("spc", k, "B2"))
        if k <= (2 if tier == "quick" else 3):
            out.append(Cfg("spc", k, "blocks2"))
        out.append(Cfg("spc", k, "noise_free"))
    return out


def correlation_claim(r_block, msg_block, G):
    """(message decoded to a codeword c of the code) and forall codewords c': corr(c) >= corr(c');  corr(c) = sum_i (1-2c_i) r_i"""
    k, n = len(G), len(G[0])
    cw = [OS.smod(_sum(msg_block[i] for i in range(k) if G[i][j]), 2) for j in range(n)]
    corr = 0
    for j in range(n):
        corr = S.add(corr, OS.smul(S.sub(1, S.mul(2, cw[j])), r_block[j]) if isinstance(cw[j], S.Sym) else S.mul(1 - 2 * cw[j], r_block[j]))
    claims = []
    for _, c in codebook(G):
        other = 0
        for j in range(n):
            other = S.add(other, S.mul(1 - 2 * c[j], r_block[j]))
        claims.append(S.le(other, corr))
    return SP.conj(claims)


def _sum(it):
    acc = 0
    for v in it:
        acc = S.add(acc, v)
    return acc


@obligation("C10.wagner", function=FW + ":WagnerSoftDecisionDecoder.forward", configs=_wagner_cfgs, max_paths=4096, timeout_ms=60000, crosscheck=3)
def wagner(ctx, cfg):
    _, k, variant = cfg
    enc, dec = _wagner(k)
    n = k + 1
    G = SP.int_matrix(enc.generator_matrix)
    if variant == "noise_free":
        m = ctx.bits("m", (k,))
        a = positive_reals(ctx, "a", n)
        cw = ctx.call(enc.forward, m)
        ctx.ensure("encodes", cw.ok)
        if not cw.ok:
            return
        r = ctx.tensor(noise_free(list(P(cw.value)), a))
        with OS.torch_list_index():
            out = ctx.call(dec.forward, r)
        ctx.ensure("returns", out.ok, note=repr(out.exc) if not out.ok else "")
        if out.ok:
            ctx.ensure("noise_free_decodes_to_message", SP.shape_is(out.value, (k,)) and SP.all_eq(P(out.value), P(m)))
        return
    shape = {"1d": (n,), "B2": (2, n), "blocks2": (1, 2 * n)}[variant]
    oshape = {"1d": (k,), "B2": (2, k), "blocks2": (1, 2 * k)}[variant]
    r = ctx.reals("r", shape)
    with OS.torch_list_index():
        out = ctx.call(dec.forward, r)
    ctx.ensure("returns", out.ok, note=repr(out.exc) if not out.ok else "")
    if not out.ok:
        return
    ctx.ensure("shape", SP.shape_is(out.value, oshape))
    if not SP.shape_is(out.value, oshape):
        return
    rb = P(r).reshape(-1, n)
    mb = P(out.value).reshape(-1, k)
    ctx.ensure("output_is_binary", SP.is_bits(mb))
    ctx.ensure("maximum_likelihood_codeword", SP.conj(correlation_claim(list(rb[b]), list(mb[b]), G) for b in range(rb.shape[0])), note="for every real input, ties and zeros included")
    ctx.ensure("input_unmodified", out.unmodified)


# ================================================================================================ min-sum LDPC
# parity-check matrices with n <= 8: tree-structured, small cycles, regular / irregular degrees, degree-2 and degree-1 checks
H_SMALL = {
    "hamming74": ((1, 1, 0, 1, 1, 0, 0), (1, 0, 1, 1, 0, 1, 0), (0, 1, 1, 1, 0, 0, 1)),
    "spc4": ((1, 1, 1, 1),),
    "chain5_deg2": ((1, 1, 0, 0, 0), (0, 1, 1, 0, 0), (0, 0, 1, 1, 0), (0, 0, 0, 1, 1)),
    "tree6": ((1, 1, 1, 0, 0, 0), (0, 0, 1, 1, 1, 0), (0, 0, 0, 0, 1, 1)),
    "irregular6": ((1, 1, 0, 1, 0, 0), (0, 1, 1, 0, 1, 0), (1, 0, 0, 0, 1, 1), (0, 0, 1, 1, 0, 0)),
    "cycle8": ((1, 1, 0, 0, 1, 0, 0, 0), (0, 1, 1, 0, 0, 1, 0, 0), (0, 0, 1, 1, 0, 0, 1, 0), (1, 0, 0, 1, 0, 0, 0, 1)),
    "deg1_check5": ((1, 1, 1, 0, 0), (0, 0, 1, 1, 0), (0, 0, 0, 0, 1)),
}


def _h_cfgs(tier):
    out = [Cfg("ldpc", H_SMALL[name]) for name in H_SMALL]
    for c in codes.catalogue(tier):
        if c.family == "ldpc" and len(c[1][0]) <= 8:
            out.append(c)
    return out


def tanner_edges(H):
    """edges (v, c) in variable-major order - the order of the message vectors of the decoder"""
    r, n = len(H), len(H[0])
    return [(v, c) for v in range(n) for c in range(r) if H[c][v]]


def minsum_update_spec(vc, H, alpha, beta, clamp=500):
    """for every edge (v, c): alpha * prod_{v' != v} sign(m_{v'c}) * min_{v' != v} |m_{v'c}|, offset by beta towards zero
    (sign * max(. - beta, 0), Chen et al. 2005 'offset BP-based'); a degree-1 check sends 0.  Messages are first limited to +-clamp."""
    E = tanner_edges(H)
    lim = [S.smax(S.smin(m, clamp), -clamp) for m in vc]
    out = []
    for (v, c) in E:
        others = [lim[i] for i, (v2, c2) in enumerate(E) if c2 == c and v2 != v]
        if not others:
            out.append(0)
            continue
        mag = None
        neg = False
        anyzero = False
        for m in others:
            a = S.sabs(m)
            mag = a if mag is None else S.smin(mag, a)
            neg = S.lxor(neg, _bb(S.lt(m, 0)))
        mag = S.mul(S.norm(alpha), mag)
        if beta:
            mag = S.smax(S.sub(mag, S.norm(beta)), 0)
        out.append(S.ite(neg, S.mul(-1, mag), mag))  # a zero among the inputs gives min = 0, hence 0
    return out


def _bb(v):
    return bool(v) if not isinstance(v, S.Sym) else v


_MS = {}


def minsum_decoder(cfg, iters, alpha, beta):
    key = (cfg, iters, alpha, beta)
    if key not in _MS:
        from kaira.models.fec.decoders.min_sum_ldpc import MinSumLDPCDecoder

        _MS[key] = MinSumLDPCDecoder(codes.build(cfg), bp_iters=iters, scaling_factor=alpha, offset=beta)
        codes.warm(_MS[key], _MS[key].encoder.code_length, soft=True)
    return _MS[key]


MS_PARAMS = {"plain": (1.0, 0.0), "scaled": (0.75, 0.0), "offset": (0.75, 0.2)}


@obligation("C10.minsum_check_update", function=FMS + ":MinSumLDPCDecoder.compute_cv_minsum; " + FBP + ":BeliefPropagationDecoder.prep_edge_ind", configs=lambda tier: codes.with_variants(_h_cfgs(tier), list(MS_PARAMS)), timeout_ms=60000, crosscheck=3)
def minsum_check_update(ctx, vcfg):
    cfg, variant = codes.split_variant(vcfg)
    alpha, beta = MS_PARAMS[variant]
    dec = minsum_decoder(cfg, 3, alpha, beta)
    H = SP.int_matrix(codes.build(cfg).check_matrix)
    E = tanner_edges(H)
    ne = len(E)
    B = 2 if ne <= 12 else 1
    vc = ctx.reals("vc", (B, ne), sampler=lambda r: r.choice([r.gauss(0, 3), r.gauss(0, 3), float(r.randint(-3, 3))]))
    with OS.piecewise():
        out = ctx.call(dec.compute_cv_minsum, vc)
    ctx.ensure("returns", out.ok, note=repr(out.exc) if not out.ok else "")
    if not out.ok:
        return
    ctx.ensure("shape_batch_by_num_edges", SP.shape_is(out.value, (B, ne)))
    if not SP.shape_is(out.value, (B, ne)):
        return
    want = np.empty((B, ne), dtype=object)
    for b in range(B):
        want[b] = minsum_update_spec(list(P(vc)[b]), H, alpha, beta)
    ctx.ensure("sign_product_times_min_magnitude_scaled_offset", SP.all_close(P(out.value), want), note=f"alpha={alpha}, beta={beta}")
    ctx.ensure("input_unmodified", out.unmodified)


@obligation("C10.minsum_scale_invariance", function=FMS + ":MinSumLDPCDecoder.compute_cv_minsum", configs=lambda tier: codes.with_variants([c for c in _h_cfgs(tier) if len(tanner_edges(c[1])) <= 14], ["plain", "scaled"]), timeout_ms=60000, crosscheck=2)
def minsum_scale_invariance(ctx, vcfg):
    """offset 0: compute_cv_minsum(t * m) == t * compute_cv_minsum(m), proved directly on the real function for all real messages m and
    t in {1/3, 1/2, 2, 7} (a symbolic t would make the terms non-linear).  For EVERY t > 0 the invariance is the corollary of
    C10.minsum_check_update: the specification alpha * prod sign * min|.| is positively homogeneous (sign(t m) = sign(m), |t m| = t |m|)."""
    cfg, variant = codes.split_variant(vcfg)
    alpha, beta = MS_PARAMS[variant]
    dec = minsum_decoder(cfg, 3, alpha, beta)
    H = SP.int_matrix(codes.build(cfg).check_matrix)
    ne = len(tanner_edges(H))
    vc = ctx.reals("vc", (1, ne))
    for tv in (Fraction(1, 3), Fraction(1, 2), 2, 7):
        scaled = np.empty((1, ne), dtype=object)
        for j, v in enumerate(P(vc)[0]):
            scaled[0, j] = S.mul(tv, v)
        for v in list(P(vc)[0]) + list(scaled[0]):
            ctx.assume(S.le(S.sabs(v), 500))
        with OS.piecewise():
            a = ctx.call(dec.compute_cv_minsum, vc)
            b = ctx.call(dec.compute_cv_minsum, ctx.tensor(scaled))
        ctx.ensure(f"returns.t={tv}", a.ok and b.ok, note=repr(a.exc or b.exc))
        if a.ok and b.ok:
            lhs = P(b.value)
            rhs = np.empty(lhs.shape, dtype=object) if tuple(a.value.shape) == tuple(b.value.shape) else None
            if rhs is None:
                ctx.ensure(f"homogeneous.t={tv}", False)
                continue
            for idx in np.ndindex(*lhs.shape):
                rhs[idx] = S.mul(tv, P(a.value)[idx])
            ctx.ensure(f"homogeneous.t={tv}", SP.all_close(lhs, rhs))


@obligation("C10.variable_update_and_marginal", function=FBP + ":BeliefPropagationDecoder.compute_vc; " + FBP + ":BeliefPropagationDecoder.marginalize",
            configs=lambda tier: codes.with_variants(_h_cfgs(tier), ["bp", "minsum"]), timeout_ms=60000, crosscheck=3)
def variable_update_and_marginal(ctx, vcfg):
    """the LINEAR half of every iteration, for ALL real messages and inputs - no bound on magnitudes (a clip on these messages would
    make the min-sum decoder depend on the scale of its input): for every edge e = (v, c)
        compute_vc(cv, s)[e] == s[v] - cv[e]            marginalize(cv, llr)[v] == llr[v] + sum_{e at v} cv[e]
    for the sum-product decoder and for MinSumLDPCDecoder, which inherits both methods"""
    cfg, which = codes.split_variant(vcfg)
    dec = bp_decoder(cfg, 3, True) if which == "bp" else minsum_decoder(cfg, 3, 0.75, 0.0)
    H = SP.int_matrix(codes.build(cfg).check_matrix)
    E = tanner_edges(H)
    n, ne = len(H[0]), len(E)
    big = 60 if which == "minsum" else 4
    cv = ctx.reals("cv", (1, ne), sampler=lambda r: max(-14.9, min(14.9, r.choice([r.gauss(0, 2), r.gauss(0, big), 0.0]))) if which == "bp" else r.choice([r.gauss(0, 2), r.gauss(0, big), 0.0]))
    s = ctx.reals("s", (1, n), sampler=lambda r: max(-14.9, min(14.9, r.choice([r.gauss(0, 2), r.gauss(0, big)]))) if which == "bp" else r.choice([r.gauss(0, 2), r.gauss(0, big)]))
    if which == "bp":
        # the sum-product decoder is only specified inside its message-clipping range (a saturation of large messages would not
        # change its result): |cv|, |s| <= 15; the min-sum variant is unbounded
        for v in list(P(cv)[0]) + list(P(s)[0]):
            ctx.assume(S.le(S.sabs(v), 15))
    a = ctx.call(dec.compute_vc, cv, s)
    ctx.ensure("compute_vc_returns", a.ok, note=repr(a.exc) if not a.ok else "")
    if a.ok:
        want = np.asarray([[S.sub(P(s)[0][v], P(cv)[0][j]) for j, (v, c) in enumerate(E)]], dtype=object)
        ctx.ensure("vc_is_input_minus_incoming_message_on_every_edge", SP.shape_is(a.value, (1, ne)) and SP.all_close(P(a.value), want))
        ctx.ensure("compute_vc_inputs_unmodified", a.unmodified)
    b = ctx.call(dec.marginalize, cv, s)
    ctx.ensure("marginalize_returns", b.ok, note=repr(b.exc) if not b.ok else "")
    if b.ok:
        want = np.empty((1, n), dtype=object)
        for v in range(n):
            acc = P(s)[0][v]
            for j, (v2, c) in enumerate(E):
                if v2 == v:
                    acc = S.add(acc, P(cv)[0][j])
            want[0, v] = acc
        ctx.ensure("marginal_is_input_plus_all_incoming_messages", SP.shape_is(b.value, (1, n)) and SP.all_close(P(b.value), want))
        ctx.ensure("marginalize_inputs_unmodified", b.unmodified)


def _ms_dec_cfgs(tier):
    out = []
    for c in _h_cfgs(tier):
        H = c[1]
        if len(tanner_edges(H)) > (16 if tier == "quick" else 24):
            continue
        for variant in MS_PARAMS:
            for iters in (1, 3) if tier == "quick" else (1, 2, 3):
                out.append(Cfg(*c, variant, iters))
    return out


@obligation(
    "C10.minsum_noise_free",
    function=FMS + ":MinSumLDPCDecoder.compute_cv_minsum; " + FBP + ":BeliefPropagationDecoder.forward; " + FBP + ":BeliefPropagationDecoder.compute_vc; " + FBP + ":BeliefPropagationDecoder.marginalize; "
    + FBP + ":BeliefPropagationDecoder.calc_code_metrics; " + FU + ":sign_to_bin",
    configs=_ms_dec_cfgs,
    timeout_ms=60000,
    crosscheck=2,
)
def minsum_noise_free(ctx, vcfg):
    """forall messages m, forall a > 0: MinSum(a (1 - 2 forward(m))) == m, shape (1, k); the posterior LLRs carry the codeword's signs"""
    cfg = Cfg(*vcfg[:-2])
    variant, iters = vcfg[-2], vcfg[-1]
    alpha, beta = MS_PARAMS[variant]
    enc = codes.build(cfg)
    dec = minsum_decoder(cfg, iters, alpha, beta)
    k, n = enc.generator_matrix.shape
    m = ctx.bits("m", (1, k))
    a = ctx.scalar("a", "real", sampler=lambda r: r.choice([0.05, 0.5, 1.0, 50.0, abs(r.gauss(0, 3)) + 0.01]))
    ctx.assume(S.lt(0, a))
    cw = ctx.call(enc.forward, m)
    ctx.ensure("encodes", cw.ok)
    if not cw.ok:
        return
    x = list(P(cw.value)[0])
    llr = ctx.tensor(noise_free(x, a).reshape(1, n))
    with OS.piecewise():
        out = ctx.call(dec.forward, llr, return_soft=True)
    ctx.ensure("returns", out.ok, note=repr(out.exc) if not out.ok else "")
    if not out.ok:
        return
    info, soft = out.value
    ctx.ensure("posterior_signs_are_the_codeword", SP.shape_is(soft, (1, n)) and SP.conj(S.ite(S.eq(x[j], 1), S.lt(P(soft)[0][j], 0), S.lt(0, P(soft)[0][j])) for j in range(n)), note=f"alpha={alpha}, beta={beta}, {iters} iteration(s)")
    ctx.ensure("decodes_to_message_with_advertised_shape", SP.shape_is(info, (1, k)) and SP.all_eq(P(info), P(m)), note=f"alpha={alpha}, beta={beta}, {iters} iteration(s)")


# ================================================================================================ belief propagation: index structures (ground)
def _bp_struct_cfgs(tier):
    out = _h_cfgs(tier)
    for c in codes.catalogue(tier):
        if c.family in ("hamming", "spc") and codes.try_build(c)[0] is not None and codes.build(c).generator_matrix.shape[1] <= 16:
            out.append(c)
        if c.family == "ldpc" and c not in out and tier == "thorough":
            out.append(c)
    return out


_BPD = {}


def bp_decoder(cfg, iters=5, arctanh=True):
    key = (cfg, iters, arctanh)
    if key not in _BPD:
        from kaira.models.fec.decoders.belief_propagation import BeliefPropagationDecoder

        _BPD[key] = BeliefPropagationDecoder(codes.build(cfg), bp_iters=iters, arctanh=arctanh)
        codes.warm(_BPD[key], _BPD[key].encoder.code_length, soft=True)
    return _BPD[key]


@obligation("C10.bp_index_structures", function=FBP + ":BeliefPropagationDecoder.prep_edge_ind; " + FBP + ":BeliefPropagationDecoder.calc_code_metrics", configs=_bp_struct_cfgs, kind="ground", engine="ground")
def bp_index_structures(cfg):
    enc = codes.build(cfg)
    try:
        dec = bp_decoder(cfg)
    except Exception as e:
        yield "constructs", False, f"constructor raised {type(e).__name__}: {e}"
        return
    yield "constructs", True, ""
    H = SP.int_matrix(enc.check_matrix)
    G = SP.int_matrix(enc.generator_matrix)
    k, n = len(G), len(G[0])
    r = len(H)
    E = tanner_edges(H)  # variable-major
    CM = sorted(E, key=lambda e: (e[1], e[0]))  # check-major
    yield "edge_count_and_degrees", int(dec.num_edges) == len(E) and dec.var_degree.tolist() == [sum(H[c][v] for c in range(r)) for v in range(n)] and dec.check_degree.tolist() == [sum(row) for row in H], f"{len(E)} edges"
    yield "lv_ind_is_variable_of_edge", dec.lv_ind.tolist() == [v for v, _ in E], "variable-major edge order"
    cvo = dec.cv_order.tolist()
    yield "cv_order_is_variable_major_to_check_major_permutation", sorted(cvo) == list(range(len(E))) and all(CM[cvo[e]] == E[e] for e in range(len(E))), "cv_order[e] = position of edge e in check-major order"
    bad = []
    for c in range(r):
        mine = [i for i, (v2, c2) in enumerate(E) if c2 == c]  # ascending variable = check-major order inside the check
        ext = dec.ext_ce[c]
        if len(mine) <= 1:
            if ext.numel() != 0:
                bad.append(c)
            continue
        rows = [[int(x) for x in row] for row in ext.tolist()]
        if len(rows) != len(mine) or any(sorted(rows[i]) != [e for e in mine if e != mine[i]] for i in range(len(mine))):
            bad.append(c)
    yield "ext_ce_lists_exactly_the_other_edges_of_the_check", not bad, f"checks with a wrong extrinsic table: {bad[:5]}"
    badv = [v for v in range(n) if [int(x) for x in dec.marg_ec[v].tolist()] != [i for i, (v2, _) in enumerate(E) if v2 == v]]
    yield "marg_ec_lists_the_edges_of_the_variable", not badv, f"{badv[:5]}"
    idx = [int(x) for x in dec.idx_mess_t.tolist()]
    ok = len(idx) == k and all([G[i][idx[t]] for i in range(k)] == [1 if i == t else 0 for i in range(k)] for t in range(k))
    w1 = [j for j in range(n) if sum(G[i][j] for i in range(k)) == 1]
    yield "idx_mess_t_carries_message_bit_i_at_entry_i", ok, f"idx_mess_t = {idx}, k = {k}, weight-1 columns of G = {w1}"


# ================================================================================================ belief propagation: bounded stand-in
def random_tree_H(rng, n):
    """cycle-free Tanner graph: every new check joins one existing variable to one or more new variables"""
    rows = []
    nv = rng.randint(2, 3)
    rows.append(list(range(nv)))
    while nv < n:
        new = min(n - nv, rng.randint(1, 3))
        anchor = rng.randrange(nv)
        rows.append([anchor] + list(range(nv, nv + new)))
        nv += new
    if rng.random() < 0.5:
        rows.append([rng.randrange(n)])  # a degree-1 check (pins one variable to 0)
    return tuple(tuple(1 if j in row else 0 for j in range(n)) for row in rows)


def _bp_native_cfgs(tier):
    out = list(_bp_struct_cfgs(tier))
    rng = random.Random(SEED * 4111 + 5)
    for i in range(3 if tier == "quick" else 12):
        n = rng.randint(5, 10)
        H = random_tree_H(rng, n)
        if Gd.rank(Gd.rows_to_masks([list(r) for r in H])) == len(H):
            out.append(Cfg("ldpc", H))
    if tier == "thorough":
        for i in range(6):
            n = rng.randint(12, 24)
            out.append(Cfg("ldpc", codes.random_sparse_H(rng, rng.randint(3, n // 2), n)))
    seen, uniq = set(), []
    for c in out:
        if c not in seen:
            seen.add(c)
            uniq.append(c)
    return uniq


def is_cycle_free(H):
    r, n = len(H), len(H[0])
    parent = list(range(r + n))

    def find(a):
        while parent[a] != a:
            parent[a] = parent[parent[a]]
            a = parent[a]
        return a

    for c in range(r):
        for v in range(n):
            if H[c][v]:
                a, b = find(n + c), find(v)
                if a == b:
                    return False
                parent[a] = b
    return True


def exact_posteriors(H, llr):
    """bitwise posterior LLRs log P(c_j=0|y)/P(c_j=1|y) over the code ker H, by enumeration"""
    r, n = len(H), len(H[0])
    num0 = [0.0] * n
    num1 = [0.0] * n
    for w in range(1 << n):
        c = [(w >> j) & 1 for j in range(n)]
        if any(sum(H[i][j] * c[j] for j in range(n)) % 2 for i in range(r)):
            continue
        p = math.exp(sum((0.5 if not c[j] else -0.5) * llr[j] for j in range(n)))
        for j in range(n):
            if c[j]:
                num1[j] += p
            else:
                num0[j] += p
    return [math.log(num0[j] / num1[j]) if num1[j] > 0 and num0[j] > 0 else (math.inf if num1[j] == 0 else -math.inf) for j in range(n)]


@obligation(
    "C10.bp_native",
    function=FBP + ":BeliefPropagationDecoder.forward; " + FBP + ":BeliefPropagationDecoder.compute_cv; " + FBP + ":BeliefPropagationDecoder.compute_vc; " + FBP + ":BeliefPropagationDecoder.marginalize; " + FU + ":Taylor_arctanh; " + FU + ":sign_to_bin",
    configs=_bp_native_cfgs,
    kind="custom",
    engine="standin",
)
def bp_native(spec, cfg, tier, seed):
    """BOUNDED stand-in (the check-node update goes through log2 of complex numbers and 2**x: out of symbolic reach).
    (1) every codeword (k <= 8, else 256 random) at magnitudes 0.5..50 decodes to its message with shape (B, k), exact and Taylor arctanh, 1/5/10 iterations;
    (2) on cycle-free graphs the soft output equals the exact bitwise posterior LLRs (enumeration over the code) for random inputs inside the
        message-clipping range (|posterior| < 2 atanh(0.999) = 7.6), tolerance 2e-3 absolute."""
    from kaira.models.fec.decoders.belief_propagation import BeliefPropagationDecoder

    t0 = time.time()
    enc = codes.build(cfg)
    G = SP.int_matrix(enc.generator_matrix)
    H = SP.int_matrix(enc.check_matrix)
    k, n = len(G), len(G[0])
    rng = random.Random(seed * 613 + n * 7 + k)
    stats = {}

    def record(name, ok, wit):
        st = stats.setdefault(name, {"n": 0, "fail": None})
        st["n"] += 1
        if not ok and st["fail"] is None:
            st["fail"] = wit

    msgs = [list(m) for m in itertools.product([0, 1], repeat=k)] if k <= 8 else [[rng.randint(0, 1) for _ in range(k)] for _ in range(256)]
    M = torch.tensor(msgs, dtype=torch.float32)
    X = enc(M)
    for arct in (True, False):
        for iters in (1, 5, 10):
            try:
                dec = BeliefPropagationDecoder(enc, bp_iters=iters, arctanh=arct)
            except Exception as e:
                record("constructs", False, {"raised": repr(e)[:200]})
                continue
            for a in (0.5, 1.0, 7.3, 50.0):
                name = f"noise_free.{'arctanh' if arct else 'taylor'}"
                try:
                    out = dec(a * (1 - 2 * X))
                    if tuple(out.shape) != tuple(M.shape):
                        record(name, False, {"magnitude": a, "iterations": iters, "output_shape": list(out.shape), "advertised": list(M.shape)})
                    else:
                        badrows = (out != M).any(1).nonzero().reshape(-1).tolist()
                        record(name, not badrows, None if not badrows else {"magnitude": a, "iterations": iters, "message": msgs[badrows[0]], "decoded": out[badrows[0]].tolist(), "wrong_rows": len(badrows)})
                except Exception as e:
                    record(name, False, {"magnitude": a, "iterations": iters, "raised": repr(e)[:200]})
    if is_cycle_free(H) and n <= 12:
        iters = 2 * (len(H) + n)
        for arct in (True, False):
            try:
                dec = BeliefPropagationDecoder(enc, bp_iters=iters, arctanh=arct)
            except Exception:
                continue
            for _ in range(20 if tier == "quick" else 100):
                llr = [rng.uniform(-1.5, 1.5) for _ in range(n)]
                want = exact_posteriors(H, llr)
                if any(abs(w) > 6.5 for w in want):
                    continue
                if not arct and max(abs(w) for w in want) + max(abs(v) for v in llr) > 4.0:
                    # Taylor_arctanh (105 terms) is an approximation: its truncation error 2 x^211 / (211 (1 - x^2)) at x = tanh(L/2)
                    # is 6e-5 for an internal message L = 4 but 3e-2 for L = 5; extrinsic messages are bounded by |posterior| + |llr|.
                    # Exactness to 1e-3 is only demanded where the documented approximation can deliver it.
                    continue
                try:
                    _, soft = dec(torch.tensor([llr], dtype=torch.float32), return_soft=True)
                    got = soft.reshape(-1).tolist()
                    ok = len(got) == n and all(abs(g - w) <= 2e-3 + 1e-3 * abs(w) for g, w in zip(got, want))
                    record(f"cycle_free_exact_posteriors.{'arctanh' if arct else 'taylor'}", ok, None if ok else {"llr": llr, "soft_output": got, "exact_posterior": want, "iterations": iters})
                except Exception as e:
                    record(f"cycle_free_exact_posteriors.{'arctanh' if arct else 'taylor'}", False, {"llr": llr, "raised": repr(e)[:200]})
    res = []
    for name, st in sorted(stats.items()):
        r = ObResult(prop="C10", ob=f"{spec.id}/{name}", config=str(cfg), function=spec.function, engine="standin", backend="native", kind="bounded")
        r.verdict = "discharged" if st["fail"] is None else "refuted"
        r.paths = st["n"]
        r.queries = st["n"]
        r.witness = st["fail"]
        r.replay_confirmed = None if st["fail"] is None else True
        r.detail = f"bounded: {st['n']} native evaluations on a ({n},{k}) code, {'all' if k <= 8 else 256} codewords x magnitudes (0.5, 1, 7.3, 50) x iterations (1, 5, 10); cycle-free: {is_cycle_free(H)}"
        r.wall_s = round(time.time() - t0, 2)
        res.append(r)
    return res


# ================================================================================================ soft Reed-Muller
_RMD = {}


def _rm_soft(cfg):
    if cfg not in _RMD:
        from kaira.models.fec.decoders.reed_muller_decoder import ReedMullerDecoder

        enc = codes.build(cfg)
        _RMD[cfg] = (enc, codes.warm(ReedMullerDecoder(enc, input_type="soft"), enc.code_length, soft=True))
    return _RMD[cfg]


def _rm_cfgs(tier):
    # RM(2,3) (k = 7) and every RM(r,4) with r >= 1 exceed the solver budget: bounded only (C10.rm_soft_native)
    grid = [(0, 1), (0, 2), (1, 2), (0, 3), (1, 3)] + ([(0, 4)] if tier == "thorough" else [])
    return [Cfg("rm", r, m, v) for r, m in grid for v in ("uniform", "per_position")]


@obligation("C10.rm_soft_noise_free", function=FRM + ":ReedMullerDecoder.forward; kaira/models/fec/encoders/reed_muller_code.py:ReedMullerCodeEncoder.get_reed_partitions", configs=_rm_cfgs, timeout_ms=120000, crosscheck=2)
def rm_soft_noise_free(ctx, vcfg):
    """forall messages m, forall magnitudes a > 0 (common or per position): ReedMullerDecoder(input_type='soft')(a (1 - 2 forward(m))) == m"""
    cfg, variant = codes.split_variant(vcfg)
    enc, dec = _rm_soft(cfg)
    k, n = enc.generator_matrix.shape
    m = ctx.bits("m", (k,))
    if variant == "uniform":
        a = ctx.scalar("a", "real", sampler=lambda r: r.choice([0.5, 1.0, 50.0, abs(r.gauss(0, 3)) + 0.01]))
        ctx.assume(S.lt(0, a))
        mags = a
    else:
        mags = positive_reals(ctx, "a", n)
    cw = ctx.call(enc.forward, m)
    ctx.ensure("encodes", cw.ok)
    if not cw.ok:
        return
    r = ctx.tensor(noise_free(list(P(cw.value)), mags))
    with OS.piecewise():
        out = ctx.call(dec.forward, r)
    ctx.ensure("returns", out.ok, note=repr(out.exc) if not out.ok else "")
    if out.ok:
        ctx.ensure("decodes_to_message_with_advertised_shape", SP.shape_is(out.value, (k,)) and SP.all_eq(P(out.value), P(m)))
        ctx.ensure("input_unmodified", out.unmodified)


@obligation("C10.rm_soft_native", function=FRM + ":ReedMullerDecoder.forward", configs=lambda tier: [Cfg("rm", r, m) for m in range(1, (5 if tier == "quick" else 6)) for r in range(0, m)], kind="custom", engine="standin")
def rm_soft_native(spec, cfg, tier, seed):
    """BOUNDED stand-in: every codeword (k <= 11, else 512 random) at common magnitudes 0.5..50 and at random per-position magnitudes, batch and
    multi-block layouts, decodes to its message"""
    t0 = time.time()
    enc, dec = _rm_soft(cfg)
    k, n = enc.generator_matrix.shape
    rng = random.Random(seed * 17 + n + k)
    msgs = [list(m) for m in itertools.product([0, 1], repeat=k)] if k <= 11 else [[rng.randint(0, 1) for _ in range(k)] for _ in range(512)]
    if tier == "quick" and len(msgs) > 256:
        msgs = rng.sample(msgs, 256)
    M = torch.tensor(msgs, dtype=torch.float32)
    X = enc(M)
    fail, evals = None, 0
    for a in (0.5, 1.0, 7.3, 50.0, "random"):
        mag = torch.tensor([[rng.uniform(0.05, 50) for _ in range(n)] for _ in msgs]) if a == "random" else a
        llr = mag * (1 - 2 * X)
        for layout in ("batch", "blocks"):
            inp = llr if layout == "batch" else llr.reshape(1, -1)
            want = M if layout == "batch" else M.reshape(1, -1)
            evals += 1
            try:
                out = dec(inp)
                ok = tuple(out.shape) == tuple(want.shape) and bool((out == want).all())
                wit = None if ok else {"magnitude": a, "layout": layout, "output_shape": list(out.shape), "advertised": list(want.shape)}
            except Exception as e:
                ok, wit = False, {"magnitude": a, "layout": layout, "raised": repr(e)[:200]}
            if not ok and fail is None:
                fail = wit
    r = ObResult(prop="C10", ob=f"{spec.id}/noise_free", config=str(cfg), function=spec.function, engine="standin", backend="native", kind="bounded")
    r.verdict = "discharged" if fail is None else "refuted"
    r.paths = evals
    r.queries = len(msgs)
    r.witness = fail
    r.replay_confirmed = None if fail is None else True
    r.detail = f"bounded: {len(msgs)} codewords of the ({n},{k}) code x magnitudes (0.5, 1, 7.3, 50, random per position) x layouts (B,n), (1,B*n)"
    r.wall_s = round(time.time() - t0, 2)
    return [r]
