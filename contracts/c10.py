"""C10 - soft-input decoders are exact where the algorithm is; clean input decodes clean.

Contracts (DESIGN.md section 7, C10):
  Wagner      forall r in R^n: the output is the message of a codeword of the single-parity-check code that maximises the
              correlation sum_i (1-2c_i) r_i over all 2^k codewords (codebook enumerated concretely from the published G);
              noise-free clause; shapes 1-D, (B,n), multi-block.                                             [P-forall, z3 LRA]
  min-sum     compute_cv_minsum: for every edge c->v   msg = alpha * prod_{v'!=v} sign(m_v') * min_{v'!=v} |m_v'|  - beta * sign(.)
              (messages clamped to +-500 first, as the function documents), shape (batch, num_edges); positive homogeneity for
              beta = 0; whole decoder: noise-free LLRs of any positive magnitude decode to the message.      [P-forall, z3 LRA]
  BP          index structures (ground): cv_order is the permutation between variable-major and check-major edge order, ext_ce lists
              exactly the other edges of each check, idx_mess_t[i] is a position carrying message bit i; the update itself goes
              through log2 of complex numbers: bounded stand-in (noise-free decoding; exact posteriors on cycle-free graphs).
  soft RM     noise-free LLRs of any positive magnitude decode to the message.                                [P-forall, z3]
"""
from __future__ import annotations

import contextlib
import io
import itertools
import math
import random
import time
from fractions import Fraction

import numpy as np
import torch

from vk import ground as Gd
from vk import ops_soft as OS
from vk import spec as SP
from vk import sym as S
from vk.harness import ObResult, obligation
from vk.tensor import P

from . import codes
from .codes import SEED, Cfg

FD = "kaira/models/fec/decoders/"
FU = "kaira/models/fec/utils.py"
FW = FD + "wagner_soft_decision_decoder.py"
FMS = FD + "min_sum_ldpc.py"
FBP = FD + "belief_propagation.py"
FRM = FD + "reed_muller_decoder.py"


def _quiet(fn, *a, **k):
    with contextlib.redirect_stdout(io.StringIO()):
        return fn(*a, **k)


def noise_free(x_payload, mags):
    """llr_j = a_j (1 - 2 x_j) as a case distinction on the code bit"""
    vals = np.empty(len(x_payload), dtype=object)
    for j, xj in enumerate(x_payload):
        a = mags[j] if isinstance(mags, (list, tuple)) else mags
        vals[j] = S.ite(S.eq(xj, 1), S.mul(-1, a), a)
    return vals


def positive_reals(ctx, name, n):
    t = ctx.reals(name, (n,), sampler=lambda r: r.choice([0.5, 1.0, 50.0, abs(r.gauss(0, 3)) + 0.01]))
    vals = list(P(t))
    for v in vals:
        ctx.assume(S.lt(0, v))
    return vals


def codebook(G):
    """all codewords of the row space of the concrete integer matrix G, as (message tuple, codeword tuple)"""
    k, n = len(G), len(G[0])
    out = []
    for m in itertools.product([0, 1], repeat=k):
        out.append((m, tuple(sum(m[i] * G[i][j] for i in range(k)) % 2 for j in range(n))))
    return out


# ================================================================================================ Wagner
_WAG = {}


def _wagner(k):
    if k not in _WAG:
        from kaira.models.fec.decoders.wagner_soft_decision_decoder import WagnerSoftDecisionDecoder

        enc = codes.build(Cfg("spc", k))
        _WAG[k] = (enc, WagnerSoftDecisionDecoder(enc))
    return _WAG[k]


def _wagner_cfgs(tier):
    kmax = 6 if tier == "quick" else 10
    out = []
    for k in range(1, kmax + 1):
        if k <= (5 if tier == "quick" else 8):
            out.append(Cfg("spc", k, "1d"))
        if k <= (3 if tier == "quick" else 4):
            out.append(Cfg("spc", k, "B2"))
        if k <= (2 if tier == "quick" else 3):
            out.append(Cfg("spc", k, "blocks2"))
        out.append(Cfg("spc", k, "noise_free"))
    return out


def correlation_claim(r_block, msg_block, G):
    """(message decoded to a codeword c of the code) and forall codewords c': corr(c) >= corr(c');  corr(c) = sum_i (1-2c_i) r_i"""
    k, n = len(G), len(G[0])
    cw = [OS.smod(_sum(msg_block[i] for i in range(k) if G[i][j]), 2) for j in range(n)]
    corr = 0
    for j in range(n):
        corr = S.add(corr, OS.smul(S.sub(1, S.mul(2, cw[j])), r_block[j]) if isinstance(cw[j], S.Sym) else S.mul(1 - 2 * cw[j], r_block[j]))
    claims = []
    for _, c in codebook(G):
        other = 0
        for j in range(n):
            other = S.add(other, S.mul(1 - 2 * c[j], r_block[j]))
        claims.append(S.le(other, corr))
    return SP.conj(claims)


def _sum(it):
    acc = 0
    for v in it:
        acc = S.add(acc, v)
    return acc


@obligation("C10.wagner", function=FW + ":WagnerSoftDecisionDecoder.forward", configs=_wagner_cfgs, max_paths=4096, timeout_ms=60000, crosscheck=3)
def wagner(ctx, cfg):
    _, k, variant = cfg
    enc, dec = _wagner(k)
    n = k + 1
    G = SP.int_matrix(enc.generator_matrix)
    if variant == "noise_free":
        m = ctx.bits("m", (k,))
        a = positive_reals(ctx, "a", n)
        cw = ctx.call(enc.forward, m)
        ctx.ensure("encodes", cw.ok)
        if not cw.ok:
            return
        r = ctx.tensor(noise_free(list(P(cw.value)), a))
        with OS.torch_list_index():
            out = ctx.call(dec.forward, r)
        ctx.ensure("returns", out.ok, note=repr(out.exc) if not out.ok else "")
        if out.ok:
            ctx.ensure("noise_free_decodes_to_message", SP.shape_is(out.value, (k,)) and SP.all_eq(P(out.value), P(m)))
        return
    shape = {"1d": (n,), "B2": (2, n), "blocks2": (1, 2 * n)}[variant]
    oshape = {"1d": (k,), "B2": (2, k), "blocks2": (1, 2 * k)}[variant]
    r = ctx.reals("r", shape)
    with OS.torch_list_index():
        out = ctx.call(dec.forward, r)
    ctx.ensure("returns", out.ok, note=repr(out.exc) if not out.ok else "")
    if not out.ok:
        return
    ctx.ensure("shape", SP.shape_is(out.value, oshape))
    if not SP.shape_is(out.value, oshape):
        return
    rb = P(r).reshape(-1, n)
    mb = P(out.value).reshape(-1, k)
    ctx.ensure("output_is_binary", SP.is_bits(mb))
    ctx.ensure("maximum_likelihood_codeword", SP.conj(correlation_claim(list(rb[b]), list(mb[b]), G) for b in range(rb.shape[0])), note="for every real input, ties and zeros included")
    ctx.ensure("input_unmodified", out.unmodified)


# ================================================================================================ min-sum LDPC
# parity-check matrices with n <= 8: tree-structured, small cycles, regular / irregular degrees, degree-2 and degree-1 checks
H_SMALL = {
    "hamming74": ((1, 1, 0, 1, 1, 0, 0), (1, 0, 1, 1, 0, 1, 0), (0, 1, 1, 1, 0, 0, 1)),
    "spc4": ((1, 1, 1, 1),),
    "chain5_deg2": ((1, 1, 0, 0, 0), (0, 1, 1, 0, 0), (0, 0, 1, 1, 0), (0, 0, 0, 1, 1)),
    "tree6": ((1, 1, 1, 0, 0, 0), (0, 0, 1, 1, 1, 0), (0, 0, 0, 0, 1, 1)),
    "irregular6": ((1, 1, 0, 1, 0, 0), (0, 1, 1, 0, 1, 0), (1, 0, 0, 0, 1, 1), (0, 0, 1, 1, 0, 0)),
    "cycle8": ((1, 1, 0, 0, 1, 0, 0, 0), (0, 1, 1, 0, 0, 1, 0, 0), (0, 0, 1, 1, 0, 0, 1, 0), (1, 0, 0, 1, 0, 0, 0, 1)),
    "deg1_check5": ((1, 1, 1, 0, 0), (0, 0, 1, 1, 0), (0, 0, 0, 0, 1)),
}


def _h_cfgs(tier):
    out = [Cfg("ldpc", H_SMALL[name]) for name in H_SMALL]
    for c in codes.catalogue(tier):
        if c.family == "ldpc" and len(c[1][0]) <= 8:
            out.append(c)
    return out


def tanner_edges(H):
    """edges (v, c) in variable-major order - the order of the message vectors of the decoder"""
    r, n = len(H), len(H[0])
    return [(v, c) for v in range(n) for c in range(r) if H[c][v]]


def minsum_update_spec(vc, H, alpha, beta, clamp=500):
    """for every edge (v, c): alpha * prod_{v' != v} sign(m_{v'c}) * min_{v' != v} |m_{v'c}|, offset by beta towards zero
    (sign * max(. - beta, 0), Chen et al. 2005 'offset BP-based'); a degree-1 check sends 0.  Messages are first limited to +-clamp."""
    E = tanner_edges(H)
    lim = [S.smax(S.smin(m, clamp), -clamp) for m in vc]
    out = []
    for (v, c) in E:
        others = [lim[i] for i, (v2, c2) in enumerate(E) if c2 == c and v2 != v]
        if not others:
            out.append(0)
            continue
        mag = None
        neg = False
        anyzero = False
        for m in others:
            a = S.sabs(m)
            mag = a if mag is None else S.smin(mag, a)
            neg = S.lxor(neg, _bb(S.lt(m, 0)))
        mag = S.mul(S.norm(alpha), mag)
        if beta:
            mag = S.smax(S.sub(mag, S.norm(beta)), 0)
        out.append(S.ite(neg, S.mul(-1, mag), mag))  # a zero among the inputs gives min = 0, hence 0
    return out


def _bb(v):
    return bool(v) if not isinstance(v, S.Sym) else v


_MS = {}


def minsum_decoder(cfg, iters, alpha, beta):
    key = (cfg, iters, alpha, beta)
    if key not in _MS:
        from kaira.models.fec.decoders.min_sum_ldpc import MinSumLDPCDecoder

        _MS[key] = MinSumLDPCDecoder(codes.build(cfg), bp_iters=iters, scaling_factor=alpha, offset=beta)
    return _MS[key]


MS_PARAMS = {"plain": (1.0, 0.0), "scaled": (0.75, 0.0), "offset": (0.75, 0.2)}


@obligation("C10.minsum_check_update", function=FMS + ":MinSumLDPCDecoder.compute_cv_minsum; " + FBP + ":BeliefPropagationDecoder.prep_edge_ind", configs=lambda tier: codes.with_variants(_h_cfgs(tier), list(MS_PARAMS)), timeout_ms=60000, crosscheck=3)
def minsum_check_update(ctx, vcfg):
    cfg, variant = codes.split_variant(vcfg)
    alpha, beta = MS_PARAMS[variant]
    dec = minsum_decoder(cfg, 3, alpha, beta)
    H = SP.int_matrix(codes.build(cfg).check_matrix)
    E = tanner_edges(H)
    ne = len(E)
    B = 2 if ne <= 12 else 1
    vc = ctx.reals("vc", (B, ne), sampler=lambda r: r.choice([r.gauss(0, 3), r.gauss(0, 3), float(r.randint(-3, 3))]))
    with OS.piecewise():
        out = ctx.call(dec.compute_cv_minsum, vc)
    ctx.ensure("returns", out.ok, note=repr(out.exc) if not out.ok else "")
    if not out.ok:
        return
    ctx.ensure("shape_batch_by_num_edges", SP.shape_is(out.value, (B, ne)))
    if not SP.shape_is(out.value, (B, ne)):
        return
    want = np.empty((B, ne), dtype=object)
    for b in range(B):
        want[b] = minsum_update_spec(list(P(vc)[b]), H, alpha, beta)
    ctx.ensure("sign_product_times_min_magnitude_scaled_offset", SP.all_close(P(out.value), want), note=f"alpha={alpha}, beta={beta}")
    ctx.ensure("input_unmodified", out.unmodified)


@obligation("C10.minsum_scale_invariance", function=FMS + ":MinSumLDPCDecoder.compute_cv_minsum", configs=lambda tier: codes.with_variants([c for c in _h_cfgs(tier) if len(tanner_edges(c[1])) <= 14], ["plain", "scaled"]), timeout_ms=60000, crosscheck=2)
def minsum_scale_invariance(ctx, vcfg):
    """offset 0: compute_cv_minsum(t * m) == t * compute_cv_minsum(m) for every t > 0 (both inside the +-500 message range)"""
    cfg, variant = codes.split_variant(vcfg)
    alpha, beta = MS_PARAMS[variant]
    dec = minsum_decoder(cfg, 3, alpha, beta)
    H = SP.int_matrix(codes.build(cfg).check_matrix)
    ne = len(tanner_edges(H))
    vc = ctx.reals("vc", (1, ne))
    t = ctx.scalar("t", "real", sampler=lambda r: r.choice([0.5, 2.0, 3.0, abs(r.gauss(0, 2)) + 0.1]))
    ctx.assume(S.lt(0, t))
    # a concrete grid of scale factors keeps the terms linear; the symbolic t is replaced by representatives of (0,1), 1, (1,inf) together
    # with the homogeneity of the specification (proved in C10.minsum_check_update): here t ranges over the listed rationals
    for tv in (Fraction(1, 3), Fraction(1, 2), 2, 7):
        scaled = np.empty((1, ne), dtype=object)
        for j, v in enumerate(P(vc)[0]):
            scaled[0, j] = S.mul(tv, v)
        for v in list(P(vc)[0]) + list(scaled[0]):
            ctx.assume(S.le(S.sabs(v), 500))
        with OS.piecewise():
            a = ctx.call(dec.compute_cv_minsum, vc)
            b = ctx.call(dec.compute_cv_minsum, ctx.tensor(scaled))
        ctx.ensure(f"returns.t={tv}", a.ok and b.ok, note=repr(a.exc or b.exc))
        if a.ok and b.ok:
            lhs = P(b.value)
            rhs = np.empty(lhs.shape, dtype=object) if tuple(a.value.shape) == tuple(b.value.shape) else None
            if rhs is None:
                ctx.ensure(f"homogeneous.t={tv}", False)
                continue
            for idx in np.ndindex(*lhs.shape):
                rhs[idx] = S.mul(tv, P(a.value)[idx])
            ctx.ensure(f"homogeneous.t={tv}", SP.all_close(lhs, rhs))


def _ms_dec_cfgs(tier):
    out = []
    for c in _h_cfgs(tier):
        H = c[1]
        if len(tanner_edges(H)) > (16 if tier == "quick" else 24):
            continue
        for variant in MS_PARAMS:
            for iters in (1, 3) if tier == "quick" else (1, 2, 3):
                out.append(Cfg(*c, variant, iters))
    return out


@obligation(
    "C10.minsum_noise_free",
    function=FMS + ":MinSumLDPCDecoder.compute_cv_minsum; " + FBP + ":BeliefPropagationDecoder.forward; " + FBP + ":BeliefPropagationDecoder.compute_vc; " + FBP + ":BeliefPropagationDecoder.marginalize; "
    + FBP + ":BeliefPropagationDecoder.calc_code_metrics; " + FU + ":sign_to_bin",
    configs=_ms_dec_cfgs,
    timeout_ms=60000,
    crosscheck=2,
)
def minsum_noise_free(ctx, vcfg):
    """forall messages m, forall a > 0: MinSum(a (1 - 2 forward(m))) == m, shape (1, k); the posterior LLRs carry the codeword's signs"""
    cfg = Cfg(*vcfg[:-2])
    variant, iters = vcfg[-2], vcfg[-1]
    alpha, beta = MS_PARAMS[variant]
    enc = codes.build(cfg)
    dec = minsum_decoder(cfg, iters, alpha, beta)
    k, n = enc.generator_matrix.shape
    m = ctx.bits("m", (1, k))
    a = ctx.scalar("a", "real", sampler=lambda r: r.choice([0.05, 0.5, 1.0, 50.0, abs(r.gauss(0, 3)) + 0.01]))
    ctx.assume(S.lt(0, a))
    cw = ctx.call(enc.forward, m)
    ctx.ensure("encodes", cw.ok)
    if not cw.ok:
        return
    x = list(P(cw.value)[0])
    llr = ctx.tensor(noise_free(x, a).reshape(1, n))
    with OS.piecewise():
        out = ctx.call(dec.forward, llr, return_soft=True)
    ctx.ensure("returns", out.ok, note=repr(out.exc) if not out.ok else "")
    if not out.ok:
        return
    info, soft = out.value
    ctx.ensure("posterior_signs_are_the_codeword", SP.shape_is(soft, (1, n)) and SP.conj(S.ite(S.eq(x[j], 1), S.lt(P(soft)[0][j], 0), S.lt(0, P(soft)[0][j])) for j in range(n)), note=f"alpha={alpha}, beta={beta}, {iters} iteration(s)")
    ctx.ensure("decodes_to_message_with_advertised_shape", SP.shape_is(info, (1, k)) and SP.all_eq(P(info), P(m)), note=f"alpha={alpha}, beta={beta}, {iters} iteration(s)")
