"""C14 (Gray utilities part) - kaira/modulations/utils.py:binary_to_gray, gray_to_binary.   Engine E1, BV(64) mode.

The real source is symbolically executed over 64-bit vectors (precondition 0 <= n < 2^64; the `while` loop of gray_to_binary
is unrolled 65 times with an unwinding assertion), giving one closed term per function ("summary").  The obligations are
stated on those summaries, for ALL n < 2^64:
    gray_encode_spec     binary_to_gray(n) == n ^ (n >> 1)                       (reflected binary Gray code)
    gray_decode_spec     enc(gray_to_binary(g)) == g, enc(n) = n ^ (n >> 1)      (decoder inverts the specified code)
    gray_roundtrip       gray_to_binary(binary_to_gray(n)) == n  and  binary_to_gray(gray_to_binary(n)) == n
    gray_adjacent        binary_to_gray(n) and binary_to_gray(n+1) differ in exactly one bit
    gray_nonneg          non-negative input returns normally a non-negative value (no exception path is feasible)
    gray_negative        (unbounded Int mode) n < 0  =>  ValueError
Known wrong inputs are NOT special-cased away: every obligation first reports what it finds (verdict refuted + replay on the
real function), then re-asks the solver with all calls on KNOWN_* arguments excluded and reports that under '<id>/other_inputs'.
"""
from __future__ import annotations

import time

import z3

from vk.e1 import theory as T
from vk.e1.check import feasible, verify_function
from vk.e1.contract import Contract, register
from vk.e1.source import FnSrc, Outside
from vk.e1.vcgen import Exec, RoleMissing
from vk.harness import ObResult, obligation

U = "kaira/modulations/utils.py:"
B2G, G2B = U + "binary_to_gray", U + "gray_to_binary"
W = 64
KNOWN_GRAY_WITNESSES = [1023]  # arguments of binary_to_gray known to give a wrong value (hard-coded, pinned by a test)
KNOWN_GRAY_INVERSE_WITNESSES = [1365]  # arguments of gray_to_binary known to give a wrong value

_small = lambda cfg: ({"num": v} for v in range(1 << 12))
for _k in (B2G, G2B):
    register(Contract(key=_k, types={"num": "int"}, returns="int", mode=f"bv{W}",
                      ensures=lambda a, res, w: {"in_range": z3.ULE(res, z3.BitVecVal(2**W - 1, W)) if isinstance(res, z3.ExprRef) else 0 <= res < 2**W},
                      raises=(("ValueError", lambda a: False),), small=_small, small_desc="all n < 2^12"))

NEG = {k: Contract(key=k, types={"num": "int"}, returns="int", mode="int", requires=lambda a: a.num < 0,
                   raises=(("ValueError", lambda a: a.num < 0),), ensures=lambda a, res, w: {},
                   small=lambda cfg: ({"num": v} for v in range(-2048, 0)), small_desc="all -2^11 <= n < 0") for k in (B2G, G2B)}


def _cfg(tier):
    return [f"bv{W}"]


def summary(key):
    """closed BV term of the real function: (var, value term, raises condition, notes)"""
    src = FnSrc(key)
    from vk.e1.contract import CONTRACTS

    ex = Exec(src, CONTRACTS[key], f"bv{W}", "vc", None, feasible=feasible)
    x = z3.BitVec("arg!" + src.name, W)
    exits = ex.run_vc({src.params[0]: x})
    val, rz = None, []
    for kind, payload, st, _o in reversed(exits):
        pc = z3.And(*st.pc) if st.pc else z3.BoolVal(True)
        if kind == "raise":
            rz.append(pc)
            continue
        v = payload if isinstance(payload, z3.ExprRef) else z3.BitVecVal(int(payload), W)
        val = v if val is None else z3.If(pc, v, val)
    unwind = [vc for vc in ex.vcs if ".unwind" in vc.name]
    return src, x, val, (z3.Or(*rz) if rz else z3.BoolVal(False)), unwind, ex.notes


def _apply(summ, arg):
    _src, x, val, rz, _u, _n = summ
    return z3.substitute(val, (x, arg)), z3.substitute(rz, (x, arg))


def _bv_obligations(spec, cfg, clauses):
    """clauses: name -> (formula builder(n, enc, dec) -> (P, [(fn key, arg term)], side), native predicate(n, b2g, g2b) -> bool)"""
    out = []
    t_all = time.time()
    try:
        SE, SD = summary(B2G), summary(G2B)
    except (Outside, RoleMissing) as e:
        return [ObResult(prop=spec.prop, ob=f"{spec.id}/vcgen", config=str(cfg), function=spec.function, engine="E1", backend="-", verdict="undecided", detail=f"outside E1: {e}")]
    mod = SE[0].module
    b2g, g2b = mod.binary_to_gray, mod.gray_to_binary
    n = z3.BitVec("n", W)
    calls = []

    def enc(t):
        calls.append((B2G, t))
        return _apply(SE, t)[0]

    def dec(t):
        calls.append((G2B, t))
        return _apply(SD, t)[0]

    def native_fails(pred, k):
        try:
            return not pred(k, b2g, g2b)
        except Exception:
            return True

    for name, (build, pred) in clauses.items():
        calls.clear()
        P, side = build(n, enc, dec)
        these = list(calls)
        excl = z3.And(*[z3.And(*[t != z3.BitVecVal(k, W) for k in (KNOWN_GRAY_WITNESSES if fn == B2G else KNOWN_GRAY_INVERSE_WITNESSES)]) for fn, t in these])
        for variant, extra in (("", None), ("/other_inputs", excl)):
            t0 = time.time()
            r = ObResult(prop=spec.prop, ob=f"{spec.id}/{name}{variant}", config=str(cfg), function=spec.function, engine="E1", backend="z3", kind="proof", source={"pins": [SE[0].pin(), SD[0].pin()]})
            out.append(r)
            s = z3.Solver()
            s.set("timeout", 60000)
            s.add(side, z3.Not(P))
            if extra is not None:
                s.add(extra)
            wit = None
            if extra is None:
                for k in KNOWN_GRAY_WITNESSES + KNOWN_GRAY_INVERSE_WITNESSES:  # does the engine itself find the known input?
                    if s.check(n == z3.BitVecVal(k, W)) == z3.sat and native_fails(pred, k):
                        wit = k
                        r.detail = f"solver model n={k} (query restricted to the known witnesses first) replayed on the real functions: clause fails"
                        break
            if wit is None:
                res = s.check()
                r.solver_s = round(time.time() - t0, 3)
                if res == z3.unsat:
                    r.verdict = "discharged"
                    r.detail = f"for all n < 2^{W}" + ("" if extra is None else f" whose calls avoid binary_to_gray({KNOWN_GRAY_WITNESSES}) / gray_to_binary({KNOWN_GRAY_INVERSE_WITNESSES})")
                    r.wall_s = round(time.time() - t0, 3)
                    continue
                if res == z3.unknown:
                    # concrete search on the real functions, exhaustive below 2^16 (never 'discharged' from here)
                    known = set(KNOWN_GRAY_WITNESSES + KNOWN_GRAY_INVERSE_WITNESSES)
                    wit = next((k for k in range(1 << 16) if native_fails(pred, k) and (extra is None or _avoids_known(k, known, b2g, g2b))), None)
                    if wit is None:
                        r.verdict = "undecided"
                        r.detail = f"z3 unknown ({s.reason_unknown()}); no failing input among all n < 2^16 on the real functions"
                        continue
                    r.witness, r.verdict, r.replay_confirmed, r.backend = {"n": wit}, "refuted", True, "native"
                    r.detail = f"z3 unknown ({s.reason_unknown()}); exhaustive search below 2^16 on the real functions found n={wit}"
                    continue
                wit = s.model().eval(n, model_completion=True).as_long()
                r.detail = f"solver model n={wit} replayed on the real functions"
            r.witness = {"n": wit}
            if native_fails(pred, wit):
                r.verdict, r.replay_confirmed = "refuted", True
            else:
                r.verdict, r.replay_confirmed = "error", False
                r.detail += ": NOT reproduced natively (engine discrepancy)"
            r.wall_s = round(time.time() - t0, 3)
    # unwinding assertions of the decoder loop belong to every obligation that uses the summary
    for vc in SD[4] + SE[4]:
        s = z3.Solver()
        s.add(*vc.hyps)
        s.add(z3.Not(vc.goal))
        res = s.check()
        out.append(ObResult(prop=spec.prop, ob=f"{spec.id}/{vc.name}", config=str(cfg), function=G2B, engine="E1", backend="z3", kind="proof",
                            verdict="discharged" if res == z3.unsat else "undecided", detail=f"unwinding assertion: guard false after {W + 1} iterations"))
    if out:
        out[0].detail += " | extraction drops: " + "; ".join(sorted(set(SE[5] + SD[5])))
    return out


def _avoids_known(k, known, b2g, g2b):
    try:
        return not ({k, k + 1, b2g(k), g2b(k)} & known)
    except Exception:
        return True


def _pop1(d):
    return z3.And(d != 0, d & (d - 1) == 0)


def _spec_enc(t):
    return t ^ z3.LShR(t, 1)


@obligation("C14.gray_encode_spec", function=B2G, configs=_cfg, kind="custom", engine="E1")
def gray_encode_spec(spec, cfg, tier, seed):
    return _bv_obligations(spec, cfg, {
        "reflected_code": (lambda n, enc, dec: (enc(n) == _spec_enc(n), z3.BoolVal(True)), lambda k, b2g, g2b: b2g(k) == k ^ (k >> 1)),
    })


@obligation("C14.gray_decode_spec", function=G2B, configs=_cfg, kind="custom", engine="E1")
def gray_decode_spec(spec, cfg, tier, seed):
    return _bv_obligations(spec, cfg, {
        "inverts_reflected_code": (lambda n, enc, dec: (_spec_enc(dec(n)) == n, z3.BoolVal(True)), lambda k, b2g, g2b: (lambda d: d ^ (d >> 1) == k)(g2b(k))),
    })


@obligation("C14.gray_roundtrip", function=B2G + "; " + G2B, configs=_cfg, kind="custom", engine="E1")
def gray_roundtrip(spec, cfg, tier, seed):
    return _bv_obligations(spec, cfg, {
        "decode_encode": (lambda n, enc, dec: (dec(enc(n)) == n, z3.BoolVal(True)), lambda k, b2g, g2b: g2b(b2g(k)) == k),
        "encode_decode": (lambda n, enc, dec: (enc(dec(n)) == n, z3.BoolVal(True)), lambda k, b2g, g2b: b2g(g2b(k)) == k),
    })


@obligation("C14.gray_adjacent", function=B2G, configs=_cfg, kind="custom", engine="E1")
def gray_adjacent(spec, cfg, tier, seed):
    return _bv_obligations(spec, cfg, {
        "hamming_distance_one": (lambda n, enc, dec: (_pop1(enc(n) ^ enc(n + 1)), n != z3.BitVecVal(2**W - 1, W)), lambda k, b2g, g2b: bin(b2g(k) ^ b2g(k + 1)).count("1") == 1),
    })


@obligation("C14.gray_nonneg", function=B2G + "; " + G2B, configs=lambda tier: [B2G, G2B], kind="custom", engine="E1")
def gray_nonneg(spec, cfg, tier, seed):
    """0 <= n < 2^64 returns normally (no feasible raise path), value stays in [0, 2^64); plus cover, unwinding assertion and
    the differential check of the interpreter"""
    return verify_function(spec, str(cfg), f"bv{W}", tier, seed, sid=f"{spec.id}.{str(cfg).split(':')[1]}")


@obligation("C14.gray_negative", function=B2G + "; " + G2B, configs=lambda tier: [B2G, G2B], kind="custom", engine="E1")
def gray_negative(spec, cfg, tier, seed):
    """unbounded Int mode: every negative input raises ValueError"""
    return verify_function(spec, str(cfg), "int", tier, seed, sid=f"{spec.id}.{str(cfg).split(':')[1]}", contract=NEG[str(cfg)])
