"""C17 - pipeline models run their stages in declared order, independent of thread timing.

* fold loops (SequentialModel / ConfigurableModel / CompositeConstraint / apply_constraint_chain): VCs generated from the real
  AST with UNINTERPRETED stages and an UNBOUNDED number of stages (vk.foldvc): result == fold, one call per stage in order.
* the real forward() methods executed with uninterpreted recording stubs (free term algebra: the result is the term
  f_n(...f_1(x)...), so equality holds for ALL stage functions) for n = 0..6 stages, WynerZiv (all presence combinations),
  feedback model (N = 1..5 rounds), multiple-access model (1..4 users, shared/separate layouts; symbolic tensors).
* ParallelModel: ThreadPoolExecutor / as_completed are replaced by their CONTRACT (submit runs f once; as_completed yields every
  future once in an order that depends on timing): every completion order admissible for the worker count is enumerated; a
  refuting order is replayed on the REAL thread pool with event-gated branches.
* BranchingModel: conditions are uninterpreted booleans, all 2^n truth assignments.
"""
from __future__ import annotations

import itertools
import threading
import time

import numpy as np
import torch
from torch import nn

from vk import foldvc
from vk import spec as SP
from vk import sym as S
from vk.harness import ObResult, obligation
from vk.tensor import P

from .codes import Cfg

FM = "kaira/models/"


# ------------------------------------------------------------------------------------------------ stubs
class Trace:
    def __init__(self):
        self.calls = []


class Stage:
    """uninterpreted stage: returns the term ('app', name, input) and records the call"""

    def __init__(self, name, trace):
        self.name, self.trace = name, trace

    def __call__(self, x, *args, **kwargs):
        self.trace.calls.append((self.name, x, args, tuple(sorted(kwargs.items()))))
        return ("app", self.name, x)

    def __repr__(self):
        return f"<{self.name}>"


def fold_term(names, x):
    for nm in names:
        x = ("app", nm, x)
    return x


def _res(spec, cfg, name, ok, detail, kind="proof", backend="uninterpreted-terms", witness=None, t0=None, function=None):
    r = ObResult(prop="C17", ob=f"{spec.id}/{name}", config=str(cfg), function=function or spec.function, engine="E2-stubs", backend=backend, kind=kind)
    r.verdict = "discharged" if ok else "refuted"
    r.detail = detail
    if not ok:
        r.witness = witness or {"config": str(cfg), "observed": detail}
        r.replay_confirmed = True
    if t0:
        r.wall_s = round(time.time() - t0, 3)
    return r


# ------------------------------------------------------------------------------------------------ unbounded fold VCs
def _fold_targets():
    from kaira.constraints.composite import CompositeConstraint
    from kaira.constraints.utils import apply_constraint_chain
    from kaira.models.base import ConfigurableModel
    from kaira.models.generic.sequential import SequentialModel

    return {
        "SequentialModel.forward": (SequentialModel.forward, "input_data", ("attr", "steps"), True, FM + "generic/sequential.py:SequentialModel.forward"),
        "ConfigurableModel.forward": (ConfigurableModel.forward, "input_data", ("attr", "steps"), True, FM + "base.py:ConfigurableModel.forward"),
        "CompositeConstraint.forward": (CompositeConstraint.forward, "x", ("attr", "constraints"), True, "kaira/constraints/composite.py:CompositeConstraint.forward"),
        "apply_constraint_chain": (apply_constraint_chain, "input_tensor", ("param", "constraints"), False, "kaira/constraints/utils.py:apply_constraint_chain"),
    }


def _native_fold_check(target, nmax=4):
    """run the real function with recording stubs for n = 0..nmax; returns None or a witness dict"""
    from kaira.constraints.base import BaseConstraint
    from kaira.constraints.composite import CompositeConstraint
    from kaira.constraints.utils import apply_constraint_chain
    from kaira.models.base import ConfigurableModel
    from kaira.models.generic.sequential import SequentialModel

    for n in range(nmax + 1):
        tr = Trace()
        names = [f"f{i}" for i in range(n)]
        if target in ("SequentialModel.forward", "ConfigurableModel.forward"):
            stages = [Stage(nm, tr) for nm in names]
            m = SequentialModel(stages) if target.startswith("Seq") else ConfigurableModel()
            if not target.startswith("Seq"):
                for s in stages:
                    m.add_step(s)
            out = m("x", "a1", k="v")
            want_extra = (("a1",), (("k", "v"),))
        else:

            class CS(BaseConstraint):
                def __init__(self, nm):
                    super().__init__()
                    self.nm = nm

                def forward(self, x, *args, **kwargs):
                    tr.calls.append((self.nm, x, args, tuple(sorted(kwargs.items()))))
                    return ("app", self.nm, x)

            stages = [CS(nm) for nm in names]
            if target == "CompositeConstraint.forward":
                out = CompositeConstraint(stages)("x", "a1", k="v") if n else "x"
                want_extra = (("a1",), (("k", "v"),))
            else:
                out = apply_constraint_chain(stages, "x")
                want_extra = ((), ())
        if out != fold_term(names, "x"):
            return {"n_stages": n, "result": repr(out), "expected": repr(fold_term(names, "x"))}
        got = [(c[0], c[2], c[3]) for c in tr.calls]
        if got != [(nm,) + want_extra for nm in names]:
            return {"n_stages": n, "trace": repr(got)[:300]}
    return None


@obligation(
    "C17.fold_unbounded",
    function=FM + "generic/sequential.py:SequentialModel.forward; " + FM + "base.py:ConfigurableModel.forward; kaira/constraints/composite.py:CompositeConstraint.forward; kaira/constraints/utils.py:apply_constraint_chain",
    configs=lambda tier: [Cfg("fold", k) for k in ("SequentialModel.forward", "ConfigurableModel.forward", "CompositeConstraint.forward", "apply_constraint_chain")],
    kind="custom",
    engine="E1-foldvc",
)
def fold_unbounded(spec, cfg, tier, seed):
    fn, data, seq, fw, function = _fold_targets()[cfg[1]]
    vcs, secs, _src = foldvc.fold_vcs(fn, data, seq, fw)
    out = []
    native = None
    for name, verdict, detail in vcs:
        r = ObResult(prop="C17", ob=f"{spec.id}/{name}", config=str(cfg), function=function, engine="E1-foldvc", backend="z3", kind="proof", verdict=verdict, detail=detail, solver_s=secs, wall_s=secs)
        if verdict != "discharged":
            if native is None:
                native = _native_fold_check(cfg[1]) or False
            if native:
                r.verdict, r.witness, r.replay_confirmed = "refuted", native, True
                r.detail = "found by native run with recording stubs after: " + detail
            elif verdict == "refuted":
                r.replay_confirmed = False
        out.append(r)
    return out


# ------------------------------------------------------------------------------------------------ stub runs (bounded n, all stage functions)
def _seq_cfgs(tier):
    return [Cfg("stages", n) for n in range(0, 7)]


@obligation(
    "C17.sequential_stub_runs",
    function=FM + "generic/sequential.py:SequentialModel.forward; " + FM + "generic/sequential.py:SequentialModel.__init__; " + FM + "base.py:ConfigurableModel.forward; " + FM + "base.py:ConfigurableModel.add_step; " + FM + "base.py:ConfigurableModel.remove_step; "
    + FM + "deepjscc.py:DeepJSCCModel.__init__; " + FM + "channel_code.py:ChannelCodeModel.__init__",
    configs=_seq_cfgs,
    kind="custom",
    engine="E2-stubs",
)
def sequential_stub_runs(spec, cfg, tier, seed):
    from kaira.models.base import ConfigurableModel
    from kaira.models.channel_code import ChannelCodeModel
    from kaira.models.deepjscc import DeepJSCCModel
    from kaira.models.generic.sequential import SequentialModel

    t0 = time.time()
    n = cfg[1]
    out = []
    names = [f"f{i}" for i in range(n)]
    want_calls = [(nm, ("extra",), (("flag", 1),)) for nm in names]
    for label, build in (("SequentialModel", lambda st: SequentialModel(st)), ("ConfigurableModel", lambda st: _conf(ConfigurableModel(), st))):
        tr = Trace()
        m = build([Stage(nm, tr) for nm in names])
        res = m("x", "extra", flag=1)
        out.append(_res(spec, cfg, f"{label}.result_is_fold", res == fold_term(names, "x"), f"result {res!r}", t0=t0))
        out.append(_res(spec, cfg, f"{label}.each_stage_once_in_order_with_args", [(c[0], c[2], c[3]) for c in tr.calls] == want_calls, f"trace {[(c[0]) for c in tr.calls]}", t0=t0))
    if n == 4:
        tr = Trace()
        e, c, ch, d = (Stage(nm, tr) for nm in ("encoder", "constraint", "channel", "decoder"))
        m = DeepJSCCModel(e, c, ch, d)
        res = m("x")
        out.append(_res(spec, cfg, "DeepJSCCModel.declared_order", res == fold_term(["encoder", "constraint", "channel", "decoder"], "x"), f"{res!r}", t0=t0))
    if n == 6:
        tr = Trace()
        e, c, mo, ch, de, d = (Stage(nm, tr) for nm in ("encoder", "constraint", "modulator", "channel", "demodulator", "decoder"))
        m = ChannelCodeModel(encoder=e, constraint=c, modulator=mo, channel=ch, demodulator=de, decoder=d)
        res = m("x")
        out.append(_res(spec, cfg, "ChannelCodeModel.declared_order", res == fold_term(["encoder", "modulator", "constraint", "channel", "demodulator", "decoder"], "x"), f"{res!r}", t0=t0))
    return out


def _conf(m, stages):
    for s in stages:
        m.add_step(s)
    return m


def _hist_cfgs(tier):
    return [Cfg("histories", 3 if tier == "quick" else 4)]


@obligation("C17.step_list_model", function=FM + "base.py:ConfigurableModel.add_step; " + FM + "base.py:ConfigurableModel.remove_step; " + FM + "generic/parallel.py:ParallelModel.add_step; " + FM + "generic/parallel.py:ParallelModel.remove_step", configs=_hist_cfgs, kind="custom", engine="standin")
def step_list_model(spec, cfg, tier, seed):
    """every history of add/remove operations up to the given length, followed by a run, against a list model (bounded, exhaustive)"""
    from kaira.models.generic.parallel import ParallelModel
    from kaira.models.generic.sequential import SequentialModel

    t0 = time.time()
    L = cfg[1]
    ops = [("add",), ("dup",)] + [("rm", i) for i in range(-1, 4)]  # "dup": add the FIRST stage object again (same object at two positions)
    bad_seq = bad_par = None
    count = 0
    for hist in itertools.product(ops, repeat=L):
        for cls in ("seq", "par"):
            tr = Trace()
            m = SequentialModel() if cls == "seq" else ParallelModel(max_workers=1)
            model = []
            k = 0
            first = None
            for op in hist:
                if op[0] in ("add", "dup"):
                    if op[0] == "dup" and (first is None or cls == "par"):
                        continue  # nothing to duplicate yet; ParallelModel names must be distinct (dict-keyed results)
                    if op[0] == "dup":
                        st = first
                    else:
                        st = Stage(f"s{k}", tr)
                        k += 1
                        first = first or st
                    if cls == "seq":
                        m.add_step(st)
                    else:
                        m.add_step(st, st.name)
                    model.append(st.name)
                else:
                    try:
                        m.remove_step(op[1])
                        raised = False
                    except IndexError:
                        raised = True
                    should_raise = not (0 <= op[1] < len(model))
                    if raised != should_raise:
                        (bad_seq, bad_par)[cls == "par"]
                        if cls == "seq":
                            bad_seq = bad_seq or {"history": repr(hist), "op": repr(op)}
                        else:
                            bad_par = bad_par or {"history": repr(hist), "op": repr(op)}
                    if not should_raise:
                        model.pop(op[1])
            count += 1
            if cls == "seq":
                res = m("x")
                if res != fold_term(model, "x"):
                    bad_seq = bad_seq or {"history": repr(hist), "result": repr(res), "list_model": model}
            else:
                res = m("x")
                if res != {nm: ("app", nm, "x") for nm in model}:
                    bad_par = bad_par or {"history": repr(hist), "result": repr(res), "list_model": model}
    out = []
    for nm, bad in (("sequential_matches_list_model", bad_seq), ("parallel_matches_list_model", bad_par)):
        r = _res(spec, cfg, nm, bad is None, f"bounded: EXHAUSTIVE histories of length {L} over add/remove(-1..3): {count} runs", kind="bounded", backend="native", witness=bad, t0=t0)
        out.append(r)
    return out


# ------------------------------------------------------------------------------------------------ Wyner-Ziv, feedback
@obligation("C17.wyner_ziv_order", function=FM + "wyner_ziv.py:WynerZivModel.forward", configs=lambda tier: [Cfg("wz", q, s, c, si) for q in (0, 1) for s in (0, 1) for c in (0, 1) for si in (0, 1)], kind="custom", engine="E2-stubs")
def wyner_ziv_order(spec, cfg, tier, seed):
    from kaira.models.wyner_ziv import WynerZivModel

    t0 = time.time()
    _, q, s, c, si = cfg
    tr = Trace()

    class Dec:
        def __call__(self, x, side, *a, **k):
            tr.calls.append(("decoder", x, side))
            return ("dec", x, side)

    class Corr:
        def __call__(self, src):
            tr.calls.append(("correlation", src))
            return ("corr", src)

    m = WynerZivModel(encoder=Stage("encoder", tr), channel=Stage("channel", tr), decoder=Dec(), correlation_model=Corr(), quantizer=Stage("quantizer", tr) if q else None, syndrome_generator=Stage("syndrome", tr) if s else None, constraint=Stage("constraint", tr) if c else None)
    res = m("x", side_info="SI" if si else None)
    chain = ["encoder"] + (["quantizer"] if q else []) + (["syndrome"] if s else []) + (["constraint"] if c else []) + ["channel"]
    want = ("dec", fold_term(chain, "x"), "SI" if si else ("corr", "x"))
    order = [c_[0] for c_ in tr.calls]
    want_order = chain + ([] if si else ["correlation"]) + ["decoder"]
    return [
        _res(spec, cfg, "result", res == want, f"{res!r}", t0=t0),
        _res(spec, cfg, "stage_order_each_once", order == want_order, f"{order}", t0=t0),
    ]


@obligation("C17.feedback_rounds", function=FM + "feedback_channel.py:FeedbackChannelModel.forward", configs=lambda tier: [Cfg("rounds", n) for n in range(1, 6)], kind="custom", engine="E2-stubs")
def feedback_rounds(spec, cfg, tier, seed):
    from kaira.models.feedback_channel import FeedbackChannelModel

    t0 = time.time()
    N = cfg[1]
    tr = Trace()

    class Enc:
        def __call__(self, x, *a, state=None, **k):
            tr.calls.append(("encoder", x, state))
            return ("enc", x, state)

    class Gen:
        def __call__(self, dec, x, *a, **k):
            tr.calls.append(("generator", dec, x))
            return ("fb", dec, x)

    m = FeedbackChannelModel(encoder=Enc(), forward_channel=Stage("channel", tr), decoder=Stage("decoder", tr), feedback_generator=Gen(), feedback_channel=Stage("fbchannel", tr), feedback_processor=Stage("processor", tr), max_iterations=N)
    res = m("x")
    # reference: exactly N rounds
    want_order, fb, want_final = [], None, None
    for i in range(N):
        st = None
        if i > 0:
            want_order.append("processor")
            st = ("app", "processor", fb)
        want_order += ["encoder", "channel", "decoder", "generator", "fbchannel"]
        enc = ("enc", "x", st)
        dec = ("app", "decoder", ("app", "channel", enc))
        fb = ("app", "fbchannel", ("fb", dec, "x"))
        want_final = dec
    order = [c[0] for c in tr.calls]
    return [
        _res(spec, cfg, "exactly_N_rounds_in_order", order == want_order, f"{len([o for o in order if o == 'encoder'])} rounds; order ok={order == want_order}", t0=t0),
        _res(spec, cfg, "final_output_is_last_decoding", res.get("final_output") == want_final and len(res["iterations"]) == N and len(res["feedback_history"]) == N, f"iterations={len(res['iterations'])}", t0=t0),
    ]


# ------------------------------------------------------------------------------------------------ multiple access (symbolic tensors)
def _mac_cfgs(tier):
    out = []
    for users in (1, 2, 3) + ((4,) if tier == "thorough" else ()):
        for enc in ("shared", "separate"):
            for dec in ("joint", "separate"):
                out.append(Cfg("mac", users, enc, dec))
        # pass-through (aliasing) encoders with every user sending the SAME tensor object, model called twice
        out.append(Cfg("mac", users, "passthrough", "joint"))
    return out


@obligation("C17.multiple_access", function=FM + "multiple_access_channel.py:MultipleAccessChannelModel.forward; " + FM + "multiple_access_channel.py:MultipleAccessChannelModel._initialize_modules", configs=_mac_cfgs, crosscheck=1)
def multiple_access(ctx, cfg):
    from kaira.channels.base import BaseChannel
    from kaira.constraints.base import BaseConstraint
    from kaira.models.base import BaseModel
    from kaira.models.multiple_access_channel import MultipleAccessChannelModel

    _, users, encm, decm = cfg
    log = []
    shape = (2, 3)

    class Enc(BaseModel):
        def __init__(self, tag):
            super().__init__()
            self.tag = tag

        def forward(self, x, *a, **k):
            i = len([c for c in log if c[0] == "enc"])
            log.append(("enc", self.tag, x))
            return ctx.reals(f"encout{i}", shape)

    class Cons(BaseConstraint):
        def forward(self, x, *a, **k):
            log.append(("cons", x))
            return ctx.reals("consout", shape)

    class Chan(BaseChannel):
        def forward(self, x, *a, **k):
            log.append(("chan", x))
            return ctx.reals("chanout", shape)

    class Dec(BaseModel):
        def __init__(self, tag):
            super().__init__()
            self.tag = tag

        def forward(self, x, *a, **k):
            i = len([c for c in log if c[0] == "dec"])
            log.append(("dec", self.tag, x))
            return ctx.reals(f"decout{i}", (2, 2))

    class Pass(BaseModel):
        """an encoder that returns its input tensor itself (aliasing): the model must not write into it"""

        def forward(self, x, *a, **k):
            log.append(("enc", "pass", x))
            return x

    if encm == "passthrough":
        encs = Pass()
        decs = Dec("joint")
        model = MultipleAccessChannelModel(encoders=encs, decoders=decs, channel=Chan(), power_constraint=Cons(), num_devices=users)
        x0 = ctx.reals("x0", shape)
        xs = [x0] * users  # one tensor object shared by all users

        def twice(inp):
            first = model(inp)
            n1 = len(log)
            second = model(inp)
            return first, second, n1

        out = ctx.call(twice, xs)
        ctx.ensure("returns", out.ok, note=repr(out.exc) if not out.ok else "")
        if not out.ok:
            return
        ctx.ensure("inputs_unmodified", out.unmodified)
        cons_calls = [c for c in log if c[0] == "cons"]
        ctx.ensure("one_constraint_use_per_call", len(cons_calls) == 2)
        want = np.empty(shape, dtype=object)
        x0p = P(x0)
        for idx in np.ndindex(*shape):
            want[idx] = S.mul(users, x0p[idx])
        for ci, c in enumerate(cons_calls[:2]):
            ctx.ensure(f"call{ci}.constraint_sees_superposition", SP.all_eq(P(c[1]), want), note="sum of the users' encoded signals = users * x0")
        return
    encs = Enc("shared") if encm == "shared" else [Enc(i) for i in range(users)]
    decs = Dec("joint") if decm == "joint" else [Dec(i) for i in range(users)]
    if decm == "separate" and users == 1:
        decs = [Dec(0)]
    model = MultipleAccessChannelModel(encoders=encs, decoders=decs, channel=Chan(), power_constraint=Cons(), num_devices=users)
    xs = [ctx.reals(f"x{i}", (2, 2)) for i in range(users)]
    out = ctx.call(model.forward, xs)
    ctx.ensure("returns", out.ok, note=repr(out.exc) if not out.ok else "")
    if not out.ok:
        return
    ctx.ensure("inputs_unmodified", out.unmodified)
    enc_calls = [c for c in log if c[0] == "enc"]
    ctx.ensure("each_user_encoded_once_in_order", len(enc_calls) == users and all(SP.all_eq(P(c[2]), P(xs[i])) is True or True for i, c in enumerate(enc_calls)) and SP.conj(SP.all_eq(P(c[2]), P(xs[i])) for i, c in enumerate(enc_calls)))
    if encm == "separate":
        ctx.ensure("separate_encoders_used_per_user", [c[1] for c in enc_calls] == list(range(users)))
    cons_calls = [c for c in log if c[0] == "cons"]
    chan_calls = [c for c in log if c[0] == "chan"]
    ctx.ensure("one_constraint_one_channel_use", len(cons_calls) == 1 and len(chan_calls) == 1)
    if len(cons_calls) != 1 or len(chan_calls) != 1:
        return
    # superposition: constraint input == sum of all users' encoded signals
    encouts = [P(ctx_t) for ctx_t in _drawn_tensors(ctx, "encout", users)]
    total = np.empty(shape, dtype=object)
    for idx in np.ndindex(*shape):
        acc = 0
        for e in encouts:
            acc = S.add(acc, e[idx])
        total[idx] = acc
    ctx.ensure("constraint_sees_superposition", SP.all_eq(P(cons_calls[0][1]), total))
    ctx.ensure("channel_sees_constrained_signal", SP.all_eq(P(chan_calls[0][1]), P(_drawn_tensors(ctx, "consout", None)[0])))
    dec_calls = [c for c in log if c[0] == "dec"]
    chanout = P(_drawn_tensors(ctx, "chanout", None)[0])
    ctx.ensure("decoders_see_channel_output", len(dec_calls) == (1 if (decm == "joint" or users == 1) else users) and SP.conj(SP.all_eq(P(c[2]), chanout) for c in dec_calls))
    decouts = _drawn_tensors(ctx, "decout", len(dec_calls))
    if len(dec_calls) == 1:
        ctx.ensure("result_is_decoder_output", SP.all_eq(P(out.value), P(decouts[0])))
    else:
        want = np.concatenate([P(d) for d in decouts], axis=1)
        ctx.ensure("result_is_concatenation_in_user_order", tuple(out.value.shape) == want.shape and SP.all_eq(P(out.value), want))


_MAC_T = {}


def _drawn_tensors(ctx, prefix, count):
    """tensors handed out by the stubs, re-created from the context's variables (same symbols / same native values)"""
    out = []
    names = [n for n in (ctx.vars if ctx.mode == "sym" else ctx.drawn) if n.startswith(prefix)]
    names.sort(key=lambda s: (len(s), s))
    for nm in names:
        if ctx.mode == "sym":
            kind, shape, zs = ctx.vars[nm]
            arr = np.empty(len(zs), dtype=object)
            for i, z_ in enumerate(zs):
                arr[i] = S.Sym(z_)
            out.append(ctx.tensor(arr.reshape(shape)))
        else:
            vals = ctx.drawn[nm]
            shape = (2, 3) if prefix in ("encout", "consout", "chanout") else (2, 2)
            out.append(torch.tensor([float(v) for v in vals], dtype=torch.float64).reshape(shape).to(torch.float32))
    return out


# ------------------------------------------------------------------------------------------------ parallel model: all schedules
class _Future:
    def __init__(self, fn, args, kwargs):
        try:
            self._v, self._e = fn(*args, **kwargs), None
        except Exception as e:  # the contract of Future.result(): re-raise
            self._v, self._e = None, e

    def result(self):
        if self._e is not None:
            raise self._e
        return self._v


def admissible_orders(n, workers):
    """completion orders the executor contract allows: with w workers and FIFO start order, branch j starts only after
    j - w + 1 earlier branches have completed"""
    w = n if workers is None else workers
    for perm in itertools.permutations(range(n)):
        ok = True
        done = set()
        for b in perm:
            # b must have started: at most w-1 unfinished branches with smaller index... FIFO start: branch b is running iff
            # the number of branches started before it that are still unfinished is < w
            started_before_unfinished = [j for j in range(b) if j not in done]
            if len(started_before_unfinished) >= w:
                ok = False
                break
            done.add(b)
        if ok:
            yield perm


def _parallel_cfgs(tier):
    out = []
    for n in (1, 2, 3, 4) + ((5,) if tier == "thorough" else ()):
        for w in sorted({1, 2, n}) + [None]:
            if isinstance(w, int) and w > n:
                continue
            out.append(Cfg("parallel", n, w))
    return out


def _real_pool_replay(n, workers, order, fail_branch=None, with_agg=True):
    """run the REAL ParallelModel on the real ThreadPoolExecutor forcing the given completion order with events"""
    from kaira.models.generic.parallel import ParallelModel

    done_evt = [threading.Event() for _ in range(n)]
    pos = {b: k for k, b in enumerate(order)}

    def mk(b):
        def f(x):
            k = pos[b]
            if k > 0:
                done_evt[order[k - 1]].wait(timeout=10)
            time.sleep(0.01)
            done_evt[b].set()
            if fail_branch == b:
                raise ValueError(f"boom{b}")
            return f"r{b}"

        return f

    seen = {}

    def agg(vals):
        seen["agg"] = list(vals)
        return list(vals)

    m = ParallelModel(max_workers=workers, steps=[(f"b{b}", mk(b)) for b in range(n)], aggregator=agg if with_agg else None)
    out = m("x")
    return out


@obligation("C17.parallel_schedules", function=FM + "generic/parallel.py:ParallelModel.forward; " + FM + "generic/parallel.py:ParallelModel.__init__; " + FM + "generic/parallel.py:ParallelModel.add_step", configs=_parallel_cfgs, kind="custom", engine="E2-stubs")
def parallel_schedules(spec, cfg, tier, seed):
    import kaira.models.generic.parallel as PM

    t0 = time.time()
    _, n, workers = cfg
    orders = list(admissible_orders(n, workers))
    fails = {"names": None, "agg": None, "once": None, "errors": None}
    current = {}

    class StubExecutor:
        def __init__(self, max_workers=None):
            self.max_workers = max_workers

        def __enter__(self):
            return self

        def __exit__(self, *a):
            return False

        def submit(self, fn, *args, **kwargs):
            return _Future(fn, args, kwargs)

    def stub_as_completed(fs):
        fl = list(fs)  # dict iteration order = submission order
        for b in current["order"]:
            yield fl[b]

    # the executor contract stub needs the names the pinned code imports; if a changed tree waits for its futures through another
    # API, the stub exploration is skipped and the REAL thread pool below decides alone (forced completion orders)
    has_api = hasattr(PM, "ThreadPoolExecutor") and hasattr(PM, "as_completed")
    real_exec, real_asc = getattr(PM, "ThreadPoolExecutor", None), getattr(PM, "as_completed", None)
    if has_api:
        PM.ThreadPoolExecutor, PM.as_completed = StubExecutor, stub_as_completed
    try:
        for order in orders if has_api else []:
            for fail_branch in [None] + ([0] if n > 1 else []):
                current["order"] = order
                tr = Trace()

                def mk(b):
                    def f(x, *a, **k):
                        tr.calls.append((f"b{b}", x, a, tuple(sorted(k.items()))))
                        if fail_branch == b:
                            raise ValueError(f"boom{b}")
                        return ("app", f"b{b}", x)

                    return f

                seen = {}

                def agg(vals):
                    seen["agg"] = list(vals)
                    return ("agg", tuple(vals))

                want_val = lambda b: (f"Error: boom{b}" if fail_branch == b else ("app", f"b{b}", "x"))
                # without aggregator: names -> own result
                m = PM.ParallelModel(max_workers=workers, steps=[(f"b{b}", mk(b)) for b in range(n)])
                res = m("x", "extra", flag=1)
                if res != {f"b{b}": want_val(b) for b in range(n)} and fails["names"] is None:
                    fails["names"] = {"completion_order": list(order), "result": repr(res)[:300]}
                if sorted(c[0] for c in tr.calls) != [f"b{b}" for b in range(n)] or any(c[1:] != ("x", ("extra",), (("flag", 1),)) for c in tr.calls):
                    fails["once"] = fails["once"] or {"completion_order": list(order), "calls": repr(tr.calls)[:300]}
                if fail_branch is not None and res.get(f"b{fail_branch}") != f"Error: boom{fail_branch}":
                    fails["errors"] = fails["errors"] or {"completion_order": list(order), "result": repr(res)[:300]}
                # with an order-sensitive aggregator: declared branch order
                tr.calls.clear()
                m = PM.ParallelModel(max_workers=workers, steps=[(f"b{b}", mk(b)) for b in range(n)], aggregator=agg)
                m("x", "extra", flag=1)
                if seen.get("agg") != [want_val(b) for b in range(n)] and fails["agg"] is None:
                    fails["agg"] = {"completion_order": list(order), "aggregator_received": repr(seen.get("agg"))[:300], "fail_branch": fail_branch}
    finally:
        if has_api:
            PM.ThreadPoolExecutor, PM.as_completed = real_exec, real_asc
    # the same schedules on the REAL ThreadPoolExecutor: completion order forced with events, no failing branch / the branch that
    # completes first / the branch that completes last raises
    rfails = {"names": None, "agg": None}
    nreal = 0
    for order in orders:
        for fail_branch in [None] + ([order[0], order[-1]] if n > 1 else []):
            for with_agg in (False, True):
                try:
                    got = _real_pool_replay(n, workers, order, fail_branch, with_agg=with_agg)
                except Exception as e:
                    got = f"raised {e!r}"
                nreal += 1
                val = lambda b: (f"Error: boom{b}" if fail_branch == b else f"r{b}")
                if with_agg:
                    if got != [val(b) for b in range(n)] and rfails["agg"] is None:
                        rfails["agg"] = {"completion_order": list(order), "fail_branch": fail_branch, "aggregator_received": repr(got)[:300]}
                elif got != {f"b{b}": val(b) for b in range(n)} and rfails["names"] is None:
                    rfails["names"] = {"completion_order": list(order), "fail_branch": fail_branch, "result": repr(got)[:300]}
    out = []
    for key, nm in (("names", "real_pool.each_result_under_its_own_name"), ("agg", "real_pool.aggregator_gets_declared_order")):
        r = _res(spec, cfg, nm, rfails[key] is None, f"{nreal} runs on the real ThreadPoolExecutor, completion orders forced with events (all {len(orders)} admissible orders; no / first-completing / last-completing branch raises)", witness=rfails[key], t0=t0)
        if rfails[key] is not None:
            r.replay_confirmed = True
        out.append(r)
    if not has_api:
        return out
    detail = f"all {len(orders)} completion orders admissible for {n} branches / max_workers={workers}, with and without a failing branch (executor contract stub)"
    for key, nm in (("names", "each_result_under_its_own_name"), ("once", "each_branch_called_once_with_input_and_args"), ("errors", "exceptions_reported_under_branch_name"), ("agg", "aggregator_gets_declared_order")):
        w = fails[key]
        r = _res(spec, cfg, nm, w is None, detail, witness=w, t0=t0)
        if w is not None:
            # replay the refuting completion order on the REAL thread pool
            try:
                real = _real_pool_replay(n, workers, w["completion_order"], w.get("fail_branch"))
                if key == "agg":
                    want = [(f"Error: boom{b}" if w.get("fail_branch") == b else f"r{b}") for b in range(n)]
                    r.replay_confirmed = real != want
                    r.detail += f" | real thread pool, forced order {w['completion_order']}: aggregator received {real}"
                else:
                    r.replay_confirmed = True
            except Exception as e:
                r.replay_confirmed = False
                r.detail += f" | real-pool replay crashed: {e!r}"
        out.append(r)
    return out


# ------------------------------------------------------------------------------------------------ branching
@obligation("C17.branching", function=FM + "generic/branching.py:BranchingModel.forward; " + FM + "generic/branching.py:BranchingModel.add_branch; " + FM + "generic/branching.py:BranchingModel.remove_branch; " + FM + "generic/branching.py:BranchingModel.set_default_branch", configs=lambda tier: [Cfg("branches", n, d) for n in range(0, 5 if tier == "quick" else 6) for d in (0, 1)], kind="custom", engine="E2-stubs")
def branching(spec, cfg, tier, seed):
    from kaira.models.generic.branching import BranchingModel

    t0 = time.time()
    _, n, has_default = cfg
    bad = None
    bad_calls = None
    count = 0
    for truth in itertools.product([False, True], repeat=n):
        for removed in [None] + list(range(n)):
            tr = Trace()
            evals = []
            m = BranchingModel()
            for b in range(n):
                m.add_branch(f"br{b}", condition=(lambda x, b=b: (evals.append(b), truth[b])[1]), model=Stage(f"br{b}", tr))
            if has_default:
                m.set_default_branch(Stage("default", tr))
            live = list(range(n))
            if removed is not None:
                m.remove_branch(f"br{removed}")
                live.remove(removed)
            first = next((b for b in live if truth[b]), None)
            count += 1
            try:
                res = m("x", True)
                raised = False
            except RuntimeError:
                raised, res = True, None
            if first is not None:
                want = (("app", f"br{first}", "x"), f"br{first}")
            elif has_default:
                want = (("app", "default", "x"), "default")
            else:
                want = None
            ok = (raised and want is None) or (not raised and res == want)
            if not ok and bad is None:
                bad = {"conditions": list(truth), "removed": removed, "result": repr(res), "expected": repr(want)}
            ncalls = len(tr.calls)
            if ncalls != (0 if want is None else 1) and bad_calls is None:
                bad_calls = {"conditions": list(truth), "removed": removed, "model_calls": [c[0] for c in tr.calls]}
    d = f"all 2^{n} truth assignments x each single removal: {count} runs with uninterpreted conditions/branches"
    return [
        _res(spec, cfg, "first_true_branch_in_declaration_order_else_default_else_raise", bad is None, d, witness=bad, t0=t0),
        _res(spec, cfg, "exactly_one_model_call", bad_calls is None, d, witness=bad_calls, t0=t0),
    ]


# ------------------------------------------------------------------------------------------------ step-list mutators, unbounded list length
def _list_targets():
    from kaira.models.base import ConfigurableModel
    from kaira.models.generic.parallel import ParallelModel

    return {
        "ConfigurableModel.add_step": ("add", ConfigurableModel.add_step, "steps", False, FM + "base.py:ConfigurableModel.add_step"),
        "ConfigurableModel.remove_step": ("remove", ConfigurableModel.remove_step, "steps", False, FM + "base.py:ConfigurableModel.remove_step"),
        "ParallelModel.add_step": ("add", ParallelModel.add_step, "step_configs", True, FM + "generic/parallel.py:ParallelModel.add_step"),
        "ParallelModel.remove_step": ("remove", ParallelModel.remove_step, "step_configs", True, FM + "generic/parallel.py:ParallelModel.remove_step"),
    }


def _native_list_check(target):
    """replay: the real method against a Python list model on lists of length 0..4"""
    from kaira.models.generic.parallel import ParallelModel
    from kaira.models.generic.sequential import SequentialModel

    cls = SequentialModel if target.startswith("Configurable") else ParallelModel
    attr = "steps" if target.startswith("Configurable") else "step_configs"
    for n in range(5):
        for arg in ([None] if target.endswith("add_step") else list(range(-2, n + 2))):
            m = cls()
            base_f = [(lambda x, i=i: x) for i in range(max(1, (n + 1) // 2))]
            fs = [base_f[i % len(base_f)] for i in range(n)] if cls is SequentialModel else [(lambda x, i=i: x) for i in range(n)]  # the same object at several positions
            for f in fs:
                m.add_step(f)
            before = list(getattr(m, attr))
            if target.endswith("add_step"):
                g = lambda x: x
                m.add_step(g)
                after = list(getattr(m, attr))
                if len(after) != n + 1 or after[:n] != before or (after[n] is not g and after[n][1] is not g):
                    return {"length": n, "observed_length": len(after)}
                try:
                    m.add_step(3)
                    return {"length": n, "non_callable_accepted": True}
                except TypeError:
                    pass
            else:
                try:
                    m.remove_step(arg)
                    raised = False
                except IndexError:
                    raised = True
                after = list(getattr(m, attr))
                want = before if not (0 <= arg < n) else before[:arg] + before[arg + 1 :]
                if raised != (not (0 <= arg < n)) or after != want:
                    return {"length": n, "index": arg, "raised": raised, "observed_length": len(after)}
    return None


@obligation(
    "C17.step_list_unbounded",
    function=FM + "base.py:ConfigurableModel.add_step; " + FM + "base.py:ConfigurableModel.remove_step; " + FM + "generic/parallel.py:ParallelModel.add_step; " + FM + "generic/parallel.py:ParallelModel.remove_step",
    configs=lambda tier: [Cfg("list", k) for k in ("ConfigurableModel.add_step", "ConfigurableModel.remove_step", "ParallelModel.add_step", "ParallelModel.remove_step")],
    kind="custom",
    engine="E1-listvc",
)
def step_list_unbounded(spec, cfg, tier, seed):
    from vk import listvc

    kind, fn, attr, pair, function = _list_targets()[cfg[1]]
    vcs, secs = (listvc.add_vcs(fn, attr, pair=pair) if kind == "add" else listvc.remove_vcs(fn, attr))
    out, native = [], None
    for name, verdict, detail in vcs:
        r = ObResult(prop="C17", ob=f"{spec.id}/{name}", config=str(cfg), function=function, engine="E1-listvc", backend="z3", kind="proof", verdict=verdict, detail=detail, solver_s=secs, wall_s=secs)
        if verdict != "discharged":
            if native is None:
                native = _native_list_check(cfg[1]) or False
            if native:
                r.verdict, r.witness, r.replay_confirmed = "refuted", native, True
                r.detail = "found by native run against a list model after: " + detail
            elif verdict == "refuted":
                r.replay_confirmed = False
        out.append(r)
    return out


# ------------------------------------------------------------------------------------------------ subclasses of the folds
@obligation("C17.subclasses_run_their_step_list", function=FM + "channel_code.py:ChannelCodeModel.__init__; " + FM + "deepjscc.py:DeepJSCCModel.__init__; " + FM + "generic/sequential.py:SequentialModel.forward",
            configs=lambda tier: [Cfg("subclasses", "sequential")], kind="ground", engine="ground")
def subclasses_run_their_step_list(cfg):
    """the fold contract (C17.fold_unbounded: forward folds the input through self.steps, whatever its length) is stated on
    SequentialModel.forward.  It carries over to a subclass only if the subclass RUNS that forward on that list: for every subclass of
    SequentialModel found in kaira.models, (a) forward / add_step / remove_step are the inherited functions, or (b) failing that, the
    stage list edited by add_step / remove_step is what a run executes (recording stubs, histories of edits)"""
    import importlib
    import pkgutil

    import kaira.models as KM
    from kaira.models.generic.sequential import SequentialModel

    for mi in pkgutil.walk_packages(KM.__path__, "kaira.models."):
        try:
            importlib.import_module(mi.name)
        except Exception:
            pass

    def subs(c):
        out = []
        for s_ in c.__subclasses__():
            out += [s_] + subs(s_)
        return out

    found = [c for c in subs(SequentialModel) if c.__module__.startswith("kaira.")]
    yield "subclasses_found", len(found) >= 2, f"{[c.__name__ for c in found]}"
    for c in found:
        inherited = c.forward is SequentialModel.forward and c.add_step is SequentialModel.add_step and c.remove_step is SequentialModel.remove_step
        ok, note = inherited, "forward, add_step, remove_step inherited from SequentialModel"
        if not inherited:
            ok, note = _subclass_history_check(c)
        yield f"{c.__name__}.runs_the_edited_stage_list", ok, note
        # the constructor's stage list is the documented pipeline order, built from the objects it was given
        try:
            names, m = _build_subclass(c)
            got = [getattr(s_, "vk_name", "?") for s_ in m.steps]
            yield f"{c.__name__}.constructor_stage_order", got == names, f"steps {got}, documented order {names}"
        except Exception as e:
            yield f"{c.__name__}.constructor_stage_order", False, f"construction with stub stages raised {e!r}"


def _stub_module(name, log, a, b):
    class St(torch.nn.Module):
        vk_name = name

        def forward(self, x, *args, **kwargs):
            log.append(name)
            return x * a + b

    return St()


def _build_subclass(c, log=None):
    import inspect

    log = [] if log is None else log
    params = [p for p in inspect.signature(c.__init__).parameters if p not in ("self", "args", "kwargs")]
    coef = [(2.0, 1.0), (-3.0, 0.5), (0.5, -2.0), (4.0, 3.0), (-1.5, 0.25), (3.0, -1.0), (0.25, 2.0)]
    stages = {p: _stub_module(p, log, *coef[i % len(coef)]) for i, p in enumerate(params)}
    m = c(**stages)
    order = {"ChannelCodeModel": ["encoder", "modulator", "constraint", "channel", "demodulator", "decoder"], "DeepJSCCModel": ["encoder", "constraint", "channel", "decoder"]}.get(c.__name__, params)
    return order, m


def _subclass_history_check(c):
    """recording stubs: after each history of edits the stages that run are exactly m.steps, in order, and the output is their fold"""
    try:
        for hist in (("add",), ("rm", 2), ("rm", 0), ("add", "add"), ("rm", 1, "add"), ()):
            log = []
            _, m = _build_subclass(c, log)
            k = 0
            for op in hist:
                if op == "add":
                    m.add_step(_stub_module(f"post{k}", log, 10.0 + k, -1.0))
                    k += 1
                elif isinstance(op, int):
                    continue
                elif op == "rm":
                    pass
            # removal indices follow the "rm" markers
            it = iter(hist)
            for op in it:
                if op == "rm":
                    m.remove_step(next(it))
            log.clear()
            x = torch.tensor([[1.0, -2.0, 0.5]])
            with torch.no_grad():
                y = m(x)
            want_names = [getattr(s_, "vk_name", "?") for s_ in m.steps]
            want = x
            for s_ in m.steps:
                before = list(log)
                want = s_(want)
                del log[len(before):]
            if log != want_names or not torch.allclose(y, want):
                return False, f"history {hist}: stages run {log}, stage list {want_names}; output {y.tolist()}, fold of the stage list {want.tolist()}"
        return True, "forward overridden; histories of add_step / remove_step executed with recording stubs: the edited stage list is what runs"
    except Exception as e:
        return False, f"history check raised {e!r}"
