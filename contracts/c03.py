"""C03 - the (n, k, d) and structure a code object advertises are its true parameters.

Closed obligations on what the real constructors produced (ground, exact), tied to the encoding map by C01's
contract forward(x) == x.G; plus, for small k, the same distance claim proved for all messages through the real
forward() by symbolic execution (z3 cardinality reasoning).
"""
from __future__ import annotations

from math import comb

import numpy as np
import torch

from vk import ground as Gd
from vk import spec as SP
from vk import sym as S
from vk.harness import obligation
from vk.tensor import P

from . import codes
from .codes import Cfg

F = "kaira/models/fec/encoders/"

EXACT = {"hamming", "golay", "repetition", "spc", "rm"}  # families whose exact minimum distance is documented


def advertised_distance(enc, cfg):
    """(d_advertised, source) or (None, reason)"""
    md = getattr(enc, "minimum_distance", None)
    if callable(md):
        try:
            return int(md()), "minimum_distance()"
        except Exception as e:  # pragma: no cover
            return None, f"minimum_distance() raised {e!r}"
    if md is not None:
        return int(md), "minimum_distance attribute"
    if cfg.family == "repetition":
        return int(enc.code_length), "documented: repetition code of length n has d = n"
    t = getattr(enc, "error_correction_capability", None)
    if t is not None:
        return 2 * int(t) + 1, "2*error_correction_capability+1"
    return None, "no advertised distance"


def _cfgs(tier):
    fams = {"hamming", "golay", "repetition", "spc", "rm", "cyclic", "cyclic_h", "bch", "rs"}
    out = [c for c in codes.catalogue(tier) if c.family in fams]
    # the first BCH codes whose generator polynomial is NOT a minimum-weight codeword are at length 31 ((31,21): wt(g) = 7, d = 5;
    # (31,16): wt(g) = 11, d = 7): the quick catalogue stops at length 15, where wt(g) == d for every Bose distance, so an
    # advertised distance computed from wt(g) would go unnoticed.  Exact enumeration of 2^21 / 2^16 words: about 3 s.
    for c in (Cfg("bch", 5, 5, "left"), Cfg("bch", 5, 7, "left")):
        if c not in out:
            out.append(c)
    return out


@obligation(
    "C03.parameters",
    function=F + "base.py:BaseBlockCodeEncoder.code_rate; " + F + "hamming_code.py:create_hamming_parity_submatrix; " + F + "hamming_code.py:HammingCodeEncoder.minimum_distance; " + F + "golay_code.py:create_golay_parity_submatrix; "
    + F + "golay_code.py:GolayCodeEncoder.minimum_distance; " + F + "reed_muller_code.py:_generate_reed_muller_matrix; " + F + "cyclic_code.py:CyclicCodeEncoder._generate_systematic_matrix; " + F + "cyclic_code.py:CyclicCodeEncoder.minimum_distance; "
    + F + "bch_code.py:compute_bch_generator_polynomial; " + F + "bch_code.py:BCHCodeEncoder.minimum_distance; " + F + "reed_solomon_code.py:ReedSolomonCodeEncoder._create_generator_matrix",
    configs=_cfgs,
    kind="ground",
    engine="ground",
)
def parameters(cfg):
    enc, err = codes.try_build(cfg)
    if enc is None:
        yield "constructs", False, repr(err)
        return
    G = SP.int_matrix(enc.generator_matrix)
    k, n = len(G), len(G[0])
    Gm = Gd.rows_to_masks(G)
    yield "length_dimension", (enc.code_length, enc.code_dimension, enc.redundancy) == (n, Gd.rank(Gm), n - k), f"advertised ({enc.code_length},{enc.code_dimension},{enc.redundancy}); G is {k}x{n} of rank {Gd.rank(Gm)}"
    yield "rate", abs(enc.code_rate - k / n) < 1e-12, f"code_rate {enc.code_rate} vs k/n {k / n}"
    d_adv, src = advertised_distance(enc, cfg)
    try:
        d_true = Gd.min_distance(Gm, n)
    except ValueError:
        # min(k, n-k) > 24: outside the exact kernel's reach (2^25 words and more); the distance clauses are NOT claimed for this
        # configuration (for BCH codes the designed distance rests on the root clauses of C03.cyclic_structure and the BCH bound)
        return
    if d_adv is None:
        yield "advertises_distance", True, f"{src}; true d = {d_true} (nothing to compare)"
    else:
        # CyclicCodeEncoder.minimum_distance() has two branches: exact enumeration for k <= 12, weight of g above (an upper bound:
        # recorded known finding); the clause is named after the branch so that the finding is tied to that call site only
        branch = ".cyclic_k_gt_12_returns_weight_of_g" if cfg.family in ("cyclic", "cyclic_h") and k > 12 else ""
        yield "distance_at_least_advertised" + branch, d_true >= d_adv, f"true d = {d_true}, advertised d = {d_adv} ({src})"
        if cfg.family in EXACT:
            yield "distance_exact", d_true == d_adv, f"true d = {d_true}, documented exact d = {d_adv} ({src})"
    t_adv = getattr(enc, "error_correction_capability", None)
    if t_adv is not None:
        yield "capability_within_true_distance", 2 * int(t_adv) + 1 <= d_true, f"advertised t = {t_adv}, true d = {d_true}"
    delta = getattr(enc, "delta", None)
    if delta is not None:
        yield "design_distance", d_true >= int(delta), f"true d = {d_true}, design distance delta = {delta}"
    # perfect codes meet the sphere-packing bound with equality
    if (cfg.family == "hamming" and not cfg[2]) or (cfg.family == "golay" and not cfg[1]):
        t = (d_true - 1) // 2
        vol = sum(comb(n, i) for i in range(t + 1))
        yield "sphere_packing_equality", (1 << k) * vol == (1 << n), f"2^k * V(n,t) = {(1 << k) * vol}, 2^n = {1 << n} (t = {t})"


def _cyc_cfgs(tier):
    return [c for c in codes.catalogue(tier) if c.family in ("cyclic", "cyclic_h", "bch") and c[-1] in ("left", "right")]


@obligation(
    "C03.cyclic_structure",
    function=F + "cyclic_code.py:CyclicCodeEncoder.__init__; " + F + "cyclic_code.py:CyclicCodeEncoder._generate_systematic_matrix; " + F + "cyclic_code.py:CyclicCodeEncoder._custom_div_with_remainder; " + F + "bch_code.py:compute_bch_generator_polynomial; " + F + "bch_code.py:is_bose_distance",
    configs=_cyc_cfgs,
    kind="ground",
    engine="ground",
)
def cyclic_structure(cfg):
    enc, err = codes.try_build(cfg)
    if enc is None:
        yield "constructs", False, repr(err)
        return
    G = SP.int_matrix(enc.generator_matrix)
    k, n = len(G), len(G[0])
    Gm = Gd.rows_to_masks(G)
    basis = Gd.rref(Gm)
    g = int(enc.generator_poly.value)
    h = int(enc.check_poly.value)
    mod = (1 << n) | 1
    yield "g_divides_xn1", Gd.pmod(mod, g) == 0, f"(X^{n}+1) mod g = {Gd.pmod(mod, g)}"
    yield "g_times_h", Gd.pmul(g, h) == mod, f"g*h = {Gd.pmul(g, h)}, X^n+1 = {mod}"
    yield "degree_is_redundancy", Gd.pdeg(g) == n - k, f"deg g = {Gd.pdeg(g)}, n-k = {n - k}"
    closed = all(Gd.in_span(basis, Gd.cyclic_shift(r, n)) for r in Gm)
    yield "closed_under_cyclic_shift", closed, "every cyclic shift of every generator row is in the row space"
    nat = all(Gd.pmod(r, g) == 0 for r in Gm)
    rev = all(Gd.pmod(Gd.bit_reverse(r, n), g) == 0 for r in Gm)
    grev = Gd.bit_reverse(g, Gd.pdeg(g) + 1)
    rev2 = all(Gd.pmod(Gd.bit_reverse(r, n), grev) == 0 for r in Gm)
    nat2 = all(Gd.pmod(r, grev) == 0 for r in Gm)
    yield "rows_are_multiples_of_g", nat or rev, f"natural order: {nat}; reversed coefficient order: {rev} (reciprocal g: natural {nat2}, reversed {rev2})"
    if cfg.family == "bch":
        from kaira.models.fec.algebra import BinaryPolynomial, FiniteBifield

        mu, delta = cfg[1], cfg[2]
        field = FiniteBifield(mu)
        alpha = field.primitive_element()
        roots_ok = True
        bad = None
        for i in range(1, delta):
            v = BinaryPolynomial(g).evaluate(alpha**i)
            if v.value != 0:
                roots_ok, bad = False, i
                break
        yield "alpha_powers_are_roots", roots_ok, f"g(alpha^i) = 0 for 1 <= i < {delta}" + (f"; fails at i={bad}" if bad else "")
        # g is the least common multiple of the minimal polynomials: minimal-degree claim via independent cyclotomic cosets
        cosets = set()
        N = 2**mu - 1
        for i in range(1, delta):
            c, j = [], i % N
            while j not in c:
                c.append(j)
                j = (2 * j) % N
            cosets.add(frozenset(c))
        deg = sum(len(c) for c in cosets)
        yield "g_has_lcm_degree", Gd.pdeg(g) == deg, f"deg g = {Gd.pdeg(g)}, size of the union of cyclotomic cosets of 1..{delta - 1} = {deg}"


# ---------------------------------------------------------------------------------------- symbolic variant for small k
def _small(tier):
    lim = 8 if tier == "quick" else 11
    out = []
    for c in _cfgs(tier):
        enc, _ = codes.try_build(c)
        if enc is not None and enc.generator_matrix.shape[0] <= lim and enc.generator_matrix.shape[1] <= 24:
            out.append(c)
    return out


@obligation(
    "C03.distance_all_messages",
    function=F + "linear_block_code.py:LinearBlockCodeEncoder.forward; " + F + "systematic_linear_block_code.py:SystematicLinearBlockCodeEncoder.forward",
    configs=_small,
    timeout_ms=60000,
)
def distance_all_messages(ctx, cfg):
    """forall m != 0: weight(forward(m)) >= advertised d  - through the real forward(), all 2^k messages at once"""
    enc = codes.build(cfg)
    k, n = enc.generator_matrix.shape
    d_adv, src = advertised_distance(enc, cfg)
    if d_adv is None:
        ctx.ensure("nothing_advertised", True, note=src)
        return
    m = ctx.bits("m", (k,))
    c = ctx.call(enc.forward, m)
    ctx.ensure("encodes", c.ok)
    if not c.ok:
        return
    nonzero = S.lt(0, SP.weight(P(m)))
    w = SP.weight(P(c.value))
    ctx.ensure("weight_at_least_advertised", S.lor(S.lnot(nonzero), S.le(d_adv, w)), note=f"advertised d = {d_adv} ({src})")


# ================================================================================================ parameter sequences (history)
SEQUENCES = {
    # the same generator polynomial at different lengths: a cyclic code is (n, g), not g - X^7+1 | X^14+1, and the longer code
    # contains the weight-2 word X^7+1
    # (k <= 12 throughout: for k > 12 minimum_distance() returns the weight of g, the recorded known finding of C03.parameters)
    "cyclic_g1011": [Cfg("cyclic", 7, 0b1011, "left"), Cfg("cyclic", 14, 0b1011, "left"), Cfg("cyclic", 7, 0b1011, "right"), Cfg("cyclic", 14, 0b1011, "right")],
    "cyclic_g1011_descending": [Cfg("cyclic", 14, 0b1011, "right"), Cfg("cyclic", 7, 0b1011, "left"), Cfg("cyclic", 14, 0b1011, "left")],
    "cyclic_g111": [Cfg("cyclic", 3, 0b111, "left"), Cfg("cyclic", 6, 0b111, "left"), Cfg("cyclic", 9, 0b111, "left"), Cfg("cyclic", 3, 0b111, "left")],
    "cyclic_h_and_g": [Cfg("cyclic_h", 7, 0b1011, "left"), Cfg("cyclic", 7, 0b1011, "left"), Cfg("cyclic_h", 15, 0b10011, "left"), Cfg("cyclic", 15, 0b10011, "left")],
    "hamming": [Cfg("hamming", 2, False, "left"), Cfg("hamming", 2, True, "left"), Cfg("hamming", 3, True, "right"), Cfg("hamming", 3, False, "left"), Cfg("hamming", 4, True, "left"), Cfg("hamming", 4, False, "right"), Cfg("hamming", 2, True, "right")],
    "bch": [Cfg("bch", 3, 3, "left"), Cfg("bch", 4, 3, "left"), Cfg("bch", 4, 5, "right"), Cfg("bch", 4, 7, "left"), Cfg("bch", 3, 3, "right"), Cfg("bch", 4, 5, "left")],
    "rm": [Cfg("rm", 1, 3), Cfg("rm", 2, 3), Cfg("rm", 1, 4), Cfg("rm", 0, 3), Cfg("rm", 2, 4), Cfg("rm", 1, 3)],
    "repetition_spc": [Cfg("repetition", 3), Cfg("spc", 3), Cfg("repetition", 5), Cfg("spc", 2), Cfg("repetition", 2), Cfg("spc", 4), Cfg("repetition", 3)],
    "golay": [Cfg("golay", False, "left"), Cfg("golay", True, "left"), Cfg("golay", False, "right")],
}


@obligation(
    "C03.parameter_sequences",
    function=F + "cyclic_code.py:CyclicCodeEncoder.minimum_distance; " + F + "hamming_code.py:HammingCodeEncoder.minimum_distance; " + F + "bch_code.py:BCHCodeEncoder.minimum_distance; " + F + "golay_code.py:GolayCodeEncoder.minimum_distance; " + F + "base.py:BaseBlockCodeEncoder.code_rate",
    configs=lambda tier: [Cfg("sequence", nm) for nm in SEQUENCES],
    kind="ground",
    engine="ground",
)
def parameter_sequences(cfg):
    """several encoders of one family are built and asked for their parameters one after the other in ONE process: each must advertise
    its OWN length, dimension and a distance that its own generator matrix attains (whatever an earlier instance computed or cached)"""
    bad_len, bad_d, bad_exact, seen = [], [], [], []
    for c in SEQUENCES[cfg[1]]:
        enc, err = codes.try_build(c)
        if enc is None:
            yield "constructs", False, f"{c}: {err!r}"
            return
        G = SP.int_matrix(enc.generator_matrix)
        k, n = len(G), len(G[0])
        Gm = Gd.rows_to_masks(G)
        if (enc.code_length, enc.code_dimension) != (n, Gd.rank(Gm)):
            bad_len.append(f"{c}: advertises ({enc.code_length},{enc.code_dimension}), G is {k}x{n} of rank {Gd.rank(Gm)}")
        d_adv, src = advertised_distance(enc, c)
        d_true = Gd.min_distance(Gm, n)
        seen.append(f"{c}: advertised {d_adv}, true {d_true}")
        if d_adv is not None and d_true < d_adv:
            bad_d.append(f"{c} (instance {len(seen)} of the sequence): advertised {d_adv} ({src}), true {d_true}")
        if d_adv is not None and c.family in EXACT and d_true != d_adv:
            bad_exact.append(f"{c}: documented exact {d_adv}, true {d_true}")
    yield "every_instance_advertises_its_own_length_and_dimension", not bad_len, "; ".join(bad_len) or "; ".join(seen)
    yield "every_instance_distance_at_least_advertised", not bad_d, "; ".join(bad_d) or "; ".join(seen)
    yield "every_instance_documented_distance_exact", not bad_exact, "; ".join(bad_exact) or "-"
