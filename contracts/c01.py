"""C01 - encoder, generator matrix and parity-check matrix describe one and the same code.

Contracts (DESIGN.md section 7, C01):
  * object invariant after the real constructor (ground): G binary k x n of rank k, H binary with n columns,
    G.H^T = 0, rank H = n-k, advertised length/dimension/redundancy = n, k, n-k
  * forward(x)            == blockwise(x . G mod 2) with the *published* G, for all messages, four layouts; input unmodified
  * calculate_syndrome(y) == blockwise(y . H^T mod 2) with the *published* H, for all words
  * forall m: syndrome(forward(m)) == 0         (codeword => zero syndrome, directly on the functions)
  * forall y: syndrome(y) == 0 => y in rowspace(G)   (n <= 16, directly)
"""
from __future__ import annotations

import numpy as np
import torch

from vk import ground as Gd
from vk import spec as SP
from vk import sym as S
from vk.harness import obligation
from vk.tensor import P

from . import codes

F = "kaira/models/fec/encoders/"


def _cfgs(tier):
    return codes.catalogue(tier)


def layouts(k, tier):
    return [("1d", (k,)), ("Bk", (2, k)), ("BBk", (2, 1, k)), ("Bbk", (1, 2 * k))] + ([("B3bk", (2, 3 * k))] if tier == "thorough" else [])


# ---------------------------------------------------------------------------------------- invariant
@obligation(
    "C01.invariant",
    function=F + "linear_block_code.py:LinearBlockCodeEncoder.__init__; " + F + "linear_block_code.py:compute_null_space_matrix; " + F + "systematic_linear_block_code.py:create_systematic_generator_matrix; "
    + F + "systematic_linear_block_code.py:get_information_and_parity_sets; " + F + "cyclic_code.py:CyclicCodeEncoder._compute_check_matrix; " + F + "bch_code.py:BCHCodeEncoder._compute_check_matrix; "
    + F + "ldpc_code.py:LDPCCodeEncoder.get_generator_matrix; kaira/models/fec/utils.py:row_reduction",
    configs=_cfgs,
    kind="ground",
    engine="ground",
)
def invariant(cfg):
    enc, err = codes.try_build(cfg)
    if enc is None:
        yield "constructs", False, f"constructor raised {type(err).__name__}: {err}"
        return
    yield "constructs", True, ""
    G = SP.int_matrix(enc.generator_matrix)
    H = SP.int_matrix(enc.check_matrix)
    Gf = enc.generator_matrix.detach().to(torch.float64).tolist()
    Hf = enc.check_matrix.detach().to(torch.float64).tolist()
    k, n = len(G), len(G[0])
    yield "G_binary", all(v in (0.0, 1.0) for r in Gf for v in r), "generator matrix entries in {0,1}"
    yield "H_binary", all(v in (0.0, 1.0) for r in Hf for v in r), "check matrix entries in {0,1}"
    yield "advertised_n_k", (enc.code_length, enc.code_dimension, enc.redundancy) == (n, k, n - k), f"advertised (n,k,r)=({enc.code_length},{enc.code_dimension},{enc.redundancy}) vs G {k}x{n}"
    Gm, Hm = Gd.rows_to_masks(G), Gd.rows_to_masks(H)
    rg = Gd.rank(Gm)
    yield "rank_G", rg == k, f"rank G = {rg}, k = {k}"
    yield "H_columns", all(len(r) == n for r in H), f"H has {len(H[0]) if H else 0} columns, n = {n}"
    yield "GHt_zero", Gd.gf2_mul_GHt(Gm, Hm), "G.H^T = 0 over GF(2)"
    rh = Gd.rank(Hm)
    yield "rank_H", rh == n - k, f"rank H = {rh}, n-k = {n - k}"


# ---------------------------------------------------------------------------------------- forward
@obligation(
    "C01.forward",
    function=F + "linear_block_code.py:LinearBlockCodeEncoder.forward; " + F + "systematic_linear_block_code.py:SystematicLinearBlockCodeEncoder.forward; " + F + "cyclic_code.py:CyclicCodeEncoder.forward; kaira/models/fec/utils.py:apply_blockwise",
    configs=_cfgs,
)
def forward(ctx, cfg):
    enc, err = codes.try_build(cfg)
    if enc is None:
        ctx.ensure("constructs", False)
        return
    k, n = enc.generator_matrix.shape
    G = SP.int_matrix(enc.generator_matrix)
    for name, shape in layouts(k, "quick"):
        x = ctx.bits(f"m_{name}", shape)
        out = ctx.call(enc.forward, x)
        ctx.ensure(f"{name}.returns", out.ok, note=repr(out.exc) if not out.ok else "")
        if not out.ok:
            continue
        exp = SP.blockwise(P(x), k, lambda v: SP.gf2_vecmat(v, G))
        ctx.ensure(f"{name}.shape", SP.shape_is(out.value, shape[:-1] + (shape[-1] * n // k,)))
        ctx.ensure(f"{name}.equals_xG", tuple(out.value.shape) == exp.shape and SP.all_eq(P(out.value), exp))
        ctx.ensure(f"{name}.input_unmodified", out.unmodified)


# ---------------------------------------------------------------------------------------- syndrome
def _syn_cfgs(tier):
    # RM's calculate_syndrome runs its 2^k-way nearest-codeword search: symbolic only up to k = 6 (larger RM codes are
    # covered by C01.invariant / C01.forward and by the bounded C02/C10 stand-ins)
    return [c for c in codes.catalogue(tier) if not codes.rm_search_heavy(c)]


def _syn_eq_cfgs(tier):
    # ReedMullerCodeEncoder overrides calculate_syndrome with "difference to the nearest codeword": a valid syndrome
    # (zero iff codeword - that clause is C01.zero_syndrome_codeword / C01.codeword_zero_syndrome) but not y.H^T,
    # so the helper contract "== y.H^T" is not stated for it.
    return [c for c in codes.catalogue(tier) if c.family != "rm"]


@obligation(
    "C01.syndrome",
    function=F + "linear_block_code.py:LinearBlockCodeEncoder.calculate_syndrome; " + F + "reed_solomon_code.py:ReedSolomonCodeEncoder.calculate_syndrome",
    configs=_syn_eq_cfgs,
    max_paths=20000,
)
def syndrome(ctx, cfg):
    enc, err = codes.try_build(cfg)
    if enc is None:
        ctx.ensure("constructs", False)
        return
    k, n = enc.generator_matrix.shape
    Ht = [list(r) for r in zip(*SP.int_matrix(enc.check_matrix))] if enc.check_matrix.numel() else [[] for _ in range(n)]
    r = len(Ht[0]) if Ht else 0
    for name, shape in [("1d", (n,)), ("Bn", (2, n)), ("Bbn", (1, 2 * n))]:
        y = ctx.bits(f"y_{name}", shape)
        out = ctx.call(enc.calculate_syndrome, y)
        ctx.ensure(f"{name}.returns", out.ok, note=repr(out.exc) if not out.ok else "")
        if not out.ok:
            continue
        exp = SP.blockwise(P(y), n, lambda v: SP.gf2_vecmat(v, Ht))
        ctx.ensure(f"{name}.equals_yHt", tuple(out.value.shape) == exp.shape and SP.all_eq(P(out.value), exp))
        ctx.ensure(f"{name}.input_unmodified", out.unmodified)


@obligation(
    "C01.codeword_zero_syndrome",
    function=F + "linear_block_code.py:LinearBlockCodeEncoder.forward; " + F + "linear_block_code.py:LinearBlockCodeEncoder.calculate_syndrome",
    configs=_syn_cfgs,
    max_paths=20000,
)
def codeword_zero_syndrome(ctx, cfg):
    enc, err = codes.try_build(cfg)
    if enc is None:
        ctx.ensure("constructs", False)
        return
    k, n = enc.generator_matrix.shape
    m = ctx.bits("m", (2, k))
    c = ctx.call(enc.forward, m)
    ctx.ensure("encodes", c.ok)
    if not c.ok:
        return
    s = ctx.call(enc.calculate_syndrome, c.value)
    ctx.ensure("returns", s.ok)
    if s.ok:
        ctx.ensure("syndrome_zero", SP.all_eq(P(s.value), np.zeros(tuple(s.value.shape), dtype=object) * 0))


def _small_cfgs(tier):
    lim = 12 if tier == "quick" else 16
    out = []
    for c in codes.catalogue(tier):
        enc, _ = codes.try_build(c)
        if enc is not None and enc.generator_matrix.shape[1] <= lim and not (c.family == "rm" and enc.generator_matrix.shape[1] > 8):
            out.append(c)
    return out


@obligation(
    "C01.zero_syndrome_codeword",
    function=F + "linear_block_code.py:LinearBlockCodeEncoder.calculate_syndrome",
    configs=_small_cfgs,
    max_paths=20000,
)
def zero_syndrome_codeword(ctx, cfg):
    """forall y in {0,1}^n: calculate_syndrome(y) == 0  =>  y is in the row space of the published G"""
    enc = codes.build(cfg)
    k, n = enc.generator_matrix.shape
    Gm = Gd.rows_to_masks(SP.int_matrix(enc.generator_matrix))
    basis = Gd.rref(Gm)
    y = ctx.bits("y", (n,))
    s = ctx.call(enc.calculate_syndrome, y)
    ctx.ensure("returns", s.ok)
    if not s.ok:
        return
    yp = list(P(y))
    # residual of y after reduction by the RREF basis (pivot p: subtract y[p] * (b without its pivot))
    resid = []
    piv = {p for p, _ in basis}
    for j in range(n):
        if j in piv:
            continue
        acc = yp[j]
        for p, b in basis:
            if b >> j & 1:
                acc = S.add(acc, yp[p])
        resid.append(S.mod(acc, 2))
    is_zero = SP.conj(S.eq(v, 0) for v in P(s.value).reshape(-1))
    in_code = SP.conj(S.eq(v, 0) for v in resid)
    ctx.ensure("zero_syndrome_implies_codeword", S.lor(S.lnot(is_zero), in_code))


# ---------------------------------------------------------------------------------------- helper contracts on ALL small binary matrices
def _shape_cfgs(tier):
    lim = 12 if tier == "quick" else 16
    return [codes.Cfg("allmat", k, n) for k in range(1, 5) for n in range(k, 7) if k * n <= lim]


@obligation("C01.null_space_all_small_matrices", function=F + "linear_block_code.py:compute_null_space_matrix", configs=_shape_cfgs, kind="ground", engine="ground")
def null_space_all_small(cfg):
    """compute_null_space_matrix(G): rows form a basis of the GF(2) null space - for EVERY binary k x n matrix of the given shape
    (all ranks, all column orders): H binary, G.H^T = 0, rank H = n - rank G, H has n - rank G rows (exhaustive, 2^(k n) matrices)"""
    from kaira.models.fec.encoders.linear_block_code import compute_null_space_matrix

    _, k, n = cfg
    bad = None
    count = 0
    for bits in range(1 << (k * n)):
        rows = [[(bits >> (i * n + j)) & 1 for j in range(n)] for i in range(k)]
        Gm = Gd.rows_to_masks(rows)
        H = compute_null_space_matrix(torch.tensor(rows, dtype=torch.float32))
        count += 1
        Hl = [[float(v) for v in r] for r in H.tolist()]
        ok = all(v in (0.0, 1.0) for r in Hl for v in r) and (H.shape[1] == n if H.numel() or H.dim() == 2 else True)
        Hm = Gd.rows_to_masks([[int(v) for v in r] for r in Hl]) if ok else []
        rg = Gd.rank(Gm)
        ok = ok and Gd.gf2_mul_GHt(Gm, Hm) and Gd.rank(Hm) == n - rg and len(Hm) == n - rg
        if not ok:
            bad = {"G": rows, "H": Hl, "rank_G": rg}
            break
    yield "rows_are_a_basis_of_the_null_space", bad is None, f"all {count} binary {k}x{n} matrices" if bad is None else f"fails for G = {bad['G']}: H = {bad['H']} (rank G = {bad['rank_G']})"


@obligation("C01.ldpc_generator_all_small_H", function=F + "ldpc_code.py:LDPCCodeEncoder.get_generator_matrix; kaira/models/fec/utils.py:row_reduction", configs=_shape_cfgs, kind="ground", engine="ground")
def ldpc_generator_all_small(cfg):
    """LDPCCodeEncoder.get_generator_matrix(H): the rows of G form a basis of the null space of H - for EVERY binary r x n matrix H of the
    given shape whose null space is non-trivial (all ranks incl. rank-deficient H): G binary, H.G^T = 0, rank G = n - rank H = number of rows"""
    from kaira.models.fec.encoders.ldpc_code import LDPCCodeEncoder

    _, r, n = cfg
    bad = None
    count = 0
    probe = LDPCCodeEncoder.__new__(LDPCCodeEncoder)
    for bits in range(1 << (r * n)):
        rows = [[(bits >> (i * n + j)) & 1 for j in range(n)] for i in range(r)]
        Hm = Gd.rows_to_masks(rows)
        rk = Gd.rank(Hm)
        if rk == n:
            continue  # only the zero word: no code
        try:
            G = LDPCCodeEncoder.get_generator_matrix(probe, torch.tensor(rows, dtype=torch.float32))
        except Exception as e:
            bad = {"H": rows, "raised": repr(e)[:200]}
            break
        count += 1
        Gl = [[int(v) for v in row] for row in G.to(torch.int64).tolist()]
        Gm = Gd.rows_to_masks(Gl)
        ok = all(v in (0, 1) for row in Gl for v in row) and all(len(row) == n for row in Gl) and Gd.gf2_mul_GHt(Gm, Hm) and Gd.rank(Gm) == n - rk and len(Gm) == n - rk
        if not ok:
            bad = {"H": rows, "G": Gl, "rank_H": rk}
            break
    yield "rows_are_a_basis_of_the_null_space_of_H", bad is None, f"all {count} binary {r}x{n} check matrices with a non-trivial null space" if bad is None else f"fails for H = {bad['H']}: {bad}"


# ---------------------------------------------------------------------------------------- construction sequences (state shared between instances)
def _seq_cfgs(tier):
    fams = [("bch", 4, 5), ("bch", 3, 3), ("cyclic", 7, 11), ("hamming", 3, False), ("hamming", 3, True), ("golay", False)]
    if tier == "thorough":
        fams += [("bch", 4, 7), ("bch", 5, 7), ("cyclic", 15, 19), ("rs", 3, 3)]
    return [codes.Cfg("sequence", *f) for f in fams]


@obligation(
    "C01.construction_sequences",
    function=F + "bch_code.py:BCHCodeEncoder.__init__; " + F + "bch_code.py:BCHCodeEncoder._compute_check_matrix; " + F + "cyclic_code.py:CyclicCodeEncoder.__init__; " + F + "systematic_linear_block_code.py:SystematicLinearBlockCodeEncoder.__init__; " + F + "bch_code.py:compute_bch_generator_polynomial",
    configs=_seq_cfgs,
    kind="ground",
    engine="ground",
)
def construction_sequences(cfg):
    """several encoders of ONE family and parameter set are constructed in one process with different information sets (explicit
    lists A, B, 'left', A again, 'right', B reversed): every one of them must satisfy the invariant on its OWN G and H and encode as
    m.G - constructors must not share state (caches, memoised matrices) across information sets"""
    import itertools as _it
    import random as _random

    from kaira.models.fec import encoders as E

    fam = cfg[1]
    rng = _random.Random(hash_stable(str(cfg)) + codes.SEED)

    def make(info):
        if fam == "bch":
            return E.BCHCodeEncoder(cfg[2], cfg[3], information_set=info)
        if fam == "cyclic":
            return E.CyclicCodeEncoder(code_length=cfg[2], generator_polynomial=cfg[3], information_set=info)
        if fam == "hamming":
            return E.HammingCodeEncoder(cfg[2], extended=cfg[3], information_set=info)
        if fam == "golay":
            return E.GolayCodeEncoder(extended=cfg[2], information_set=info)
        return E.ReedSolomonCodeEncoder(cfg[2], cfg[3], information_set=info)

    probe = make("left")
    k, n = probe.generator_matrix.shape
    A = sorted(rng.sample(range(n), k))
    B = rng.sample(range(n), k)
    while sorted(B) == A:
        B = rng.sample(range(n), k)
    order = [A, B, "left", A, "right", list(reversed(B)), B]
    encs = [(info, make(info)) for info in order]
    bad = []
    for pos, (info, enc) in enumerate(encs):
        G = SP.int_matrix(enc.generator_matrix)
        H = SP.int_matrix(enc.check_matrix)
        Gm, Hm = Gd.rows_to_masks(G), Gd.rows_to_masks(H)
        ok = Gd.rank(Gm) == k and Gd.gf2_mul_GHt(Gm, Hm) and Gd.rank(Hm) == n - k
        # the information set is honoured: message bit j sits at position info[j] of the codeword
        if ok and not isinstance(info, str):
            for j in range(k):
                msg = torch.zeros(1, k)
                msg[0, j] = 1.0
                cw = enc(msg)[0]
                want = torch.tensor([float(v) for v in G[j]])
                ok = ok and bool(torch.equal(cw, want)) and float(cw[info[j]]) == 1.0
        if not ok:
            bad.append((pos, info))
    yield "every_instance_consistent_with_its_own_information_set", not bad, f"{len(encs)} encoders built in sequence {['L' if i == 'left' else 'R' if i == 'right' else i for i in order]}" + (f"; inconsistent (G, H, encoder) at positions {bad}" if bad else "")


def hash_stable(s):
    import zlib

    return zlib.crc32(s.encode())


# ================================================================================================ input representation (bounded)
@obligation(
    "C01.input_dtypes",
    function=F + "linear_block_code.py:LinearBlockCodeEncoder.forward; " + F + "linear_block_code.py:LinearBlockCodeEncoder.calculate_syndrome",
    configs=lambda tier: codes.catalogue(tier),
    kind="custom",
    engine="standin",
)
def input_dtypes(spec, cfg, tier, seed):
    """bounded: forward(m) and calculate_syndrome(y) for bit vectors carried as int64, int32, uint8, bool, float64, float16 equal
    the float32 results (contracts/dtypes.py) - with C01.forward_equals_xG / C01.syndrome_equals_yHt (float32, all inputs) this
    extends the contract clauses to the other carriers on the sampled words"""
    from . import dtypes as DT

    enc, err = codes.try_build(cfg)
    if enc is None:
        return []
    k, n = enc.generator_matrix.shape
    rng = DT.rng_for(cfg, seed, "c01")
    g = torch.Generator().manual_seed(rng.getrandbits(40))
    cases = []
    for shape in ((k,), (3, k), (2, 2 * k)):
        m = torch.randint(0, 2, shape, generator=g).float()
        cases.append((f"forward m{shape}", lambda: enc.forward, (m,)))
    for shape in ((n,), (3, n), (2, 2 * n)):
        if codes.rm_search_heavy(cfg):
            break  # Reed-Muller calculate_syndrome runs the nearest-codeword search over 2^k codewords per word
        y = torch.randint(0, 2, shape, generator=g).float()
        cases.append((f"calculate_syndrome y{shape}", lambda: enc.calculate_syndrome, (y,)))
    return DT.run("C01", spec, cfg, tier, seed, cases, DT.BIT_DTYPES, "forward and calculate_syndrome, layouts 1-D, (3,.), (2, 2 blocks)")
