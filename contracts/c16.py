"""C16 - error-rate metrics are exact counts; the streaming form is partition independent.

Spec (written from the property statement, not from the code):
   d(x, y)      = number of positions where the binary tensors differ (complex form: real and imaginary parts are positions)
   db(x, y; B)  = number of blocks (consecutive runs of B positions inside one batch item, row-major) with >= 1 difference
   BER  = d / #positions,   BLER = db / #blocks
One-shot contracts (forward, helper metrics): result == that fraction (floats are reals; natively 1e-6 relative for the float32
rounding of the quotient); symmetric; zero iff equal; BER <= BLER <= min(1, B*BER) on the real outputs.
Streaming contracts, abstract view (T, E) = (total, errors):
   update:  (T', E') == (T + n, E + d)  for SYMBOLIC prior state and symbolic batch; nothing else changes
   compute: result * max(T, 1) == E     (zero-total convention of the code: divide by 1), state unchanged
   reset:   (T', E') == (0, 0)
With lemma L-fold (DESIGN 4.4; the induction step is exactly the update contract, the base case the reset/constructor contract)
compute() after ANY history equals the one-shot value on the concatenation of the batches since the last reset, independent of
split and order, for histories of any length.  `streaming_equals_oneshot` additionally proves the two-batch instance directly, and
`histories` is the property's own exhaustive enumeration as a bounded cross-check of the induction.
"""
from __future__ import annotations

import itertools
import random
import time
from fractions import Fraction

import numpy as np
import torch

from vk import spec as SP
from vk import sym as S
from vk.harness import ObResult, obligation
from vk.tensor import P, PC

from .codes import Cfg

FB = "kaira/metrics/signal/ber.py"
FL = "kaira/metrics/signal/bler.py"
FH = "kaira/benchmarks/metrics.py"

SHAPES = {"n4": (4,), "n6": (6,), "1x6": (1, 6), "2x3": (2, 3), "3x2": (3, 2), "2x4": (2, 4), "2x6": (2, 6), "2x2x3": (2, 2, 3), "1x4": (1, 4), "3x4": (3, 4), "1x2x2": (1, 2, 2)}
RTOL = Fraction(1, 10**6)


# ------------------------------------------------------------------------------------------------ inputs and spec functions
def _bits(ctx, name, shape, form):
    """binary tensor in the given form; returns (tensor, list of position payloads in row-major order, per-item position lists)"""
    if form == "complex64":
        re = ctx.bits(name + ".re", shape)
        im = ctx.bits(name + ".im", shape)
        with ctx.sym():
            t = torch.complex(re, im)
        pr, pi = P(re), P(im)
        return t, (pr, pi)
    t = ctx.bits(name, shape, dtype=getattr(torch, form))
    return t, (P(t), None)


def _ind(a, b):
    """1 if the two binary scalars differ else 0 (GF(2) normal form on bit-valued payloads)"""
    return S.mod(S.add(a, b), 2)


def d_count(xp, yp):
    """number of differing positions; complex: real and imaginary parts are separate positions"""
    acc = 0
    for (xa, ya) in zip(xp, yp):
        if xa is None:
            continue
        for a, b in zip(xa.reshape(-1), ya.reshape(-1)):
            acc = S.add(acc, _ind(a, b))
    return acc


def n_positions(xp):
    return sum(int(a.size) for a in xp if a is not None)


def block_flags(xp, yp, B):
    """per block: Bool 'block contains a difference'.  Blocks = consecutive runs of B elements of one batch item (dim 0 = batch);
    a complex element differs if its real or imaginary part differs."""
    xr, xi = xp
    yr, yi = yp
    nb0 = xr.shape[0]
    per = int(np.prod(xr.shape[1:])) if xr.ndim > 1 else 1
    if B is None:
        B = per
    assert per % B == 0
    flags = []
    for b in range(nb0):
        elems = []
        for k in range(per):
            dif = S.ne(xr.reshape(nb0, per)[b, k], yr.reshape(nb0, per)[b, k])
            if xi is not None:
                dif = S.lor(dif, S.ne(xi.reshape(nb0, per)[b, k], yi.reshape(nb0, per)[b, k]))
            elems.append(dif)
        for j in range(per // B):
            flags.append(SP.disj(elems[j * B : (j + 1) * B]))
    return flags


def count_true(flags):
    acc = 0
    for f in flags:
        acc = S.add(acc, S.ite(f, 1, 0))
    return acc


def all_equal(xp, yp):
    cl = []
    for xa, ya in zip(xp, yp):
        if xa is None:
            continue
        cl += [S.eq(a, b) for a, b in zip(xa.reshape(-1), ya.reshape(-1))]
    return SP.conj(cl)


def close(v, q):
    return SP.all_close(np.asarray(v, dtype=object).reshape(1), np.asarray(q, dtype=object).reshape(1), rtol=RTOL)


def scal(t):
    """payload of a 0-dim tensor / python number"""
    if isinstance(t, torch.Tensor):
        return P(t).reshape(-1)[0]
    return S.norm(t) if not isinstance(t, S.Sym) else t


def iff(a, b):
    return S.land(S.lor(S.lnot(a), b), S.lor(S.lnot(b), a))


def _divisors(n):
    return [b for b in range(1, n + 1) if n % b == 0]


def _per_item(shape):
    return int(np.prod(shape[1:])) if len(shape) > 1 else 1


# ------------------------------------------------------------------------------------------------ BER one-shot
def _ber_cfgs(tier):
    out = []
    shapes = ["n6", "1x6", "2x3", "2x6"] + (["2x2x3", "3x4"] if tier == "thorough" else [])
    for shp in shapes:
        for form in ("float32", "int64", "complex64"):
            if form == "complex64" and shp in ("2x6", "3x4") and tier == "quick":
                continue
            out.append(Cfg("ber", form, shp))
    return out


@obligation("C16.ber_forward", function=FB + ":BitErrorRate.forward", configs=_ber_cfgs, crosscheck=3)
def ber_forward(ctx, cfg):
    from kaira.metrics.signal.ber import BitErrorRate

    _, form, shp = cfg
    shape = SHAPES[shp]
    x, xp = _bits(ctx, "x", shape, form)
    y, yp = _bits(ctx, "y", shape, form)
    m = BitErrorRate()
    out = ctx.call(m.forward, x, y)
    ctx.ensure("returns", out.ok, note=repr(out.exc) if not out.ok else "")
    if not out.ok:
        return
    v = scal(out.value)
    N = n_positions(xp)
    d = d_count(xp, yp)
    ctx.ensure("exact_fraction", close(v, S.div(d, N)), note=f"#differing positions / {N}")
    ctx.ensure("zero_iff_equal", iff(S.eq(v, 0), all_equal(xp, yp)))
    ctx.ensure("in_unit_interval", S.land(S.le(0, v), S.le(v, 1)))
    out2 = ctx.call(m.forward, y, x)
    ctx.ensure("symmetric", out2.ok and S.eq(scal(out2.value), v))
    ctx.ensure("inputs_unmodified", S.land(out.unmodified, out2.unmodified))
    ctx.ensure("stateless", S.land(S.eq(scal(m.total_bits), 0), S.eq(scal(m.error_bits), 0)), note="forward must not touch the streaming counters")


# ------------------------------------------------------------------------------------------------ BLER one-shot (+ aliases, + cross-metric inequality)
def _bler_cfgs(tier):
    out = []
    shapes = ["1x6", "2x3", "3x2", "2x4", "n4"] + (["2x6", "2x2x3", "3x4", "1x2x2"] if tier == "thorough" else ["1x2x2"])
    for shp in shapes:
        per = _per_item(SHAPES[shp])
        for B in _divisors(per) + [None]:
            for form in ("float32",) + (("int64",) if B in (None, per) else ()) + (("complex64",) if (B in (2, None) and shp in ("2x4", "1x6") and not (tier == "quick" and shp == "2x4" and B == 2)) else ()):
                for var in ("exact", "sym"):
                    out.append(Cfg("bler", form, shp, B, var))
    return out


@obligation("C16.bler_forward", function=FL + ":BlockErrorRate.forward; " + FL + ":BlockErrorRate._reshape_into_blocks; " + FB + ":BitErrorRate.forward", configs=_bler_cfgs, crosscheck=3, max_paths=600)
def bler_forward(ctx, cfg):
    from kaira.metrics.signal.ber import BitErrorRate
    from kaira.metrics.signal.bler import BlockErrorRate

    _, form, shp, B, var = cfg
    shape = SHAPES[shp]
    x, xp = _bits(ctx, "x", shape, form)
    y, yp = _bits(ctx, "y", shape, form)
    m = BlockErrorRate(block_size=B)
    out = ctx.call(m.forward, x, y)
    ctx.ensure("returns", out.ok, note=repr(out.exc) if not out.ok else "")
    if not out.ok:
        return
    v = scal(out.value)
    flags = block_flags(xp, yp, B)
    nb = len(flags)
    db = count_true(flags)
    if var == "exact":
        ctx.ensure("exact_fraction", close(v, S.div(db, nb)), note=f"#blocks with a difference / {nb}")
        ctx.ensure("zero_iff_equal", iff(S.eq(v, 0), all_equal(xp, yp)))
        ctx.ensure("inputs_unmodified", out.unmodified)
        ctx.ensure("stateless", S.land(S.eq(scal(m.total_blocks), 0), S.eq(scal(m.error_blocks), 0)))
        # cross-metric inequality on the REAL outputs of both metrics (block size in positions: a complex element is 2 positions)
        ob = ctx.call(BitErrorRate().forward, x, y)
        ctx.ensure("ber_returns", ob.ok)
        if ob.ok:
            ber = scal(ob.value)
            Bpos = (B if B is not None else _per_item(shape)) * (2 if form == "complex64" else 1)
            slack = Fraction(1, 10**6)
            ctx.ensure("ber_le_bler", S.le(ber, S.add(v, slack)))
            ctx.ensure("bler_le_B_ber", S.le(v, S.add(S.mul(Bpos, ber), slack)), note=f"B = {Bpos} positions per block")
            ctx.ensure("bler_le_1", S.le(v, 1))
        # other reductions of the same class
        for red in ("sum", "none"):
            o2 = ctx.call(BlockErrorRate(block_size=B, reduction=red).forward, x, y)
            if red == "sum":
                ctx.ensure("reduction_sum_is_count", o2.ok and S.eq(scal(o2.value), db))
            else:
                ctx.ensure("reduction_none_is_flags", o2.ok and SP.shape_is(o2.value, (nb,)) and SP.conj(S.eq(a, S.ite(f, 1, 0)) for a, f in zip(P(o2.value), flags)))
    else:
        out2 = ctx.call(m.forward, y, x)
        ctx.ensure("symmetric", out2.ok and S.eq(scal(out2.value), v))


@obligation("C16.bler_aliases_and_rejections", function=FL + ":BlockErrorRate.__init__; " + FL + ":BlockErrorRate._reshape_into_blocks; " + FL + ":BlockErrorRate.update", configs=lambda tier: [Cfg("closed")], kind="ground", engine="ground")
def bler_closed(cfg):
    import kaira.metrics.signal.bler as L
    from kaira.metrics.registry import MetricRegistry

    yield "aliases_are_the_class", all(getattr(L, n) is L.BlockErrorRate for n in ("BLER", "SymbolErrorRate", "FrameErrorRate", "SER", "FER")), "SER/FER/BLER/SymbolErrorRate/FrameErrorRate are the same class object: every BlockErrorRate obligation is an obligation on them"
    reg = getattr(MetricRegistry, "_metrics", None) or getattr(MetricRegistry, "_registry", {})
    names = {n: reg.get(n) for n in ("bler", "ser", "fer")}
    yield "registry_names", all(v is L.BlockErrorRate for v in names.values()), f"registry: {names}"
    bad = []
    n = 0
    for shape in [(1, 6), (2, 6), (2, 3), (2, 2, 3), (3, 4), (6,), (1, 5)]:
        per = _per_item(shape)
        for B in range(1, per + 3):
            if per % B == 0:
                continue
            n += 1
            x = torch.zeros(shape)
            y = torch.ones(shape)
            m = L.BlockErrorRate(block_size=B)
            for fn in (m.forward, m.update):
                try:
                    fn(x, y)
                    bad.append((shape, B, fn.__name__, "returned"))
                except ValueError:
                    pass
                except Exception as e:  # wrong exception type
                    bad.append((shape, B, fn.__name__, repr(e)))
            if int(m.total_blocks) != 0 or int(m.error_blocks) != 0:
                bad.append((shape, B, "state changed by a rejected update"))
    yield "non_divisor_block_size_raises", not bad, f"{n} (shape, non-divisor block size) pairs, forward and update must raise ValueError and leave the counters untouched; offending: {bad[:4]}"
    bad = []
    for B in (0, -1, -4):
        try:
            L.BlockErrorRate(block_size=B)
            bad.append(B)
        except ValueError:
            pass
    yield "non_positive_block_size_rejected", not bad, f"constructor accepted {bad}"
    bad = []
    for fn_name in ("forward", "update"):
        for cls, kw in ((L.BlockErrorRate, {"block_size": 2}),):
            try:
                getattr(cls(**kw), fn_name)(torch.zeros(2, 4), torch.zeros(2, 2))
                bad.append(fn_name)
            except ValueError:
                pass
    yield "shape_mismatch_raises", not bad, f"{bad}"


# ------------------------------------------------------------------------------------------------ helper metrics
def _helper_cfgs(tier):
    out = [Cfg("hber", f, s) for s in (["n4", "n6", "2x3"] + (["2x4"] if tier == "thorough" else [])) for f in ("float32", "int64")]
    # multi-dimensional inputs are flattened row-major before blocking (2x3: blocks of 2 straddle the rows)
    for shp, Bs in (("n4", (1, 2, 4)), ("n6", (1, 2, 3, 6)), ("2x3", (1, 2, 3, 6))):
        for B in Bs:
            out.append(Cfg("hbler", "int64" if B == 2 else "float32", shp, B))
    return out


@obligation("C16.helper_metrics", function=FH + ":StandardMetrics.bit_error_rate; " + FH + ":StandardMetrics.block_error_rate", configs=_helper_cfgs, crosscheck=3, max_paths=1200)
def helper_metrics(ctx, cfg):
    from kaira.benchmarks.metrics import StandardMetrics
    from kaira.metrics.signal.ber import BitErrorRate
    from kaira.metrics.signal.bler import BlockErrorRate

    kind, form, shp = cfg[:3]
    shape = SHAPES[shp]
    x, xp = _bits(ctx, "x", shape, form)
    y, yp = _bits(ctx, "y", shape, form)
    if kind == "hber":
        out = ctx.call(StandardMetrics.bit_error_rate, x, y)
        ctx.ensure("returns_float", out.ok and type(out.value) is float, note=repr(out.exc) if not out.ok else "")
        if not out.ok:
            return
        v = scal(out.value)
        ctx.ensure("exact_fraction", close(v, S.div(d_count(xp, yp), n_positions(xp))))
        oc = ctx.call(BitErrorRate().forward, x, y)
        ctx.ensure("equals_metric_class", oc.ok and close(v, scal(oc.value)))
        return
    B = cfg[3]
    out = ctx.call(StandardMetrics.block_error_rate, x, y, B)
    ctx.ensure("returns_float", out.ok and type(out.value) is float, note=repr(out.exc) if not out.ok else "")
    if not out.ok:
        return
    v = scal(out.value)
    # common domain: 1-D data of length divisible by B == one batch item of the metric class
    xr, yr = xp[0].reshape(1, -1), yp[0].reshape(1, -1)
    flags = block_flags((xr, None), (yr, None), B)
    ctx.ensure("exact_fraction", close(v, S.div(count_true(flags), len(flags))))
    with ctx.sym():
        x2, y2 = x.reshape(1, -1), y.reshape(1, -1)
    oc = ctx.call(BlockErrorRate(block_size=B).forward, x2, y2)
    ctx.ensure("equals_metric_class", oc.ok and close(v, scal(oc.value)))


@obligation("C16.helper_domain", function=FH + ":StandardMetrics.block_error_rate", configs=lambda tier: [Cfg("closed")], kind="ground", engine="ground")
def helper_domain(cfg):
    """what the helper does outside the common domain (the metric class rejects these inputs)"""
    from kaira.benchmarks.metrics import StandardMetrics

    bad = []
    n = 0
    for L in (5, 6, 7, 8):
        for B in range(2, L + 2):
            if L % B == 0:
                continue
            n += 1
            x = torch.zeros(L)
            y = torch.zeros(L)
            y[-1] = 1.0  # the only difference sits in the trailing partial block
            try:
                v = StandardMetrics.block_error_rate(x, y, B)
                bad.append((L, B, v))
            except (ValueError, ZeroDivisionError):
                pass
    yield "non_divisor_block_size_rejected", not bad, f"{n} (length, non-divisor block size) pairs with the single bit error in the trailing partial block; helper returned a value instead of raising for (length, B, value): {bad[:5]}"


# ------------------------------------------------------------------------------------------------ streaming: data structure with abstract view (T, E)
BIG = 10**12


def _sym_state(ctx, m, tname, ename, hi=BIG):
    """set the metric's counters to symbolic non-negative integers with E <= T (the invariant of the data structure)"""
    T = ctx.ints("T", (), 0, hi, dtype=getattr(m, tname).dtype)  # the dtype the real constructor chose for the counter
    E = ctx.ints("E", (), 0, hi, dtype=getattr(m, ename).dtype)
    t0, e0 = scal(T), scal(E)
    ctx.assume(S.le(e0, t0))
    setattr(m, tname, T)
    setattr(m, ename, E)
    return t0, e0


def _frame(m):
    return (tuple(sorted(m._buffers)), tuple(sorted(k for k in m.__dict__ if not k.startswith("_"))), getattr(m, "threshold", None), getattr(m, "block_size", None), getattr(m, "reduction", None), m.training)


def _upd_cfgs(tier):
    out = []
    for shp in ["n6", "2x3", "1x6"] + (["2x6", "2x2x3"] if tier == "thorough" else []):
        for form in ("float32", "complex64") + (("int64",) if shp == "2x3" else ()):
            out.append(Cfg("ber", form, shp, None))
    for shp in ["2x4", "1x6", "3x2", "n4"] + (["2x6", "2x2x3"] if tier == "thorough" else []):
        per = _per_item(SHAPES[shp])
        for B in _divisors(per) + [None]:
            out.append(Cfg("bler", "float32", shp, B))
        if shp == "2x4":
            out.append(Cfg("bler", "complex64", shp, 2))
    return out


def _metric(kind, B):
    from kaira.metrics.signal.ber import BitErrorRate
    from kaira.metrics.signal.bler import BlockErrorRate

    if kind == "ber":
        return BitErrorRate(), "total_bits", "error_bits"
    return BlockErrorRate(block_size=B), "total_blocks", "error_blocks"


def _batch_counts(kind, xp, yp, B):
    if kind == "ber":
        return n_positions(xp), d_count(xp, yp)
    flags = block_flags(xp, yp, B)
    return len(flags), count_true(flags)


@obligation("C16.update", function=FB + ":BitErrorRate.update; " + FL + ":BlockErrorRate.update; " + FL + ":BlockErrorRate._reshape_into_blocks", configs=_upd_cfgs, crosscheck=3)
def update(ctx, cfg):
    kind, form, shp, B = cfg
    shape = SHAPES[shp]
    m, tn, en = _metric(kind, B)
    t0, e0 = _sym_state(ctx, m, tn, en)
    x, xp = _bits(ctx, "x", shape, form)
    y, yp = _bits(ctx, "y", shape, form)
    fr = _frame(m)
    out = ctx.call(m.update, x, y)
    ctx.ensure("returns_none", out.ok and out.value is None, note=repr(out.exc) if not out.ok else "")
    if not out.ok:
        return
    n, d = _batch_counts(kind, xp, yp, B)
    t1, e1 = scal(getattr(m, tn)), scal(getattr(m, en))
    ctx.ensure("total_advances_by_batch_size", S.eq(t1, S.add(t0, n)), note=f"n = {n}")
    ctx.ensure("errors_advance_by_batch_errors", S.eq(e1, S.add(e0, d)))
    ctx.ensure("invariant_preserved", S.land(S.le(0, e1), S.le(e1, t1)))
    ctx.ensure("counters_stay_integer", not getattr(m, tn).dtype.is_floating_point and not getattr(m, en).dtype.is_floating_point, note="integer accumulation: no drift over long histories")
    ctx.ensure("frame", _frame(m) == fr and out.unmodified is not False and S.land(out.unmodified, True), note="no other attribute / buffer / input changes")


def _cmp_cfgs(tier):
    return [Cfg("ber", "sym"), Cfg("bler", 6 if tier == "quick" else 14)]


@obligation("C16.compute", function=FB + ":BitErrorRate.compute; " + FL + ":BlockErrorRate.compute", configs=_cmp_cfgs, crosscheck=4, max_paths=400)
def compute(ctx, cfg):
    kind, bound = cfg
    m, tn, en = _metric(kind, 2)
    # BlockErrorRate.compute converts the counters with float(): the engine enumerates every value, so the state is symbolic over
    # 0 <= E <= T <= bound only; BitErrorRate.compute is proved for unbounded symbolic counters
    t0, e0 = _sym_state(ctx, m, tn, en, hi=BIG if bound == "sym" else bound)
    fr = _frame(m)
    out = ctx.call(m.compute)
    ctx.ensure("returns", out.ok, note=repr(out.exc) if not out.ok else "")
    if not out.ok:
        return
    v = scal(out.value)
    den = S.smax(t0, 1)
    ctx.ensure("errors_over_total", SP.all_close(np.asarray([S.mul(v, den)], dtype=object), np.asarray([e0], dtype=object), rtol=RTOL), note="result * max(T,1) == E; T == 0 gives E/1 = 0 under the invariant E <= T")
    ctx.ensure("in_unit_interval", S.land(S.le(0, v), S.le(v, S.add(1, RTOL))))
    ctx.ensure("state_unchanged", S.land(S.eq(scal(getattr(m, tn)), t0), S.eq(scal(getattr(m, en)), e0)) and _frame(m) == fr)


@obligation("C16.reset", function=FB + ":BitErrorRate.reset; " + FL + ":BlockErrorRate.reset", configs=lambda tier: [Cfg("ber"), Cfg("bler")], crosscheck=3)
def reset(ctx, cfg):
    (kind,) = cfg
    m, tn, en = _metric(kind, 2)
    _sym_state(ctx, m, tn, en)
    fr = _frame(m)
    out = ctx.call(m.reset)
    ctx.ensure("returns_none", out.ok and out.value is None, note=repr(out.exc) if not out.ok else "")
    if not out.ok:
        return
    ctx.ensure("state_is_initial", S.land(S.eq(scal(getattr(m, tn)), 0), S.eq(scal(getattr(m, en)), 0)))
    f0 = _metric(kind, 2)[0]
    ctx.ensure("same_as_fresh_object", _frame(m) == fr == _frame(f0) and S.land(S.eq(scal(getattr(f0, tn)), 0), S.eq(scal(getattr(f0, en)), 0)), note="base case of L-fold: constructor state == reset state == (0, 0)")
    if not isinstance(scal(getattr(m, tn)), S.Sym) and not isinstance(scal(getattr(m, en)), S.Sym):  # (a counter left symbolic already failed state_is_initial)
        oc = ctx.call(m.compute)
        ctx.ensure("compute_after_reset_is_zero", oc.ok and S.eq(scal(oc.value), 0))


def _s2_cfgs(tier):
    out = [Cfg("ber", "float32", 3, None), Cfg("ber", "complex64", 2, None)]
    out += [Cfg("bler", "float32", 4, 2), Cfg("bler", "float32", 3, None), Cfg("bler", "float32", 2, 1)]
    if tier == "thorough":
        out += [Cfg("ber", "float32", 6, None), Cfg("bler", "float32", 6, 3), Cfg("bler", "complex64", 2, 1)]
    return out


@obligation("C16.streaming_equals_oneshot", function=FB + ":BitErrorRate.update; " + FB + ":BitErrorRate.compute; " + FB + ":BitErrorRate.forward; " + FL + ":BlockErrorRate.update; " + FL + ":BlockErrorRate.compute; " + FL + ":BlockErrorRate.forward", configs=_s2_cfgs, crosscheck=2, max_paths=600)
def streaming_equals_oneshot(ctx, cfg):
    """direct instance of the L-fold conclusion: two batches of unequal size, both orders, against forward() on the concatenation"""
    kind, form, k, B = cfg
    x1, _ = _bits(ctx, "x1", (1, k), form)
    y1, _ = _bits(ctx, "y1", (1, k), form)
    x2, _ = _bits(ctx, "x2", (2, k), form)
    y2, _ = _bits(ctx, "y2", (2, k), form)
    ma, _, _ = _metric(kind, B)
    mb, _, _ = _metric(kind, B)
    oks = []
    for m, seq in ((ma, ((x1, y1), (x2, y2))), (mb, ((x2, y2), (x1, y1)))):
        for xb, yb in seq:
            oks.append(ctx.call(m.update, xb, yb).ok)
    ca, cb = ctx.call(ma.compute), ctx.call(mb.compute)
    with ctx.sym():
        xc, yc = torch.cat([x1, x2], dim=0), torch.cat([y1, y2], dim=0)
    one = ctx.call(_metric(kind, B)[0].forward, xc, yc)
    ctx.ensure("all_return", all(oks) and ca.ok and cb.ok and one.ok)
    if not (all(oks) and ca.ok and cb.ok and one.ok):
        return
    ctx.ensure("accumulated_equals_oneshot_on_concatenation", close(scal(ca.value), scal(one.value)))
    ctx.ensure("order_independent", S.eq(scal(ca.value), scal(cb.value)))


# ------------------------------------------------------------------------------------------------ bounded cross-check: the property's own histories
def _pool(rng, kind):
    """small pool of batches of unequal sizes incl. adversarial ones: all equal, all different, single difference"""
    k = 4
    pool = []
    for bsz, mode in ((1, "single"), (2, "random"), (3, "alldiff"), (1, "equal")):
        x = torch.tensor([[rng.randint(0, 1) for _ in range(k)] for _ in range(bsz)], dtype=torch.float32)
        if mode == "equal":
            y = x.clone()
        elif mode == "alldiff":
            y = 1 - x
        elif mode == "single":
            y = x.clone()
            y[0, rng.randrange(k)] = 1 - y[0, rng.randrange(k)]
            y = x.clone()
            j = rng.randrange(k)
            y[0, j] = 1 - x[0, j]
        else:
            y = torch.tensor([[rng.randint(0, 1) for _ in range(k)] for _ in range(bsz)], dtype=torch.float32)
        pool.append((x, y))
    if kind == "ber_complex":
        pool = [(torch.complex(x, y), torch.complex(y, y)) for x, y in pool]
    return pool


def _ref_counts(kind, x, y, B):
    """reference counter on plain Python lists"""
    if kind == "ber_complex":
        xs = [v for z in x.reshape(-1).tolist() for v in (z.real, z.imag)]
        ys = [v for z in y.reshape(-1).tolist() for v in (z.real, z.imag)]
        return len(xs), sum(1 for a, b in zip(xs, ys) if (a > 0.5) != (b > 0.5))
    if kind == "ber":
        xs, ys = x.reshape(-1).tolist(), y.reshape(-1).tolist()
        return len(xs), sum(1 for a, b in zip(xs, ys) if a != b)
    n, e = 0, 0
    for rx, ry in zip(x.tolist(), y.tolist()):
        Bk = B or len(rx)
        for j in range(0, len(rx), Bk):
            n += 1
            e += any(a != b for a, b in zip(rx[j : j + Bk], ry[j : j + Bk]))
    return n, e


@obligation("C16.histories", function=FB + ":BitErrorRate.update; " + FB + ":BitErrorRate.compute; " + FB + ":BitErrorRate.reset; " + FL + ":BlockErrorRate.update; " + FL + ":BlockErrorRate.compute; " + FL + ":BlockErrorRate.reset",
            configs=lambda tier: [Cfg("ber", None), Cfg("ber_complex", None), Cfg("bler", 2), Cfg("bler", None), Cfg("bler", 1)], kind="custom", engine="standin")
def histories(spec, cfg, tier, seed):
    kind, B = cfg
    t0 = time.time()
    rng = random.Random(seed * 131 + 7)
    pool = _pool(rng, kind)
    counts = [_ref_counts(kind, x, y, B) for x, y in pool]
    ops = [("u", i) for i in range(len(pool))] + [("c", None), ("r", None)]
    L = 4 if tier == "quick" else 6
    fail = None
    nseq = nops = 0

    def run(seq):
        nonlocal fail, nops
        m = _metric("ber" if kind.startswith("ber") else "bler", B)[0]
        T = E = 0
        # one-shot reference on the concatenation since the last reset
        since = []
        for step, (op, i) in enumerate(seq):
            nops += 1
            if op == "u":
                m.update(*pool[i])
                T += counts[i][0]
                E += counts[i][1]
                since.append(i)
            elif op == "r":
                m.reset()
                T = E = 0
                since = []
            got = float(m.compute())
            want = E / max(T, 1)
            if abs(got - want) > 1e-6 * max(want, 1e-3):
                fail = {"history": [f"{o}{'' if j is None else j}" for o, j in seq[: step + 1]], "compute": got, "reference": want}
                return False
            if op == "c" and since:
                xc = torch.cat([pool[j][0] for j in since])
                yc = torch.cat([pool[j][1] for j in since])
                one = float(m.forward(xc, yc))
                if abs(one - got) > 1e-6:
                    fail = {"history": [f"{o}{'' if j is None else j}" for o, j in seq[: step + 1]], "compute": got, "one_shot_on_concatenation": one}
                    return False
        return True

    for seq in itertools.product(ops, repeat=L):  # every shorter history is a prefix of one of these and is checked step by step
        nseq += 1
        if not run(seq):
            break
    nrand = 0
    if fail is None:
        for _ in range(20 if tier == "quick" else 300):
            nrand += 1
            if not run([rng.choice(ops) if rng.random() < 0.9 else ("u", rng.randrange(len(pool))) for _ in range(rng.randint(20, 200))]):
                break
    r = ObResult(prop="C16", ob=f"{spec.id}/compute_matches_reference_counter", config=str(cfg), function=spec.function, engine="standin", backend="native", kind="bounded")
    r.verdict = "discharged" if fail is None else "refuted"
    r.paths = nops
    r.queries = nseq + nrand
    r.witness = fail
    r.replay_confirmed = None if fail is None else True
    r.detail = f"bounded: EXHAUSTIVE over all {len(ops)}^{L} = {nseq} histories of update(batch 0..{len(pool) - 1})/compute/reset of length {L} (all shorter ones as prefixes) + {nrand} random histories of length 20..200, compute() after every step vs. a reference counter and forward() on the concatenation; cross-check of the L-fold induction, never counted as proved"
    r.wall_s = round(time.time() - t0, 2)
    return [r]


# ================================================================================================ soft inputs on the decision threshold
@obligation("C16.streaming_equals_oneshot_on_threshold_ties", function="kaira/metrics/signal/ber.py:BitErrorRate.update; kaira/metrics/signal/ber.py:BitErrorRate.forward; kaira/metrics/signal/bler.py:BlockErrorRate.update; kaira/metrics/signal/bler.py:BlockErrorRate.forward",
            configs=lambda tier: [Cfg("ties", m, t) for m in ("ber", "bler") for t in ("default", "0.0", "0.25")], kind="ground", engine="ground")
def streaming_equals_oneshot_ties(cfg):
    """the accumulated value equals the one-shot value on the concatenated data ALSO for real-valued (soft) inputs that sit exactly
    on the decision threshold: the streaming path and the one-shot path must take the same hard decision.  Closed and exhaustive: all
    pairs of words over {0, 1/4, 1/2, 1} of length 3 (4096 pairs), three thresholds, whole and split updates."""
    import itertools

    from kaira.metrics.signal.ber import BitErrorRate
    from kaira.metrics.signal.bler import BlockErrorRate

    _, which, t = cfg
    kw = {} if t == "default" else {"threshold": float(t)}
    mk = (lambda: BitErrorRate(**kw)) if which == "ber" else (lambda: BlockErrorRate(block_size=3, **kw))
    vals = (0.0, 0.25, 0.5, 1.0)
    words = [torch.tensor([w]) for w in itertools.product(vals, repeat=3)]
    bad = []
    n = 0
    for x in words:
        for y in words:
            n += 1
            one = float(mk()(x, y))
            m = mk()
            m.update(x, y)
            whole = float(m.compute())
            m2 = mk()
            # the same data as two updates of two identical rows vs one shot on the stacked rows
            x2, y2 = torch.cat([x, x]), torch.cat([y, y])
            m2.update(x, y)
            m2.update(x, y)
            split, one2 = float(m2.compute()), float(mk()(x2, y2))
            if not (one == whole and one2 == split and one == one2):
                bad.append(f"x={x.tolist()} y={y.tolist()}: one-shot {one}, update+compute {whole}; two rows one-shot {one2}, two updates {split}")
                if len(bad) > 3:
                    break
        if len(bad) > 3:
            break
    yield "accumulated_equals_one_shot", not bad, "; ".join(bad[:2]) or f"{n} pairs of words over {{0, 1/4, 1/2, 1}}^3, threshold {t}"


# ================================================================================================ views and exact counts (closed)
@obligation("C16.views_and_exact_counts", function=FB + ":BitErrorRate.update; " + FB + ":BitErrorRate.forward; " + FL + ":BlockErrorRate.update; " + FL + ":BlockErrorRate.forward; " + FL + ":BlockErrorRate._reshape_into_blocks",
            configs=lambda tier: [Cfg("closed", "views"), Cfg("closed", "counts")], kind="ground", engine="ground")
def views_and_exact_counts(cfg):
    """closed obligations on the real metric classes.
    views:  the value for a non-contiguous VIEW of the data (transposed, every second column, permuted) equals the value for a
            contiguous copy of the same numbers - one-shot and accumulated, BER and BLER;
    counts: for every batch size N = 1..130 (and 1000, 4097) and EVERY number k of bit errors the accumulated BER after one update
            is the float the one-shot path returns for the same data, and after a second batch it equals (k1+k2)/(N1+N2): the
            counters hold integers, not rates multiplied back"""
    from kaira.metrics.signal.ber import BitErrorRate
    from kaira.metrics.signal.bler import BlockErrorRate

    what = cfg[1]
    bad = []
    if what == "views":
        g = torch.Generator().manual_seed(5)
        base = torch.randint(0, 2, (6, 12), generator=g).float()
        other = torch.randint(0, 2, (6, 12), generator=g).float()
        big_x = torch.randint(0, 2, (6, 24), generator=g).float()
        big_y = torch.randint(0, 2, (6, 24), generator=g).float()
        cube_x = torch.randint(0, 2, (4, 3, 6), generator=g).float()
        cube_y = torch.randint(0, 2, (4, 3, 6), generator=g).float()
        views = [("transposed", base.t(), other.t()), ("every_second_column", big_x[:, ::2], big_y[:, ::2]), ("permuted_3d", cube_x.permute(1, 0, 2), cube_y.permute(1, 0, 2)),
                 ("expanded_rows", base[:1].expand(3, 12), other[:1].expand(3, 12))]
        for nm, xv, yv in views:
            xc, yc = xv.contiguous(), yv.contiguous()
            for mname, mk in (("ber", lambda: BitErrorRate()), ("bler3", lambda: BlockErrorRate(block_size=3)), ("bler2", lambda: BlockErrorRate(block_size=2))):
                try:
                    a, b = float(mk()(xv, yv)), float(mk()(xc, yc))
                    m1, m2 = mk(), mk()
                    m1.update(xv, yv), m2.update(xc, yc)
                    c, d = float(m1.compute()), float(m2.compute())
                except Exception as e:
                    bad.append(f"{mname} {nm}: raised {e!r}")
                    continue
                if not (a == b and c == d and a == c):
                    bad.append(f"{mname} {nm} {tuple(xv.shape)} strides {xv.stride()}: view one-shot {a}, contiguous {b}, view accumulated {c}, contiguous accumulated {d}")
        yield "view_equals_contiguous_copy", not bad, "; ".join(bad[:3]) or "transposed, strided, permuted and expanded views; BER, BLER(2), BLER(3); one-shot and accumulated"
        return
    n = 0
    for N in list(range(1, 131)) + [1000, 4097]:
        ks = range(N + 1) if N <= 130 else (0, 1, 2, 251, 499, N - 1, N)
        for k in ks:
            x = torch.zeros(1, N)
            y = torch.zeros(1, N)
            y[0, :k] = 1.0
            n += 1
            one = float(BitErrorRate()(x, y))
            m = BitErrorRate()
            m.update(x, y)
            acc = float(m.compute())
            m.update(x, torch.zeros(1, N))  # a second, error-free batch of the same size
            acc2 = float(m.compute())
            want2 = float(torch.tensor(k, dtype=torch.float64) / (2 * N))
            if not (acc == one and abs(acc2 - want2) <= 1e-6 * max(want2, 1e-12) + 1e-9):
                bad.append(f"N={N} k={k}: one-shot {one!r}, accumulated {acc!r}; after a second error-free batch {acc2!r}, expected {want2!r}")
                if len(bad) > 3:
                    break
        if len(bad) > 3:
            break
    yield "accumulated_counts_are_exact", not bad, "; ".join(bad[:3]) or f"{n} (N, k) pairs"
