"""C14 (constellation part) - every modulator's constellation consists of 2^b distinct points labelled by all 2^b distinct
b-bit patterns, has unit average energy when normalisation is requested (or by definition for PSK-type schemes), and a
requested Gray labelling puts exactly one bit difference between any two nearest-neighbour points.

All admissible configurations are finitely many, and nothing is quantified once the real constructor has run: these are
GROUND obligations, decided by exact rational arithmetic on the stored float32 values of the buffers the real constructors
registered (`constellation`, `bit_patterns`, pi/4-QPSK: `qpsk`, `qpsk_rotated`).  The link "bit pattern -> point" used by
the modulator's forward() is checked against the published tables (forward(bit_patterns[i]) == constellation[i]).

The Gray integer utilities binary_to_gray / gray_to_binary are in contracts/c14_gray.py (engine E1, BV(64)); the array forms
binary_array_to_gray / gray_array_to_binary convert every element with int(num) (full concretisation) and get the bounded
stand-in here: elementwise map of the scalar functions, dtype/device/shape preserved.
"""
from __future__ import annotations

import itertools
import random
import time
from fractions import Fraction

import torch

from vk.harness import ObResult, obligation

from . import c14_gray  # noqa: F401  (registers the E1 obligations of the same property)
from . import mods
from .codes import Cfg

M = "kaira/modulations/"
REL = Fraction(1, 10**6)

CONSTRUCTORS = {
    "bpsk": M + "psk.py:BPSKModulator.__init__",
    "qpsk": M + "psk.py:QPSKModulator.__init__",
    "psk": M + "psk.py:PSKModulator._create_constellation",
    "qam": M + "qam.py:QAMModulator._create_constellation",
    "pam": M + "pam.py:PAMModulator._create_constellation",
    "dpsk": M + "dpsk.py:DPSKModulator._create_constellation",
    "dbpsk": M + "dpsk.py:DPSKModulator._create_constellation",
    "dqpsk": M + "dpsk.py:DPSKModulator._create_constellation",
    "oqpsk": M + "oqpsk.py:OQPSKModulator.__init__",
    "pi4qpsk": M + "pi4qpsk.py:Pi4QPSKModulator._create_constellations",
    "identity": M + "identity.py:IdentityModulator._create_constellation",
}
FORWARDS = {
    "bpsk": M + "psk.py:BPSKModulator.forward",
    "qpsk": M + "psk.py:QPSKModulator.forward",
    "psk": M + "psk.py:PSKModulator.forward",
    "qam": M + "qam.py:QAMModulator.forward",
    "pam": M + "pam.py:PAMModulator.forward",
    "dpsk": M + "dpsk.py:DPSKModulator.forward",
    "dbpsk": M + "dpsk.py:DPSKModulator.forward",
    "dqpsk": M + "dpsk.py:DPSKModulator.forward",
    "oqpsk": M + "oqpsk.py:OQPSKModulator.forward",
    "pi4qpsk": M + "pi4qpsk.py:Pi4QPSKModulator.forward",
    "identity": M + "identity.py:IdentityModulator.forward",
}
ALL_FUNCS = "; ".join(sorted(set(CONSTRUCTORS.values()))) + "; " + M + "utils.py:binary_to_gray"
ALL_FWD = "; ".join(sorted(set(FORWARDS.values())))


def configs(tier):
    return mods.catalogue(tier) + [Cfg("identity")]


# ------------------------------------------------------------------------------------------------ what the property demands per scheme
def unit_energy_demanded(cfg):
    """(demanded, why): normalisation requested through the scheme's own option, or a PSK-type scheme without such an option"""
    fam = cfg[0]
    if fam in ("qam", "pam"):
        return cfg[3] == "norm", "normalize=%s" % (cfg[3] == "norm")
    if fam in ("qpsk", "oqpsk"):
        return cfg[1] == "norm", "normalize=%s" % (cfg[1] == "norm")
    if fam in ("bpsk", "psk", "dpsk", "dbpsk", "dqpsk", "pi4qpsk"):
        return True, "PSK-type scheme (unit circle by definition)"
    return False, "no normalisation option, not PSK-type"


def gray_requested(cfg, mod):
    fam = cfg[0]
    if fam in ("psk", "qam", "pam", "dpsk"):
        return cfg[2] == "gray"
    if fam == "pi4qpsk":
        return cfg[1] == "gray"
    if fam in ("dbpsk", "dqpsk"):
        return bool(mod.gray_coding)  # the subclass fixes the option it passes to DPSKModulator
    if fam == "qpsk":
        return True  # no option: the class documents its fixed labelling as "standard Gray-coded QPSK convention"
    return False


def tables(cfg, mod):
    """[(name, [complex points as (Fraction, Fraction)], labels as list of int tuples or None)]"""
    def pts(t):
        with torch.no_grad():
            t = t.detach()
            if t.is_complex():
                return [(Fraction(float(a)), Fraction(float(b))) for a, b in zip(t.real.tolist(), t.imag.tolist())]
            return [(Fraction(float(a)), Fraction(0)) for a in t.tolist()]

    def labs(t):
        return [tuple(Fraction(float(v)) for v in row) for row in t.detach().tolist()]

    bp = getattr(mod, "bit_patterns", None)
    labels = labs(bp) if bp is not None else None
    if cfg[0] == "pi4qpsk":
        return [("qpsk", pts(mod.qpsk), labels), ("qpsk_rotated", pts(mod.qpsk_rotated), labels), ("constellation", pts(mod.constellation), labels)]
    out = [("constellation", pts(mod.constellation), labels)]
    if cfg[0] == "pam":
        out.append(("levels", pts(mod.levels), labels))
    return out


def d2(p, q):
    return (p[0] - q[0]) ** 2 + (p[1] - q[1]) ** 2


def nearest_neighbour_pairs(points):
    """pairs (i, j), i < j, whose Euclidean distance d satisfies d <= dmin * (1 + 1e-6) + 2^-19 * max|coordinate|:
    the 1e-6 relative tie window, widened by the float32 error of the stored tables (coordinates are computed in float32 from
    float32 angles / levels: a few ulps each, 2^-19 = 16 half-ulps at the largest coordinate).  Without this term true
    neighbours drop out of the check: only 53 of the 63 adjacent pairs of normalised 64-PAM and 1 of the 64 adjacent pairs of
    64-PSK (2 of 32 for 32-PSK) are within 1e-6 of the minimum distance.  The next-nearest pairs of every enumerated table are at >= 1.41 dmin."""
    import math

    pairs = list(itertools.combinations(range(len(points)), 2))
    dd = {pq: d2(points[pq[0]], points[pq[1]]) for pq in pairs}
    dmin2 = min(dd.values())
    maxabs = max(max(abs(p[0]), abs(p[1])) for p in points)
    dmin_up = Fraction(math.sqrt(float(dmin2))) * (1 + Fraction(1, 10**12))  # upper bound of dmin up to float64 sqrt accuracy
    lim = (dmin_up * (1 + REL) + Fraction(1, 2**19) * maxabs) ** 2
    return [pq for pq in pairs if dd[pq] <= lim], dmin2


def hamming(a, b):
    return sum(1 for x, y in zip(a, b) if x != y)


def _fmt(p):
    return f"{float(p[0]):+.6g}{float(p[1]):+.6g}j"


@obligation("C14.constellation", function=ALL_FUNCS, configs=configs, kind="ground", engine="ground")
def constellation(cfg):
    mod, _ = mods.build(cfg)
    b = mod.bits_per_symbol
    want_energy, why_energy = unit_energy_demanded(cfg)
    gray = gray_requested(cfg, mod)
    for name, pts, labels in tables(cfg, mod):
        tag = "" if name == "constellation" else f"[{name}]"
        n = len(pts)
        yield f"point_count{tag}", n == 2**b, f"{n} points, bits_per_symbol = {b}"
        dup = [(i, j) for i, j in itertools.combinations(range(n), 2) if pts[i] == pts[j]]
        yield f"points_distinct{tag}", not dup, f"coinciding points (index pairs): {dup[:4]}" if dup else f"{n} pairwise distinct points"
        if labels is not None:
            okshape = len(labels) == 2**b and all(len(r) == b for r in labels)
            okbin = all(v in (0, 1) for r in labels for v in r)
            yield f"labels_are_bit_words{tag}", okshape and okbin, f"bit_patterns: {len(labels)} rows of width {sorted({len(r) for r in labels})}, binary entries: {okbin}"
            distinct = len(set(labels)) == len(labels)
            yield f"labels_distinct{tag}", distinct and len(labels) == 2**b, f"{len(set(labels))} distinct labels out of {len(labels)} rows; 2^b = {2 ** b}"
        elif name == "constellation":
            yield "labels_published", True, "no bit_patterns table: the label of point i is the b-bit word of i (b = 1); checked through forward_link"
        if want_energy:
            e = sum(p[0] ** 2 + p[1] ** 2 for p in pts) / n
            yield f"unit_average_energy{tag}", abs(e - 1) <= REL, f"mean |c|^2 = {float(e):.9f} ({why_energy})"
        if gray and labels is not None and n >= 2:
            nn, dmin2 = nearest_neighbour_pairs(pts)
            bad = [(i, j, hamming(labels[i], labels[j])) for i, j in nn if hamming(labels[i], labels[j]) != 1]
            det = f"{len(nn)} nearest-neighbour pairs at distance {float(dmin2) ** 0.5:.6g}"
            if bad:
                i, j, h = bad[0]
                bits = lambda r: "".join(str(int(v)) for v in r)
                det += f"; {len(bad)} of them differ in != 1 bit, e.g. points {i} ({_fmt(pts[i])}, label {bits(labels[i])}) and {j} ({_fmt(pts[j])}, label {bits(labels[j])}) differ in {h} bits"
            yield f"gray_neighbours_differ_in_one_bit{tag}", not bad, det


# ------------------------------------------------------------------------------------------------ bit pattern -> point link of forward()
def _close(z, p):
    re, im = Fraction(float(z.real)), Fraction(float(z.imag))
    tol = Fraction(1, 10**9) + REL * max(abs(p[0]), abs(p[1]))
    return abs(re - p[0]) <= tol and abs(im - p[1]) <= tol


def _call(mod, x):
    mod.eval()
    mod.reset_state()
    with torch.no_grad():
        y = mod(x)
    return y if y.is_complex() else torch.complex(y.float(), torch.zeros_like(y.float()))


@obligation("C14.forward_link", function=ALL_FWD, configs=configs, kind="ground", engine="ground")
def forward_link(cfg):
    """forward(label of point i) == point i, for the published tables; layouts 1-D and (1, b).
    Schemes with memory (after reset_state(), eval()): DPSK family: first symbol = reference (1+0j) * shift table[i];
    OQPSK: in-phase component in symbol 0, quadrature component in symbol 1; pi/4-QPSK: symbol 0 from `qpsk`, symbol 1 from `qpsk_rotated`."""
    fam = cfg[0]
    mod, _ = mods.build(cfg)
    b = mod.bits_per_symbol
    tabs = tables(cfg, mod)
    pts = tabs[0][1]
    labels = tabs[0][2]
    if labels is None:
        labels = [tuple(Fraction((i >> (b - 1 - k)) & 1) for k in range(b)) for i in range(len(pts))]
    for layout in ("1d", "B1"):
        bad = []
        err = None
        for i, lab in enumerate(labels):
            if i >= len(pts):
                break
            word = [float(v) for v in lab]
            try:
                if fam == "oqpsk":
                    x = torch.tensor(word + [0.0, 0.0])
                    y = _call(mod, x if layout == "1d" else x.unsqueeze(0)).reshape(-1)
                    ok = len(y) == 2 and abs(Fraction(float(y[0].real)) - pts[i][0]) <= REL and abs(Fraction(float(y[1].imag)) - pts[i][1]) <= REL
                    got = f"re(y0)={float(y[0].real):+.6g}, im(y1)={float(y[1].imag):+.6g}" if len(y) == 2 else f"{len(y)} symbols"
                elif fam == "pi4qpsk":
                    x = torch.tensor([float(v) for v in labels[0]] + word)
                    y = _call(mod, x if layout == "1d" else x.unsqueeze(0)).reshape(-1)
                    x0 = torch.tensor(word)
                    y0 = _call(mod, x0 if layout == "1d" else x0.unsqueeze(0)).reshape(-1)
                    rot = tabs[1][1]
                    ok = len(y0) == 1 and len(y) == 2 and _close(y0[0], pts[i]) and _close(y[1], rot[i])
                    got = f"forward(label) -> {[complex(v) for v in y0.tolist()]}, second symbol of forward(label0+label) -> {complex(y[1]) if len(y) > 1 else None}; tables: qpsk[{i}]={_fmt(pts[i])}, qpsk_rotated[{i}]={_fmt(rot[i])}"
                else:
                    x = torch.tensor(word)
                    y = _call(mod, x if layout == "1d" else x.unsqueeze(0)).reshape(-1)
                    ok = len(y) == 1 and _close(y[0], pts[i])
                    got = f"{[complex(v) for v in y.tolist()]}"
            except Exception as e:  # the real forward rejected a label of its own table
                ok, got = False, f"raised {type(e).__name__}: {e}"
            if not ok:
                bad.append((i, "".join(str(int(v)) for v in lab), got))
        det = f"{len(labels)} labels"
        if bad:
            i, lab, got = bad[0]
            det = f"{len(bad)} of {len(labels)} labels map elsewhere, e.g. label {lab} (row {i}, point {_fmt(pts[i])}): {got}"
        yield f"forward_maps_label_to_its_point.{layout}", not bad, det


# ------------------------------------------------------------------------------------------------ array Gray utilities: bounded stand-in
def _array_cases(tier, seed):
    rng = random.Random(seed * 97 + 13)
    lim = 1 << 12
    cases = [("list", list(range(lim)), None), ("int64", list(range(lim)), torch.int64), ("int32", list(range(lim)), torch.int32), ("float64", list(range(lim)), torch.float64),
             ("float32", list(range(lim)), torch.float32), ("empty-list", [], None), ("empty-int64", [], torch.int64)]
    nbig = 256 if tier == "quick" else 4096
    cases.append(("int64-2^60", [rng.getrandbits(60) for _ in range(nbig)], torch.int64))
    cases.append(("list-2^60", [rng.getrandbits(60) for _ in range(nbig)], None))
    cases.append(("int16", list(range(0, 1 << 12, 7)), torch.int16))
    cases.append(("uint8", list(range(256)), torch.uint8))
    return cases


def _array_check(spec, cfg, tier, seed):
    from kaira.modulations import utils as U

    fn, scalar = (U.binary_array_to_gray, U.binary_to_gray) if cfg == "binary_array_to_gray" else (U.gray_array_to_binary, U.gray_to_binary)
    t0 = time.time()
    fails = {"elementwise_map_of_scalar_function": None, "dtype_device_shape_preserved": None, "input_unmodified": None}
    evals = 0
    for name, vals, dt in _array_cases(tier, seed):
        arg = list(vals) if dt is None else torch.tensor(vals, dtype=dt)
        before = list(vals) if dt is None else arg.clone()
        try:
            out = fn(arg)
        except Exception as e:
            fails["elementwise_map_of_scalar_function"] = fails["elementwise_map_of_scalar_function"] or {"case": name, "raised": repr(e)}
            continue
        evals += len(vals)
        want_dt = torch.int64 if dt is None else dt
        if not (isinstance(out, torch.Tensor) and out.dtype == want_dt and out.device == (torch.device("cpu") if dt is None else arg.device) and tuple(out.shape) == (len(vals),)):
            fails["dtype_device_shape_preserved"] = fails["dtype_device_shape_preserved"] or {"case": name, "got": f"{type(out).__name__} {getattr(out, 'dtype', None)} {tuple(getattr(out, 'shape', ()))}", "want": f"Tensor {want_dt} ({len(vals)},)"}
            continue
        got = [int(v) for v in out.tolist()]
        want = [scalar(int(v)) for v in vals]
        if dt is not None and not dt.is_floating_point and dt != torch.int64:
            info = torch.iinfo(dt)
            want = [w for w in want]  # results of values representable in the dtype stay representable (same bit length)
            assert all(info.min <= w <= info.max for w in want)
        if got != want:
            k = next(i for i in range(len(want)) if got[i] != want[i])
            fails["elementwise_map_of_scalar_function"] = fails["elementwise_map_of_scalar_function"] or {"case": name, "element": vals[k], "got": got[k], "scalar_function": want[k]}
        same = (arg == before) if dt is None else bool(torch.equal(arg, before))
        if not same:
            fails["input_unmodified"] = fails["input_unmodified"] or {"case": name}
    res = []
    for clause, fail in fails.items():
        r = ObResult(prop="C14", ob=f"{spec.id}/{clause}", config=str(cfg), function=spec.function, engine="standin", backend="native", kind="bounded")
        r.verdict = "discharged" if fail is None else "refuted"
        r.paths = evals
        r.witness = fail
        r.replay_confirmed = None if fail is None else True
        r.detail = "bounded: lists and int64/int32/int16/uint8/float32/float64 tensors of ALL ints < 2^12 (dtype range permitting), seeded ints < 2^60 (list and int64), empty inputs; int(num) concretises every element, so the array forms are out of reach of the symbolic engine; the scalar functions are under contract in c14_gray.py"
        r.wall_s = round(time.time() - t0, 2)
        res.append(r)
    return res


@obligation("C14.gray_arrays", function=M + "utils.py:binary_array_to_gray; " + M + "utils.py:gray_array_to_binary", configs=lambda tier: ["binary_array_to_gray", "gray_array_to_binary"], kind="custom", engine="standin")
def gray_arrays(spec, cfg, tier, seed):
    return _array_check(spec, cfg, tier, seed)
