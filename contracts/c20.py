"""C20 - per-sample components are pure: the batch result equals the stack of the single results.

For a component f and symbolic members x_1..x_B:   f(stack(x))[i] == f(x_i)   for all values (position independence and
independence of the other members follow, since the right-hand side mentions x_i only), for layouts (B,n), (B1,B2,n) and
(B, b*n) "either equal to per-block evaluation or raises"; a second call on the same object returns identical terms
(statelessness); the input tensor is unmodified (frame).  Members that trigger special paths (zero syndrome, ...) are covered
because ALL values are.  Berlekamp-Massey and the majority-logic decoder concretise their input: bounded stand-in.
"""
from __future__ import annotations

import itertools
import random

import numpy as np
import torch

from vk import spec as SP
from vk import sym as S
from vk.harness import ObResult, obligation
from vk.tensor import P

from . import codes
from .c02 import _decoder

FE = "kaira/models/fec/encoders/"
FD = "kaira/models/fec/decoders/"


def _first(v):
    return v[0] if isinstance(v, tuple) else v


def _pl(t):
    """payload (re, im|None) of a real or complex tensor"""
    from vk.tensor import PC

    if t.dtype.is_complex:
        return PC(t)
    return P(t), None


def _member(ctx, x, sel):
    """the sub-tensor x[sel] as a new tensor of the current mode (real or complex)"""
    re, im = _pl(x)
    if im is None:
        return ctx.tensor(re[sel], x.dtype)
    from .c05 import _complex_tensor

    return _complex_tensor(ctx, re[sel], im[sel], x.dtype)


def _same(a, b, sel_a=None):
    """payload equality of tensor a (optionally a[sel_a]) and tensor b, flattened"""
    (ar, ai), (br, bi) = _pl(a), _pl(b)
    if sel_a is not None:
        ar = ar[sel_a]
        ai = None if ai is None else ai[sel_a]
    if (ai is None) != (bi is None) or ar.size != br.size:
        return False
    ok = SP.all_eq(ar.reshape(-1), br.reshape(-1))
    if ai is not None:
        ok = S.land(ok, SP.all_eq(ai.reshape(-1), bi.reshape(-1)))
    return ok


def _purity(ctx, f, width_in, lead_shapes, bits=True, tag="", make=None):
    """generic clause set for a per-block component f acting on the last dimension (block width width_in)"""
    for lname, lead in lead_shapes:
        shape = lead + (width_in,)
        x = (make or ctx.bits)(f"x{tag}_{lname}", shape)
        out = ctx.call(f, x)
        if not out.ok:
            # a layout the component cannot process must be REJECTED (an error), which is acceptable
            ctx.ensure(f"{lname}.rejected_with_error_not_values", out.raised(ValueError, AssertionError, RuntimeError, IndexError, TypeError), note=repr(out.exc))
            continue
        y = _first(out.value)
        ctx.ensure(f"{lname}.input_unmodified", out.unmodified)
        ok_shape = tuple(y.shape[: len(lead)]) == lead
        ctx.ensure(f"{lname}.leading_dims_preserved", ok_shape)
        if not ok_shape:
            continue
        claims = []
        for pos in np.ndindex(*lead):
            single = ctx.call(f, _member(ctx, x, pos))
            if not single.ok and single.raised(ValueError, AssertionError, RuntimeError, IndexError, TypeError):
                # the component rejects an un-batched member (an error, which is acceptable): the member alone is the batch of one
                single = ctx.call(f, _member(ctx, x, tuple(pos[:-1]) + (slice(pos[-1], pos[-1] + 1),)))
            if not single.ok:
                claims.append(False)
                continue
            claims.append(_same(y, _first(single.value), pos))
        ctx.ensure(f"{lname}.batch_equals_stack_of_singles", SP.conj(claims))
        again = ctx.call(f, x)
        ctx.ensure(f"{lname}.repeated_call_identical", again.ok and _same(_first(again.value), y))


def _multiblock(ctx, f, width_in, tag="", rows=2, make=None):
    """(B, 2*n): equal to per-block evaluation, or raises"""
    x = (make or ctx.bits)(f"x{tag}_Bb", (rows, 2 * width_in))
    out = ctx.call(f, x)
    if not out.ok:
        ctx.ensure("Bb.rejected_with_error_not_values", out.raised(ValueError, AssertionError, RuntimeError, IndexError, TypeError), note=repr(out.exc))
        return
    y = _first(out.value)
    yr, yi = _pl(y)
    claims = []
    for b in range(rows):
        pr, pi = [], []
        for blk in range(2):
            single = ctx.call(f, _member(ctx, x, (b, slice(blk * width_in, (blk + 1) * width_in))))
            if not single.ok and single.raised(ValueError, AssertionError, RuntimeError, IndexError, TypeError):
                single = ctx.call(f, _member(ctx, x, (slice(b, b + 1), slice(blk * width_in, (blk + 1) * width_in))))
            if not single.ok:
                claims.append(False)
                break
            sr, si = _pl(_first(single.value))
            pr.append(sr.reshape(-1))
            pi.append(None if si is None else si.reshape(-1))
        else:
            ok = yr[b].size == sum(a.size for a in pr) and SP.all_eq(yr[b].reshape(-1), np.concatenate(pr))
            if ok is not False and yi is not None:
                ok = S.land(ok, SP.all_eq(yi[b].reshape(-1), np.concatenate(pi))) if all(a is not None for a in pi) else False
            claims.append(ok)
    ctx.ensure("Bb.equals_per_block_evaluation", SP.conj(claims))


LEADS = [("B2", (2,)), ("B21", (2, 1))]


# ---------------------------------------------------------------------------------------- encoders
def _enc_cfgs(tier):
    out = []
    for c in codes.catalogue(tier):
        enc, _ = codes.try_build(c)
        if enc is None:
            continue
        k, n = enc.generator_matrix.shape
        forks = c.family in ("hamming", "rm")  # inverse_encode / calculate_syndrome fork (correction loop, nearest-codeword search)
        heavy = (c.family == "rm" and (k > 3 or n > 8)) or (c.family == "hamming" and n > 8)
        out += codes.with_variants([c], ["forward:B2", "forward:B21", "forward:B3", "forward:Bb"])
        if codes.rm_search_heavy(c, 4) or (c.family == "hamming" and n > 16):
            continue
        for which in ("inverse", "syndrome"):
            if which == "syndrome" and c.family == "hamming":
                forks_here = False
            else:
                forks_here = forks
            if not forks_here:
                out += codes.with_variants([c], [f"{which}:B2", f"{which}:B21", f"{which}:Bb"])
            elif heavy:
                out += codes.with_variants([c], [f"{which}:B2"] if n <= 8 else [])
            else:
                out += codes.with_variants([c], [f"{which}:B2", f"{which}:B21", f"{which}:Bb"] if n <= 4 else [f"{which}:B2", f"{which}:B21"])
    return out


@obligation(
    "C20.encoders",
    function=FE + "linear_block_code.py:LinearBlockCodeEncoder.forward; " + FE + "systematic_linear_block_code.py:SystematicLinearBlockCodeEncoder.forward; " + FE + "linear_block_code.py:LinearBlockCodeEncoder.inverse_encode; " + FE + "linear_block_code.py:LinearBlockCodeEncoder.calculate_syndrome; "
    + FE + "hamming_code.py:HammingCodeEncoder.inverse_encode; " + FE + "reed_muller_code.py:ReedMullerCodeEncoder.inverse_encode; kaira/models/fec/utils.py:apply_blockwise",
    configs=_enc_cfgs,
    max_paths=20000,
    timeout_ms=30000,
    crosscheck=1,
)
def encoders(ctx, vcfg):
    cfg, var = codes.split_variant(vcfg)
    which, lay = var.split(":")
    enc = codes.build(cfg)
    k, n = enc.generator_matrix.shape
    f, w = {"forward": (enc.forward, k), "inverse": (enc.inverse_encode, n), "syndrome": (enc.calculate_syndrome, n)}[which]
    if lay == "Bb":
        _multiblock(ctx, f, w)
    else:
        _purity(ctx, f, w, [l for l in LEADS + [("B3", (3,))] if l[0] == lay])


# ---------------------------------------------------------------------------------------- decoders (E2-reachable)
def _dec_cfgs(tier):
    out = []
    rmax = 3 if tier == "quick" else 4
    for c in codes.catalogue(tier):
        enc, _ = codes.try_build(c)
        if enc is None or c.family == "rm":
            continue
        k, n = enc.generator_matrix.shape
        if n - k <= rmax and n <= 8:
            out += codes.with_variants([c], ["syndrome:B2", "syndrome:B21", "syndrome:Bb"])
        if k <= 3 and n <= 7:
            out += codes.with_variants([c], ["brute:B2", "brute:B21", "brute:Bb"])
    return out


@obligation(
    "C20.decoders",
    function=FD + "syndrome_lookup.py:SyndromeLookupDecoder.forward; " + FD + "brute_force_ml.py:BruteForceMLDecoder.forward; " + FD + "brute_force_ml.py:BruteForceMLDecoder._decode_batch; kaira/models/fec/utils.py:apply_blockwise",
    configs=_dec_cfgs,
    max_paths=20000,
    timeout_ms=30000,
    crosscheck=1,
)
def decoders(ctx, vcfg):
    cfg, var = codes.split_variant(vcfg)
    kind, lay = var.split(":")
    enc = codes.build(cfg)
    dec = _decoder(kind, cfg)
    k, n = enc.generator_matrix.shape
    if lay == "Bb":
        _multiblock(ctx, dec.forward, n, rows=1)  # forking decoders: one row of two blocks keeps the path count at (paths per block)^2
    else:
        _purity(ctx, dec.forward, n, [l for l in LEADS if l[0] == lay])


# ---------------------------------------------------------------------------------------- bounded: BM, majority logic
def _b_cfgs(tier):
    out = [codes.Cfg("bch", 3, 3, "left", "bm"), codes.Cfg("bch", 4, 5, "left", "bm"), codes.Cfg("bch", 4, 7, "right", "bm"), codes.Cfg("rm", 1, 3, "rm"), codes.Cfg("rm", 1, 2, "rm")]
    if tier == "thorough":
        out += [codes.Cfg("bch", 5, 7, "left", "bm"), codes.Cfg("rm", 2, 4, "rm"), codes.Cfg("rm", 1, 4, "rm")]
    return out


@obligation("C20.decoders_bounded", function=FD + "berlekamp_massey.py:BerlekampMasseyDecoder.forward; " + FD + "reed_muller_decoder.py:ReedMullerDecoder.forward", configs=_b_cfgs, kind="custom", engine="standin")
def decoders_bounded(spec, vcfg, tier, seed):
    import time

    t0 = time.time()
    cfg, kind = codes.split_variant(vcfg)
    enc = codes.build(cfg)
    dec = _decoder(kind, cfg)
    k, n = enc.generator_matrix.shape
    rng = random.Random(seed * 13 + 1)
    t = getattr(enc, "error_correction_capability", None) or ((int(enc.minimum_distance) - 1) // 2 if not callable(enc.minimum_distance) else 1)
    fails = {"batch": None, "perm": None, "layout": None, "repeat": None, "frame": None}
    evals = 0
    for trial in range(40 if tier == "quick" else 300):
        B = rng.randint(1, 6)
        rows = []
        for _ in range(B):
            m = torch.tensor([float(rng.randint(0, 1)) for _ in range(k)])
            c = enc(m.unsqueeze(0))[0].clone()
            special = rng.random()
            w = 0 if special < 0.25 else rng.randint(0, t + 1)  # includes zero-syndrome members and one error beyond capability
            for j in rng.sample(range(n), min(w, n)):
                c[j] = 1 - c[j]
            rows.append(c)
        x = torch.stack(rows)
        x0 = x.clone()
        y = dec(x)
        evals += 1
        if not torch.equal(x, x0):
            fails["frame"] = fails["frame"] or {"batch": x0.tolist()}
        singles = torch.stack([dec(r.unsqueeze(0))[0] for r in rows])
        if not torch.equal(y.float(), singles.float()):
            fails["batch"] = fails["batch"] or {"batch": x0.tolist(), "batch_result": y.tolist(), "single_results": singles.tolist()}
        perm = list(range(B))
        rng.shuffle(perm)
        yp = dec(x[perm])
        if not torch.equal(yp.float(), y[perm].float()):
            fails["perm"] = fails["perm"] or {"batch": x0.tolist(), "perm": perm}
        if not torch.equal(dec(x).float(), y.float()):
            fails["repeat"] = fails["repeat"] or {"batch": x0.tolist()}
        # (B1,B2,n) and (B, b*n): equal to per-block evaluation, or an error
        if B % 2 == 0:
            for lname, xx, back in (("B1B2n", x.reshape(2, B // 2, n), lambda r: r.reshape(B, -1)), ("Bbn", x.reshape(B // 2, 2 * n), lambda r: r.reshape(B, -1))):
                try:
                    r = dec(xx)
                except (ValueError, AssertionError, RuntimeError, IndexError, TypeError):
                    continue
                try:
                    same = torch.equal(back(r).float(), singles.float())
                except RuntimeError:
                    same = False  # the result does not even have the per-block size
                if not same:
                    fails["layout"] = fails["layout"] or {"layout": lname, "batch": x0.tolist(), "result": r.tolist(), "single_results": singles.tolist()}
    out = []
    for key, nm in (("batch", "batch_equals_stack_of_singles"), ("perm", "position_independent"), ("layout", "layouts_equal_per_block_or_raise"), ("repeat", "repeated_call_identical"), ("frame", "input_unmodified")):
        r = ObResult(prop="C20", ob=f"{spec.id}/{nm}", config=str(vcfg), function=spec.function, engine="standin", backend="native", kind="bounded")
        r.verdict = "discharged" if fails[key] is None else "refuted"
        r.witness = fails[key]
        r.replay_confirmed = None if fails[key] is None else True
        r.paths = evals
        r.detail = f"bounded: {evals} seeded random batches of 1..6 members incl. zero-syndrome members and members beyond capability"
        r.wall_s = round(time.time() - t0, 2)
        out.append(r)
    return out


# ---------------------------------------------------------------------------------------- per-item constraints
def _cons_cfgs(tier):
    return [codes.Cfg("constraint", nm) for nm in ("total", "average", "papr", "papr_tight", "per_antenna")]


def _constraint(name):
    from kaira.constraints.antenna import PerAntennaPowerConstraint
    from kaira.constraints.power import AveragePowerConstraint, PAPRConstraint, TotalPowerConstraint

    return {"total": lambda: TotalPowerConstraint(2.0), "average": lambda: AveragePowerConstraint(0.5), "papr": lambda: PAPRConstraint(3.0), "papr_tight": lambda: PAPRConstraint(1.5), "per_antenna": lambda: PerAntennaPowerConstraint(uniform_power=1.0)}[name]()


@obligation("C20.constraints_bounded", function="kaira/constraints/power.py:TotalPowerConstraint.forward; kaira/constraints/power.py:AveragePowerConstraint.forward; kaira/constraints/power.py:PAPRConstraint.forward; kaira/constraints/antenna.py:PerAntennaPowerConstraint.forward", configs=_cons_cfgs, kind="custom", engine="standin")
def constraints_bounded(spec, cfg, tier, seed):
    """batches of 1..6 members with very different power levels, peaky / flat / zero members, real and complex, every permutation for
    small batches: f(batch)[i] == f(member i alone) (bounded stand-in; the symbolic per-item dependency clauses are in C08)"""
    import time

    t0 = time.time()
    name = cfg[1]
    rng = random.Random(seed * 29 + 11)
    g = torch.Generator().manual_seed(seed * 31 + 5)
    fails = {"batch": None, "perm": None, "repeat": None, "frame": None}
    evals = 0
    N = 60 if tier == "quick" else 400

    def member(kind, n, cplx):
        if kind == "gauss":
            v = torch.randn(n, generator=g, dtype=torch.float64)
        elif kind == "flat":
            v = torch.ones(n, dtype=torch.float64) * (1 if rng.random() < 0.5 else -1)
        elif kind == "peaky":
            v = torch.full((n,), 0.1, dtype=torch.float64)
            v[rng.randrange(n)] = 1.0
        elif kind == "alternating":
            v = torch.tensor([(-1.0) ** i for i in range(n)], dtype=torch.float64)
        else:
            v = torch.zeros(n, dtype=torch.float64)
        v = v * 10 ** rng.uniform(-2, 2)
        if cplx:
            v = torch.complex(v, torch.randn(n, generator=g, dtype=torch.float64) * float(v.abs().mean()))
        return v

    for trial in range(N):
        B = rng.randint(1, 6)
        n = rng.choice([4, 8, 16])
        cplx = rng.random() < 0.4
        kinds = [rng.choice(["gauss", "flat", "peaky", "alternating", "gauss", "peaky"] + (["zero"] if name in ("total", "average") else [])) for _ in range(B)]
        rows = [member(k, n, cplx) for k in kinds]
        if name == "per_antenna":
            x = torch.stack([r.reshape(2, n // 2) for r in rows])  # (B, antennas=2, samples)
        elif trial % 3 == 2:
            # multi-dimensional items (B, antennas, time) / (B, c, h, w): an item is everything behind the batch dimension
            x = torch.stack([r.reshape(2, n // 2) if trial % 2 else r.reshape(2, 2, n // 4) for r in rows])
        else:
            x = torch.stack(rows)
        if trial % 5 == 4 and x.dim() >= 3:
            # the same numbers as a dense PERMUTED view (channels-last style): strides differ, values do not
            perm = (0,) + tuple(range(2, x.dim())) + (1,)
            inv = [0] * x.dim()
            for i_, p_ in enumerate(perm):
                inv[p_] = i_
            x = x.permute(*perm).contiguous().permute(*inv)
        x0 = x.clone()
        f = _constraint(name)
        try:
            y = f(x)
        except Exception as ex:  # a layout/dtype the constraint rejects is acceptable (an error, not different values)
            continue
        evals += 1
        if not torch.equal(x, x0):
            fails["frame"] = fails["frame"] or {"kinds": kinds}
        yc = _constraint(name)(x0.contiguous())
        if yc.shape != y.shape or float((yc - y).abs().max()) > 1e-6 * max(1.0, float(yc.abs().max())):
            fails["batch"] = fails["batch"] or {"kinds": kinds, "complex": cplx, "problem": f"result for a non-contiguous view (strides {tuple(x.stride())}) differs from the result for a contiguous copy of the same numbers: max |diff| {float((yc - y).abs().max()) if yc.shape == y.shape else 'shape'}"}
        singles = torch.stack([_constraint(name)(x0[i : i + 1])[0] for i in range(B)])
        tol = 1e-6 * max(1.0, float(singles.abs().max()))
        if y.shape != singles.shape or float((y - singles).abs().max()) > tol:
            i = int(((y - singles).abs().reshape(B, -1).max(dim=1).values).argmax()) if y.shape == singles.shape else 0
            fails["batch"] = fails["batch"] or {"kinds": kinds, "complex": cplx, "member": i, "batch_input": x0.tolist() if not cplx else str(x0.tolist())[:600], "batch_result_member": str(y[i].tolist())[:300], "single_result": str(singles[i].tolist())[:300]}
        if B <= 4:
            perms = list(itertools.permutations(range(B)))
        else:
            perms = [tuple(rng.sample(range(B), B))]
        for perm in perms[:24]:
            yp = _constraint(name)(x0[list(perm)])
            if float((yp - y[list(perm)]).abs().max()) > tol:
                fails["perm"] = fails["perm"] or {"kinds": kinds, "perm": list(perm)}
                break
        if float((f(x0) - y).abs().max()) > tol:
            fails["repeat"] = fails["repeat"] or {"kinds": kinds}
    out = []
    for key, nm in (("batch", "batch_equals_stack_of_singles"), ("perm", "position_independent"), ("repeat", "repeated_call_identical"), ("frame", "input_unmodified")):
        r = ObResult(prop="C20", ob=f"{spec.id}/{nm}", config=str(cfg), function=spec.function, engine="standin", backend="native", kind="bounded")
        r.verdict = "discharged" if fails[key] is None else "refuted"
        r.witness = fails[key]
        r.replay_confirmed = None if fails[key] is None else True
        r.paths = evals
        r.detail = f"bounded: {evals} seeded random batches (1..6 members; gaussian / flat / peaky / alternating / zero members at scales 1e-2..1e2; real and complex), all permutations for B <= 4"
        r.wall_s = round(time.time() - t0, 2)
        out.append(r)
    return out


# ---------------------------------------------------------------------------------------- generic native purity stand-in
def purity_native(spec, vcfg, f, member, width, tier, seed, detail, dtypes=(None,), tol=0.0, trials=None, layouts=True):
    """bounded: seeded random batches of 1..6 members (member(rng) -> 1-D tensor of `width` entries), carried in every dtype of
    `dtypes` (None = as generated).  Clauses of C20: batch == stack of singles, position independent, layouts (B1,B2,n) and
    (B, b*n) equal per-block evaluation or RAISE, repeated call identical, input unmodified."""
    import time

    t0 = time.time()
    rng = random.Random(seed * 13 + 1)
    fails = {"batch": None, "perm": None, "layout": None, "repeat": None, "frame": None}
    evals = 0
    REJ = (ValueError, AssertionError, RuntimeError, IndexError, TypeError, NotImplementedError)

    def close(a, b):
        a, b = _first(a), _first(b)
        if tuple(a.shape) != tuple(b.shape):
            return False
        ca = a.to(torch.complex128) if a.is_complex() or b.is_complex() else a.to(torch.float64)
        cb = b.to(ca.dtype)
        return bool(torch.allclose(ca, cb, rtol=tol, atol=tol, equal_nan=True))

    N = trials or (24 if tier == "quick" else 200)
    for trial in range(N):
        dt = dtypes[trial % len(dtypes)]
        B = rng.randint(1, 6)
        rows = [member(rng) for _ in range(B)]
        if dt is not None and dt != "strided":
            rows = [r.to(dt) for r in rows]
        x = torch.stack(rows)
        if dt == "strided":
            from .dtypes import strided_view

            x = strided_view(x)  # the same values as a non-contiguous view
        x0 = x.clone()
        tag = {"dtype": str(x.dtype), "batch": x0.tolist() if x0.numel() <= 96 else f"shape {tuple(x0.shape)} seed {seed} trial {trial}"}
        try:
            with torch.no_grad():
                y = _first(f(x))
        except REJ:
            continue  # a dtype / layout the component rejects is an error, not different values
        evals += 1
        if not torch.equal(x, x0):
            fails["frame"] = fails["frame"] or dict(tag, after=x.tolist() if x.numel() <= 96 else "modified")
            x = x0.clone()
        try:
            with torch.no_grad():
                singles = torch.stack([_first(f(x0[i : i + 1].clone()))[0] for i in range(B)])
        except REJ as e:
            fails["batch"] = fails["batch"] or dict(tag, single_call_raised=repr(e))
            continue
        if not close(y, singles):
            fails["batch"] = fails["batch"] or dict(tag, batch_result=str(y.tolist())[:400], single_results=str(singles.tolist())[:400])
        perm = list(range(B))
        rng.shuffle(perm)
        with torch.no_grad():
            yp = _first(f(x0[perm].clone()))
        if not close(yp, y[perm]):
            fails["perm"] = fails["perm"] or dict(tag, perm=perm)
        with torch.no_grad():
            y2 = _first(f(x0.clone()))
        if not close(y2, y):
            fails["repeat"] = fails["repeat"] or tag
        if layouts and B % 2 == 0:
            for lname, xx in (("B1B2n", x0.reshape(2, B // 2, width)), ("Bbn", x0.reshape(B // 2, 2 * width))):
                try:
                    with torch.no_grad():
                        r = _first(f(xx.clone()))
                except REJ:
                    continue
                try:
                    same = close(r.reshape(B, -1), singles.reshape(B, -1))
                except RuntimeError:
                    same = False  # the result does not even have the per-block size
                if not same:
                    fails["layout"] = fails["layout"] or dict(tag, layout=lname, result_shape=list(r.shape), result=str(r.tolist())[:300], single_results=str(singles.tolist())[:300])
    out = []
    for key, nm in (("batch", "batch_equals_stack_of_singles"), ("perm", "position_independent"), ("layout", "layouts_equal_per_block_or_raise"), ("repeat", "repeated_call_identical"), ("frame", "input_unmodified")):
        r = ObResult(prop="C20", ob=f"{spec.id}/{nm}", config=str(vcfg), function=spec.function, engine="standin", backend="native", kind="bounded")
        r.verdict = "discharged" if fails[key] is None else "refuted"
        r.witness = fails[key]
        r.replay_confirmed = None if fails[key] is None else True
        r.paths = evals
        r.detail = f"bounded: {evals} seeded random batches of 1..6 members; {detail}"
        r.wall_s = round(time.time() - t0, 2)
        out.append(r)
    return out


HARD_DTYPES = (None, torch.int32, torch.int64, torch.uint8, torch.float64, torch.bool, "strided")


def _hard_dec_cfgs(tier):
    out = []
    for c in codes.catalogue(tier):
        enc, _ = codes.try_build(c)
        if enc is None:
            continue
        k, n = enc.generator_matrix.shape
        if c.family == "rm":
            if n <= (16 if tier == "quick" else 32):
                out += codes.with_variants([c], ["rm"])
            continue
        if c.family == "bch" and n <= (15 if tier == "quick" else 31):
            out += codes.with_variants([c], ["bm"])
        if n - k <= (4 if tier == "quick" else 6) and n <= 16:
            out += codes.with_variants([c], ["syndrome"])
        if k <= (4 if tier == "quick" else 6) and n <= 16:
            out += codes.with_variants([c], ["brute"])
    return out


@obligation(
    "C20.hard_decoders_dtypes_bounded",
    function=FD + "syndrome_lookup.py:SyndromeLookupDecoder.forward; " + FD + "brute_force_ml.py:BruteForceMLDecoder.forward; " + FD + "berlekamp_massey.py:BerlekampMasseyDecoder.forward; " + FD + "reed_muller_decoder.py:ReedMullerDecoder.forward",
    configs=_hard_dec_cfgs,
    kind="custom",
    engine="standin",
)
def hard_decoders_dtypes(spec, vcfg, tier, seed):
    """hard-input decoders on received words carried as float32, int32, int64, uint8, float64, bool (the symbolic C20.decoders
    obligation is float32): codewords with 0..t+1 flipped bits"""
    cfg, kind = codes.split_variant(vcfg)
    enc = codes.build(cfg)
    dec = _decoder(kind, cfg)
    k, n = enc.generator_matrix.shape
    t = getattr(enc, "error_correction_capability", None)
    if not isinstance(t, int):
        d = getattr(enc, "minimum_distance", None)
        t = (int(d) - 1) // 2 if isinstance(d, (int, float)) else 1

    def member(rng):
        m = torch.tensor([[float(rng.randint(0, 1)) for _ in range(k)]])
        with torch.no_grad():
            c = enc(m)[0].clone()
        w = 0 if rng.random() < 0.25 else rng.randint(0, t + 1)
        for j in rng.sample(range(n), min(w, n)):
            c[j] = 1 - c[j]
        return c

    return purity_native(spec, vcfg, dec.forward, member, n, tier, seed, "codewords with 0..t+1 flipped bits, dtypes float32/int32/int64/uint8/float64/bool in turn", dtypes=HARD_DTYPES)


def _soft_dec_cfgs(tier):
    out = [codes.Cfg("wagner", k) for k in ((2, 4, 7) if tier == "quick" else (1, 2, 3, 4, 7, 10))]
    out += [codes.Cfg("sc", N, k, regime) for N, k in (((4, 2), (8, 4), (16, 7)) if tier == "quick" else ((4, 2), (8, 4), (16, 7), (32, 16), (64, 30))) for regime in ("min_sum", "sum_product")]
    out += [codes.Cfg("polar_bp", N, k, es) for N, k in ((4, 2), (8, 4), (16, 7)) for es in (0, 1)]
    out += [codes.Cfg("ldpc_bp", i, kind) for i in range(2 if tier == "quick" else 4) for kind in ("bp", "bp_taylor", "minsum")]
    out += [codes.Cfg("rm_soft", r, m) for r, m in (((1, 3), (1, 4)) if tier == "quick" else ((1, 3), (1, 4), (2, 4), (2, 5)))]
    return out


_LDPC_H = [
    [[1, 1, 0, 1, 0, 0], [0, 1, 1, 0, 1, 0], [1, 0, 1, 0, 0, 1]],
    [[1, 1, 0, 1, 1, 0, 0], [1, 0, 1, 1, 0, 1, 0], [0, 1, 1, 1, 0, 0, 1]],
    [[1, 1, 1, 0, 1, 0, 0, 0], [0, 1, 1, 1, 0, 1, 0, 0], [1, 0, 1, 1, 0, 0, 1, 0], [1, 1, 0, 1, 0, 0, 0, 1]],
    [[1, 0, 0, 1, 1, 0, 1, 0, 0], [0, 1, 0, 1, 0, 1, 0, 1, 0], [0, 0, 1, 0, 1, 1, 0, 0, 1]],
]


def _soft_pair(cfg):
    import contextlib
    import io

    fam = cfg[0]
    with contextlib.redirect_stdout(io.StringIO()):
        if fam == "wagner":
            from kaira.models.fec.decoders.wagner_soft_decision_decoder import WagnerSoftDecisionDecoder
            from kaira.models.fec.encoders import SingleParityCheckCodeEncoder

            enc = SingleParityCheckCodeEncoder(cfg[1])
            return enc, WagnerSoftDecisionDecoder(enc)
        if fam == "sc":
            from kaira.models.fec.decoders.successive_cancellation import SuccessiveCancellationDecoder
            from kaira.models.fec.encoders.polar_code import PolarCodeEncoder

            enc = PolarCodeEncoder(cfg[2], cfg[1])
            return enc, SuccessiveCancellationDecoder(enc, regime=cfg[3])
        if fam == "polar_bp":
            from kaira.models.fec.decoders.belief_propagation_polar import BeliefPropagationPolarDecoder
            from kaira.models.fec.encoders.polar_code import PolarCodeEncoder

            enc = PolarCodeEncoder(cfg[2], cfg[1])
            return enc, BeliefPropagationPolarDecoder(enc, bp_iters=5, early_stop=bool(cfg[3]))
        if fam == "ldpc_bp":
            from kaira.models.fec.decoders.belief_propagation import BeliefPropagationDecoder
            from kaira.models.fec.decoders.min_sum_ldpc import MinSumLDPCDecoder
            from kaira.models.fec.encoders.ldpc_code import LDPCCodeEncoder

            enc = LDPCCodeEncoder(check_matrix=torch.tensor(_LDPC_H[cfg[1]], dtype=torch.float32))
            if cfg[2] == "minsum":
                return enc, MinSumLDPCDecoder(enc, bp_iters=5, scaling_factor=0.75)
            return enc, BeliefPropagationDecoder(enc, bp_iters=5, arctanh=cfg[2] == "bp")
        if fam == "rm_soft":
            from kaira.models.fec.decoders.reed_muller_decoder import ReedMullerDecoder
            from kaira.models.fec.encoders import ReedMullerCodeEncoder

            enc = ReedMullerCodeEncoder(cfg[1], cfg[2])
            return enc, ReedMullerDecoder(enc, input_type="soft")
    raise KeyError(fam)


FDS = (
    FD + "wagner_soft_decision_decoder.py:WagnerSoftDecisionDecoder.forward; " + FD + "successive_cancellation.py:SuccessiveCancellationDecoder.forward; " + FD + "belief_propagation_polar.py:BeliefPropagationPolarDecoder.forward; "
    + FD + "belief_propagation.py:BeliefPropagationDecoder.forward; " + FD + "min_sum_ldpc.py:MinSumLDPCDecoder.forward; " + FD + "reed_muller_decoder.py:ReedMullerDecoder.forward"
)


@obligation("C20.soft_decoders_bounded", function=FDS, configs=_soft_dec_cfgs, kind="custom", engine="standin")
def soft_decoders_bounded(spec, cfg, tier, seed):
    """soft-input decoders of C10/C11: noisy BPSK LLRs of random codewords (noise-free, mildly noisy and hopeless members in one
    batch, so that early-stopping members sit next to members that use every iteration), float32 and float64"""
    enc, dec = _soft_pair(cfg)
    k, n = enc.code_dimension, enc.code_length
    g = torch.Generator().manual_seed(seed * 17 + 3)

    def member(rng):
        m = torch.tensor([[float(rng.randint(0, 1)) for _ in range(k)]])
        with torch.no_grad():
            c = enc(m)[0]
        sigma = rng.choice([0.0, 0.3, 0.8, 3.0])
        a = rng.choice([0.5, 2.0, 8.0])
        return a * ((1 - 2 * c) + sigma * torch.randn(n, generator=g))

    return purity_native(spec, cfg, dec.forward, member, n, tier, seed, "LLRs a((1-2c) + sigma w), sigma in {0, .3, .8, 3}, a in {.5, 2, 8}; float32 and float64 in turn", dtypes=(None, torch.float64, "strided"), tol=1e-5)


def _mod_cfgs(tier):
    from . import mods

    return [c for c in mods.catalogue(tier, families=("bpsk", "qpsk", "psk", "qam", "pam"), max_points=64 if tier == "quick" else 256)]


FMOD = "kaira/modulations/psk.py:BPSKModulator.forward; kaira/modulations/psk.py:QPSKModulator.forward; kaira/modulations/psk.py:PSKModulator.forward; kaira/modulations/qam.py:QAMModulator.forward; kaira/modulations/pam.py:PAMModulator.forward"
FDEM = "kaira/modulations/psk.py:BPSKDemodulator.forward; kaira/modulations/psk.py:QPSKDemodulator.forward; kaira/modulations/psk.py:PSKDemodulator.forward; kaira/modulations/qam.py:QAMDemodulator.forward; kaira/modulations/pam.py:PAMDemodulator.forward"


@obligation("C20.modulators_bounded", function=FMOD, configs=_mod_cfgs, kind="custom", engine="standin")
def modulators_bounded(spec, cfg, tier, seed):
    """memoryless modulators: batches of bit rows (3 symbols per row), bits carried as float32 / int64 / uint8 / bool / float64"""
    from . import mods

    mod, _ = mods.build(cfg)
    b = mods.bits_per_symbol(cfg)
    member = lambda rng: torch.tensor([float(rng.randint(0, 1)) for _ in range(3 * b)])
    return purity_native(spec, cfg, mod.forward, member, 3 * b, tier, seed, "3 symbols per member; bits as float32/int64/uint8/bool/float64 in turn", dtypes=(None, torch.int64, torch.uint8, torch.bool, torch.float64, "strided"), tol=1e-6)


@obligation("C20.demodulators_bounded", function=FDEM, configs=lambda tier: codes.with_variants(_mod_cfgs(tier), ["hard", "soft"]), kind="custom", engine="standin")
def demodulators_bounded(spec, vcfg, tier, seed):
    """memoryless demodulators, hard and soft (noise variance 0.5): batches of noisy symbol rows incl. points on decision
    boundaries (ties) and far outside the constellation; complex64 and complex128"""
    from . import mods

    cfg, how = codes.split_variant(vcfg)
    mod, dem = mods.build(cfg)
    b = mods.bits_per_symbol(cfg)
    g = torch.Generator().manual_seed(seed * 19 + 7)
    f = dem.forward if how == "hard" else (lambda y: dem(y, 0.5))

    def member(rng):
        bits = torch.tensor([float(rng.randint(0, 1)) for _ in range(3 * b)])
        with torch.no_grad():
            s = mod(bits).to(torch.complex64)
        kind = rng.random()
        if kind < 0.2:
            return s  # noise-free
        if kind < 0.3:
            return torch.zeros_like(s)  # the origin: a tie of every symmetric constellation
        if kind < 0.4:
            return s * 25.0  # far outside
        return s + rng.choice([0.05, 0.3, 1.0]) * torch.complex(torch.randn(3, generator=g), torch.randn(3, generator=g))

    # soft outputs of tied members may differ in the last float bit between batch sizes: tolerance 1e-5; hard outputs are compared exactly through it as well (0/1 values)
    return purity_native(spec, vcfg, f, member, 3, tier, seed, "3 symbols per member: noise-free, origin (tie), far outside, noisy; complex64 and complex128 in turn", dtypes=(None, torch.complex128, "strided"), tol=1e-5)


# ---------------------------------------------------------------------------------------- memoryless modulators / demodulators (symbolic)
def _sym_mod_cfgs(tier):
    from . import mods

    cs = mods.catalogue(tier, families=("bpsk", "qpsk", "psk", "qam", "pam"), max_points=64 if tier == "quick" else 256)
    return codes.with_variants(cs, ["B2", "B21", "B3", "Bb"])


@obligation("C20.modulators", function=FMOD, configs=_sym_mod_cfgs, max_paths=4096, timeout_ms=30000, crosscheck=1)
def modulators(ctx, vcfg):
    """for ALL bit values: modulate(batch)[i] == modulate(member i) (one symbol per member; Bb: two symbols per row equal the two
    one-symbol results), repeated call identical, input unmodified"""
    from . import mods

    cfg, lay = codes.split_variant(vcfg)
    mod, _ = mods.build(cfg)
    b = mods.bits_per_symbol(cfg)
    if lay == "Bb":
        _multiblock(ctx, mod.forward, b)
    else:
        _purity(ctx, mod.forward, b, [l for l in LEADS + [("B3", (3,))] if l[0] == lay])


def _sym_dem_cfgs(tier):
    from . import mods

    cs = mods.catalogue(tier, families=("bpsk", "qpsk", "psk", "qam", "pam"), max_points=8 if tier == "quick" else 16)
    return codes.with_variants(cs, ["hard:B2", "hard:B21", "hard:Bb", "soft:B2", "soft:Bb"])


@obligation("C20.demodulators", function=FDEM, configs=_sym_dem_cfgs, max_paths=8192, timeout_ms=60000, crosscheck=1)
def demodulators(ctx, vcfg):
    """for ALL received points (symbolic reals): demodulate(batch)[i] == demodulate(member i), hard and soft (unit noise variance);
    constellations up to 8 (thorough 16) points - the hard decision forks once per candidate point and symbol"""
    from . import mods

    cfg, var = codes.split_variant(vcfg)
    how, lay = var.split(":")
    _, dem = mods.build(cfg)
    f = dem.forward if how == "hard" else (lambda y: dem.forward(y, torch.tensor(1.0)))
    mk = lambda name, shape: ctx.complexes(name, shape)
    if lay == "Bb":
        _multiblock(ctx, f, 1, make=mk)
    else:
        _purity(ctx, f, 1, [l for l in LEADS if l[0] == lay], make=mk)


# ---------------------------------------------------------------------------------------- soft decoders, symbolic (tiny instances)
_SOFT_CACHE = {}


def _soft_cached(cfg):
    if cfg not in _SOFT_CACHE:
        enc, dec = _soft_pair(cfg)
        _SOFT_CACHE[cfg] = (enc, codes.warm(dec, enc.code_length, soft=True))
    return _SOFT_CACHE[cfg]


def _sym_soft_cfgs(tier):
    out = [codes.Cfg("wagner", 2), codes.Cfg("wagner", 3), codes.Cfg("sc", 4, 1, "min_sum"), codes.Cfg("sc", 4, 2, "min_sum"), codes.Cfg("sc", 4, 3, "min_sum"), codes.Cfg("rm_soft", 1, 2), codes.Cfg("wagner", 4), codes.Cfg("sc", 8, 4, "min_sum")]
    if tier == "thorough":
        out += [codes.Cfg("polar_bp", 4, 2, 0), codes.Cfg("rm_soft", 1, 3), codes.Cfg("sc", 8, 6, "min_sum")]
    return codes.with_variants(out, ["B2", "Bb"])


@obligation("C20.soft_decoders", function=FDS, configs=_sym_soft_cfgs, max_paths=20000, timeout_ms=60000, crosscheck=1)
def soft_decoders(ctx, vcfg):
    """for ALL real LLR vectors (symbolic): decode(batch of 2)[i] == decode(member i), repeated call identical, input unmodified;
    (1, 2n) equals per-block evaluation or raises.  Tiny instances only (every sign decision of the decoder forks, and a batch of
    two squares the number of paths); larger ones are covered by the bounded C20.soft_decoders_bounded"""
    from vk import ops_soft as OS

    cfg, lay = codes.split_variant(vcfg)
    enc, dec = _soft_cached(cfg)
    n = enc.code_length
    mk = lambda name, shape: ctx.reals(name, shape)
    with OS.piecewise(), OS.torch_list_index():
        if lay == "Bb":
            _multiblock(ctx, dec.forward, n, rows=1, make=mk)
        else:
            _purity(ctx, dec.forward, n, [l for l in LEADS if l[0] == lay], make=mk)
