"""Catalogue of code configurations shared by C01/C02/C03/C04/C09/C20.

A configuration is a picklable tuple (family, params...) whose str() is stable; `build(cfg)` calls the real constructor.
Random generator / parity-check matrices are derived from VERIF_SEED.
"""
from __future__ import annotations

import functools
import os
import random

import torch

from vk import ground as Gd

SEED = int(os.environ.get("VERIF_SEED", "0") or 0)


class Cfg(tuple):
    """(family, p1, p2, ...) with a readable str()"""

    def __new__(cls, *items):
        return super().__new__(cls, items)

    def __getnewargs__(self):
        return tuple(self)

    def __str__(self):
        return f"{self[0]}({','.join(_s(x) for x in self[1:])})"

    __repr__ = __str__

    @property
    def family(self):
        return self[0]


def _s(x):
    if isinstance(x, (list, tuple)):
        return "[" + ".".join(_s(i) for i in x) + "]"
    return str(x)


def _infoset(v):
    return list(v) if isinstance(v, tuple) else v


@functools.lru_cache(maxsize=None)
def build(cfg):
    from kaira.models.fec import encoders as E

    fam = cfg[0]
    if fam == "hamming":
        _, mu, ext, info = cfg
        return E.HammingCodeEncoder(mu, extended=ext, information_set=_infoset(info))
    if fam == "repetition":
        return E.RepetitionCodeEncoder(cfg[1])
    if fam == "spc":
        return E.SingleParityCheckCodeEncoder(cfg[1])
    if fam == "rm":
        return E.ReedMullerCodeEncoder(cfg[1], cfg[2])
    if fam == "cyclic":
        _, n, g, info = cfg
        return E.CyclicCodeEncoder(code_length=n, generator_polynomial=g, information_set=_infoset(info))
    if fam == "cyclic_h":
        _, n, h, info = cfg
        return E.CyclicCodeEncoder(code_length=n, check_polynomial=h, information_set=_infoset(info))
    if fam == "bch":
        _, mu, delta, info = cfg
        return E.BCHCodeEncoder(mu, delta, information_set=_infoset(info))
    if fam == "golay":
        _, ext, info = cfg
        return E.GolayCodeEncoder(extended=ext, information_set=_infoset(info))
    if fam == "rs":
        _, mu, delta, info = cfg
        return E.ReedSolomonCodeEncoder(mu, delta, information_set=_infoset(info))
    if fam == "ldpc":
        H = torch.tensor([list(r) for r in cfg[1]], dtype=torch.float32)
        return E.LDPCCodeEncoder(check_matrix=H)
    if fam == "generic":
        G = torch.tensor([list(r) for r in cfg[1]], dtype=torch.float32)
        return E.LinearBlockCodeEncoder(G)
    if fam == "systematic":
        _, P, info = cfg
        Pm = torch.tensor([list(r) for r in P], dtype=torch.float32)
        return E.SystematicLinearBlockCodeEncoder(Pm, information_set=_infoset(info))
    raise KeyError(fam)


def try_build(cfg):
    """(encoder, None) or (None, exception)"""
    try:
        return build(cfg), None
    except Exception as e:  # constructor rejected the configuration
        return None, e


# -------------------------------------------------------------------------------------------------
def divisors_of_xn1(n):
    """all proper non-trivial divisors g of X^n+1 over GF(2) with 1 <= deg g <= n-1"""
    mod = (1 << n) | 1
    out = []
    for g in range(2, 1 << n):
        if g & 1 and Gd.pmod(mod, g) == 0 and 1 <= Gd.pdeg(g) <= n - 1:
            out.append(g)
    return out


def random_full_rank(rng, k, n):
    while True:
        rows = [rng.getrandbits(n) for _ in range(k)]
        if Gd.rank(rows) == k:
            return tuple(tuple((r >> j) & 1 for j in range(n)) for r in rows)


def random_sparse_H(rng, r, n, full_rank=True):
    """sparse parity-check matrix with every column covered; rank-deficient ones get a dependent last row"""
    for _ in range(10000):
        rows = []
        nind = r if full_rank else r - 1
        for _ in range(nind):
            w = rng.randint(2, max(2, min(n, (2 * n) // max(r, 1) + 1)))
            cols = rng.sample(range(n), w)
            rows.append(sum(1 << c for c in cols))
        if Gd.rank(rows) != nind:
            continue
        if not full_rank:
            if nind >= 2:
                a, b = rng.sample(range(nind), 2)
                rows.append(rows[a] ^ rows[b])
            else:
                rows.append(rows[0])
        if any(not any(row >> j & 1 for row in rows) for j in range(n)):
            continue
        if Gd.rank(rows) < n:
            return tuple(tuple((row >> j) & 1 for j in range(n)) for row in rows)
    raise RuntimeError("could not draw H")


def perm_info(rng, n, k):
    idx = rng.sample(range(n), k)
    return tuple(idx)


def bose_distances(mu):
    from kaira.models.fec.encoders.bch_code import get_valid_bose_distances

    return list(get_valid_bose_distances(mu))


@functools.lru_cache(maxsize=None)
def catalogue(tier):
    rng = random.Random(SEED * 1000003 + 11)
    C = []
    infos3 = ["left", "right"]
    # Hamming
    for mu in (2, 3) + ((4, 5, 6) if tier == "thorough" else (4,)):
        for ext in (False, True):
            n = 2**mu - 1 + (1 if ext else 0)
            k = 2**mu - mu - 1
            for info in infos3 + ([perm_info(rng, n, k)] if mu <= 4 else []):
                if tier == "quick" and mu == 4 and info != "left":
                    continue
                C.append(Cfg("hamming", mu, ext, info))
    # repetition / SPC
    for nrep in range(1, 6 if tier == "quick" else 10):
        C.append(Cfg("repetition", nrep))
    for k in range(1, 6 if tier == "quick" else 11):
        C.append(Cfg("spc", k))
    # Reed-Muller
    for m in range(1, 5 if tier == "quick" else 6):  # quick includes m = 4 so that order-3 monomials (RM(3,4)) are exercised
        for r in range(0, m):
            C.append(Cfg("rm", r, m))
    # cyclic: every divisor of X^n+1
    for n in ((7,) if tier == "quick" else (3, 5, 7, 9, 15, 21)):
        for g in divisors_of_xn1(n):
            for info in infos3:
                C.append(Cfg("cyclic", n, g, info))
    for n, g in ((15, 19), (15, 1335)) + (((23, 2787),) if tier == "thorough" else ()):
        for info in infos3:
            if not any(c == Cfg("cyclic", n, g, info) for c in C):
                C.append(Cfg("cyclic", n, g, info))
    C.append(Cfg("cyclic_h", 7, 0b10111, "left"))
    # BCH: every Bose distance
    for mu in (3, 4) + ((5, 6) if tier == "thorough" else ()):
        for delta in bose_distances(mu):
            for info in infos3:
                C.append(Cfg("bch", mu, delta, info))
    # Golay
    for ext in (False, True):
        for info in infos3:
            C.append(Cfg("golay", ext, info))
    # Reed-Solomon-style
    for mu in (2, 3) + ((4,) if tier == "thorough" else ()):
        for delta in range(2, 2**mu):
            for info in infos3:
                C.append(Cfg("rs", mu, delta, info))
    # LDPC from user matrices, including rank-deficient ones
    nl = 4 if tier == "quick" else 12
    for i in range(nl):
        n = rng.randint(5, 8 if tier == "quick" else 16)
        r = rng.randint(2, n - 2)
        C.append(Cfg("ldpc", random_sparse_H(rng, r, n, full_rank=(i % 3 != 2))))
    # generic full-rank non-systematic generators
    ng = 6 if tier == "quick" else 40
    for i in range(ng):
        k = rng.randint(1, 4 if tier == "quick" else 8)
        n = rng.randint(k + 1, 8 if tier == "quick" else 16)
        C.append(Cfg("generic", random_full_rank(rng, k, n)))
    C.append(Cfg("generic", ((1, 1, 0, 1, 0, 0, 1), (0, 1, 1, 0, 1, 0, 1), (1, 0, 1, 0, 0, 1, 1))))  # a 3x7 non-systematic generator
    # systematic with custom information sets
    for i in range(3 if tier == "quick" else 12):
        k = rng.randint(2, 4 if tier == "quick" else 6)
        m = rng.randint(1, 4)
        P = tuple(tuple(rng.randint(0, 1) for _ in range(m)) for _ in range(k))
        C.append(Cfg("systematic", P, perm_info(rng, k + m, k)))
        C.append(Cfg("systematic", P, "right"))
    # rank-deficient user check matrices whose dependent row is NOT the last one (a repeated first row; a third row that is the sum
    # of the first two): whoever keeps "the first n-k rows" loses a check equation.  Appended last: earlier entries keep their order.
    C.append(Cfg("ldpc", ((1, 1, 0, 1, 0, 0), (1, 1, 0, 1, 0, 0), (0, 1, 1, 0, 1, 0), (1, 0, 1, 0, 0, 1))))
    C.append(Cfg("ldpc", ((1, 1, 0, 1, 0, 0, 1), (0, 1, 1, 0, 1, 0, 0), (1, 0, 1, 1, 1, 0, 1), (0, 0, 1, 1, 0, 1, 1))))
    return tuple(C)


def select(tier, families=None, max_k=None, max_n=None, max_r=None):
    out = []
    for c in catalogue(tier):
        if families and c.family not in families:
            continue
        out.append(c)
    return out


def with_variants(cfgs, names):
    """one configuration per (code, variant): bodies that fork must make ONE call each, otherwise independent forks multiply"""
    return [Cfg(*c, v) for c in cfgs for v in names]


def split_variant(cfg):
    return Cfg(*cfg[:-1]), cfg[-1]


def rm_search_heavy(cfg, kmax=6):
    """Reed-Muller codes whose nearest-codeword search (2^k-way symbolic argmin inside inverse_encode / calculate_syndrome)
    exceeds the symbolic budget; such configurations are kept out of the obligations that execute that search symbolically"""
    if cfg[0] != "rm":
        return False
    enc, _ = try_build(Cfg(*cfg[:3]))
    return enc is not None and enc.generator_matrix.shape[0] > kmax


def warm(obj, n, soft=False, rows=3):
    """history: one earlier NATIVE call of obj with `rows` rows of concrete data (bits, or LLRs when soft) before any contract runs
    on it, so that every obligation meets an object that has already been used with another batch size; whatever the object keeps
    between calls must not leak into the next result.  The outcome of that call is a clause of every obligation that calls a
    method of obj through ctx.call (vk.harness.Ctx.call)."""
    import torch

    t = torch.arange(rows * n)
    x = ((t * 7 % 11).float() - 5.3).reshape(rows, n) if soft else ((t * 5 % 3) % 2).reshape(rows, n).float()
    try:
        with torch.no_grad():
            obj(x)
        obj._vk_warm_exc = None
    except Exception as e:
        obj._vk_warm_exc = repr(e)
    return obj
