"""C11 - polar encoding is the Arikan transform on the 5G information set, and the polar decoders invert it.

Contracts (DESIGN.md section 7, C11):
  encoder  (ground)  info_indices == the k most reliable positions < N by an independent reading of rank_polar.csv, or the user mask
           (ground)  calculate_gm(N) / get_generator_matrix() == [j subset-of i] (the m-fold Kronecker power of [[1,0],[1,1]])
           (ground)  _index_matrix(N): column c lists the upper inputs of the butterflies of span 2^(m-1-c)
           (P-forall, GF(2) normal form)  forward(msg) == u . F^(x)m  with u[info] = msg, u[frozen] = frozen value, output index
                      bit-reversed when polar_i, for all messages, batch layouts B = 1..3
  SC decoder (P-forall, z3)  forward(llr) == sc_textbook(llr) for every real llr whose decision LLRs are non-zero; sc_textbook is
                      Arikan's per-bit LLR recursion (eqs. 75/76 of the 2009 paper: L_N^(2i-1) = f(L_{N/2}^(i)(.., u_o xor u_e), L_{N/2}^(i)(.., u_e)),
                      L_N^(2i) = g(.., u_{2i-1})), NOT the tree/partial-sum schedule of the code
             noise-free: forall m, forall a > 0: SC(a (1-2 forward(m))) == m
  BP polar decoder: noise-free clause; bounded stand-in on the (k, N, frozen, regime) grid (+ symbolic attempt N <= 4, min-sum)
"""
from __future__ import annotations

import contextlib
import functools
import io
import itertools
import math
import os
import random
import time

import numpy as np
import torch

from vk import ops_soft as OS
from vk import spec as SP
from vk import sym as S
from vk.harness import ObResult, obligation
from vk.tensor import P

from . import codes
from .codes import SEED, Cfg

FE = "kaira/models/fec/encoders/polar_code.py"
FSC = "kaira/models/fec/decoders/successive_cancellation.py"
FBP = "kaira/models/fec/decoders/belief_propagation_polar.py"
FU = "kaira/models/fec/utils.py"


# ------------------------------------------------------------------------------------------------ specification side
def kron_entry(i, j):
    """entry (i, j) of the m-fold Kronecker power of [[1,0],[1,1]]: product over bit positions of F[i_b][j_b]; F[a][b] = 0 iff a=0,b=1"""
    return 1 if (j & ~i) == 0 else 0


def bitrev(j, m):
    r = 0
    for b in range(m):
        if (j >> b) & 1:
            r |= 1 << (m - 1 - b)
    return r


@functools.lru_cache(maxsize=None)
def rank_table():
    """independent reading of kaira/models/fec/rank_polar.csv: lines 'W Q' after the header; Q[W] = index of the W-th least reliable
    synthetic channel (ascending reliability, 3GPP TS 38.212 table 5.3.1.2-1)"""
    import kaira.models.fec as fec

    path = os.path.join(os.path.dirname(os.path.abspath(fec.__file__)), "rank_polar.csv")
    rows = []
    with open(path) as fh:
        lines = [ln.strip() for ln in fh if ln.strip()]
    for ln in lines[1:]:
        w, q = ln.replace(",", " ").split()
        rows.append((int(w), int(q)))
    return tuple(q for _, q in sorted(rows)), tuple(w for w, _ in rows)


def info_set_spec(k, N):
    """the k most reliable positions below N (ascending list)"""
    Q, _ = rank_table()
    below = [q for q in Q if q < N]
    return sorted(below[len(below) - k :])


def user_mask(N, k, tag):
    rng = random.Random(SEED * 7901 + 131 * N + 17 * k + tag)
    pos = sorted(rng.sample(range(N), k))
    return tuple(1 if i in pos else 0 for i in range(N))


_ENC = {}


def encoder(cfg):
    """cfg = ('polar', N, k, frozen_zeros, polar_i, mask|None) -> the real PolarCodeEncoder (cached per process)"""
    key = tuple(cfg[:6])
    if key not in _ENC:
        from kaira.models.fec.encoders.polar_code import PolarCodeEncoder

        _, N, k, fz, pi, mask = key
        kw = dict(frozen_zeros=bool(fz), polar_i=bool(pi))
        if mask is not None:
            kw.update(load_rank=False, info_indices=torch.tensor(list(mask), dtype=torch.bool))
        with contextlib.redirect_stdout(io.StringIO()):
            _ENC[key] = PolarCodeEncoder(k, N, **kw)
        # the encoder memoises its butterfly index table (mask_dict) on first use: fill it natively, so that a symbolic run never leaves a
        # lifted tensor behind on the cached object
        # (3 rows, mixed bits: every later contract call, batch 1 or 2, meets an object that was used before with ANOTHER batch size)
        _ENC[key](((torch.arange(3 * k) * 5 % 3) % 2).reshape(3, k).float())
    return _ENC[key]


def info_positions(cfg):
    _, N, k, fz, pi, mask = cfg[:6]
    return [i for i in range(N) if mask[i]] if mask is not None else info_set_spec(k, N)


def encode_spec(msg, cfg):
    """msg: list of k bit scalars -> list of N code bits by the property's definition"""
    _, N, k, fz, pi, mask = cfg[:6]
    m = N.bit_length() - 1
    u = [0 if fz else 1] * N
    for p, b in zip(info_positions(cfg), msg):
        u[p] = b
    x = []
    for j in range(N):
        acc = 0
        for i in range(N):
            if kron_entry(i, j):
                acc = S.add(acc, u[i])
        x.append(S.mod(acc, 2))
    if pi:
        x = [x[bitrev(j, m)] for j in range(N)]
    return x


# ------------------------------------------------------------------------------------------------ configurations
def _kn_grid(tier, nmax_all, extra):
    out = []
    N = 2
    while N <= nmax_all:
        out += [(N, k) for k in range(1, N)]
        N *= 2
    for N, ks in extra:
        out += [(N, k) for k in ks]
    return out


def _enc_cfgs(tier):
    if tier == "quick":
        kn = _kn_grid(tier, 16, [(32, (1, 7, 16, 31)), (64, (1, 32, 63))])
    else:
        kn = _kn_grid(tier, 64, [])
    out = []
    for N, k in kn:
        for fz in (0, 1):
            for pi in (0, 1):
                out.append(Cfg("polar", N, k, fz, pi, None))
    # user-supplied information masks
    for N, k, tag in [(4, 2, 0), (8, 3, 0), (8, 5, 1), (16, 9, 0)] + ([(32, 11, 0), (64, 40, 0), (16, 1, 2), (16, 15, 3)] if tier == "thorough" else []):
        for fz, pi in ((0, 0), (1, 1)):
            out.append(Cfg("polar", N, k, fz, pi, user_mask(N, k, tag)))
    return out


# ------------------------------------------------------------------------------------------------ ground: ranking table, information set
@obligation("C11.rank_table", function=FE + ":PolarCodeEncoder.__init__", configs=lambda tier: [Cfg("rank_polar.csv")], kind="ground", engine="ground")
def rank_table_ob(cfg):
    Q, W = rank_table()
    yield "is_permutation_of_0_1023", sorted(Q) == list(range(1024)) and list(W) == list(range(1024)), f"{len(Q)} entries"
    # independent sanity: a reliability order of polarised channels must respect the subset order: bits(i) inside bits(j) => j more reliable.
    # (The stronger "left-swap" rule of the universal partial order is NOT required: the 3GPP sequence itself lists 26 before 22.)
    pos = {q: w for w, q in enumerate(Q)}
    bad = [(i, i | (1 << b)) for i in range(1024) for b in range(10) if not (i >> b) & 1 and pos[i | (1 << b)] < pos[i]]
    yield "respects_subset_order", not bad, f"pairs (i, j) with bits(i) inside bits(j) but j listed as less reliable: {bad[:5]}"
    # anchor: the first 32 and last 8 entries of 3GPP TS 38.212 table 5.3.1.2-1
    head = [0, 1, 2, 4, 8, 16, 32, 3, 5, 64, 9, 6, 17, 10, 18, 128, 12, 33, 65, 20, 256, 34, 24, 36, 7, 129, 66, 512, 11, 40, 68, 130]
    tail = [1007, 1015, 1019, 1021, 1022, 1023]
    yield "matches_3gpp_anchor_entries", list(Q[:32]) == head and list(Q[-6:]) == tail, f"first entries {Q[:8]}, last {Q[-6:]}"


def _info_cfgs(tier):
    Ns = (2, 4, 8, 16, 32, 64) if tier == "quick" else (2, 4, 8, 16, 32, 64, 128, 256, 512, 1024)
    return [Cfg("polar_info", N) for N in Ns]


def _quiet(fn, *a, **k):
    with contextlib.redirect_stdout(io.StringIO()):
        return fn(*a, **k)


@obligation("C11.info_set", function=FE + ":PolarCodeEncoder.__init__", configs=_info_cfgs, kind="ground", engine="ground")
def info_set(cfg):
    """every admissible k for the given N (sampled k above N = 64 in the quick tier never happens: quick stops at 64)"""
    from kaira.models.fec.encoders.polar_code import PolarCodeEncoder

    N = cfg[1]
    rng = random.Random(SEED * 31 + N)
    ks = list(range(1, N)) if N <= 64 else sorted(set([1, 2, N // 2, N - 2, N - 1] + [rng.randint(1, N - 1) for _ in range(24)]))
    bad_set, bad_meta = [], []
    for k in ks:
        for fz, pi in ((False, False), (True, True)):
            enc = _quiet(PolarCodeEncoder, k, N, frozen_zeros=fz, polar_i=pi)
            got = [i for i, v in enumerate(enc.info_indices.tolist()) if v]
            if got != info_set_spec(k, N):
                bad_set.append((k, got[:8]))
            if enc.info_indices.dtype != torch.bool or tuple(enc.info_indices.shape) != (N,) or (enc.code_length, enc.code_dimension) != (N, k):
                bad_meta.append(k)
    yield "k_most_reliable_positions", not bad_set, f"N={N}, k in {ks[0]}..{ks[-1]} ({len(ks)} values): mismatching (k, info set): {bad_set[:3]}"
    yield "mask_is_bool_length_N_and_advertised_n_k", not bad_meta, f"k with wrong dtype/shape/advertised parameters: {bad_meta[:5]}"
    # nestedness is a consequence of a single ranking: info(k) subset of info(k+1)
    nest = all(set(info_set_spec(k, N)) <= set(info_set_spec(k + 1, N)) for k in range(1, N - 1))
    yield "nested", nest, "info(k) is contained in info(k+1)"
    # user masks: taken verbatim; wrong length / wrong weight rejected
    bad = []
    for tag in range(4):
        k = rng.randint(1, N - 1)
        mask = user_mask(N, k, tag)
        enc = _quiet(PolarCodeEncoder, k, N, load_rank=False, info_indices=torch.tensor(mask, dtype=torch.bool))
        if [int(v) for v in enc.info_indices.tolist()] != list(mask):
            bad.append(("tensor", k))
        enc = _quiet(PolarCodeEncoder, k, N, load_rank=False, info_indices=[bool(v) for v in mask])
        if [int(v) for v in enc.info_indices.tolist()] != list(mask):
            bad.append(("list", k))
    yield "user_mask_verbatim", not bad, f"{bad[:3]}"
    rej = []
    k = max(1, N // 2)
    for name, kwargs in (
        ("missing", dict(load_rank=False)),
        ("wrong_weight", dict(load_rank=False, info_indices=torch.tensor(user_mask(N, k, 9), dtype=torch.bool))),
        ("wrong_length", dict(load_rank=False, info_indices=torch.ones(N + 1, dtype=torch.bool))),
    ):
        kk = k if name != "wrong_weight" else (k + 1 if k + 1 <= N else k - 1)
        try:
            _quiet(PolarCodeEncoder, kk, N, **kwargs)
            rej.append(name)
        except ValueError:
            pass
        except Exception as e:  # a different exception type is also a rejection, but not the documented one
            rej.append(f"{name}: {type(e).__name__}")
    yield "bad_user_masks_rejected_with_ValueError", not rej, f"not rejected / wrong exception: {rej}"


# ------------------------------------------------------------------------------------------------ ground: generator and butterfly index matrix
def _gm_cfgs(tier):
    Ns = (2, 4, 8, 16, 32, 64) if tier == "quick" else (2, 4, 8, 16, 32, 64, 128, 256, 512, 1024)
    return [Cfg("polar_gm", N) for N in Ns]


@obligation("C11.generator_matrix", function=FE + ":calculate_gm; " + FE + ":PolarCodeEncoder.get_generator_matrix; " + FE + ":_index_matrix", configs=_gm_cfgs, kind="ground", engine="ground")
def generator_matrix(cfg):
    from kaira.models.fec.encoders.polar_code import PolarCodeEncoder, _index_matrix, calculate_gm

    N = cfg[1]
    m = N.bit_length() - 1
    G = calculate_gm(N, torch.device("cpu"))
    rows = G.to(torch.int64).tolist()
    ok = tuple(G.shape) == (N, N) and all(rows[i][j] == kron_entry(i, j) for i in range(N) for j in range(N)) and bool(((G == 0) | (G == 1)).all())
    yield "calculate_gm_is_kronecker_power", ok, f"N={N}"
    enc = _quiet(PolarCodeEncoder, max(1, N // 2), N)
    G2 = enc.get_generator_matrix()
    yield "get_generator_matrix_is_kronecker_power", tuple(G2.shape) == (N, N) and G2.to(torch.int64).tolist() == [[kron_entry(i, j) for j in range(N)] for i in range(N)], f"N={N}"
    # history: the caller post-processes the matrices it was handed (in place); what a later request returns - from this encoder, from
    # a new encoder of the same length, from the module function - must still be the Kronecker power
    want_rows = [[kron_entry(i, j) for j in range(N)] for i in range(N)]
    with torch.no_grad():
        G.zero_()
        G2.fill_(1)
    G3 = calculate_gm(N, torch.device("cpu"))
    G4 = enc.get_generator_matrix()
    enc2 = _quiet(PolarCodeEncoder, max(1, N // 2), N)
    G5 = enc2.get_generator_matrix()
    later_ok = all(tuple(g.shape) == (N, N) and g.to(torch.int64).tolist() == want_rows for g in (G3, G4, G5))
    yield "later_requests_unaffected_by_writes_to_earlier_results", later_ok, f"N={N}: matrices handed out earlier were overwritten in place by the caller"
    # _index_matrix(N): (N/2, m); column c = 1-based upper inputs of the butterflies of span 2^(m-1-c), ascending
    M = _index_matrix(N)
    want = [[i + 1 for i in range(N) if not (i >> (m - 1 - c)) & 1] for c in range(m)]
    got = [[int(v) for v in col] for col in M.T.tolist()]
    yield "index_matrix_butterfly_pairs", tuple(M.shape) == (N // 2, m) and got == want, f"N={N}"


# ------------------------------------------------------------------------------------------------ encoder, all messages
@obligation(
    "C11.encode",
    function=FE + ":PolarCodeEncoder.forward; " + FE + ":PolarCodeEncoder.polar_transform; " + FE + ":_index_matrix; " + FU + ":apply_blockwise",
    configs=_enc_cfgs,
    crosscheck=2,
)
def encode(ctx, cfg):
    _, N, k, fz, pi, mask = cfg
    enc = encoder(cfg)
    for B in (1, 2, 3):
        msg = ctx.bits(f"m_B{B}", (B, k))
        out = ctx.call(enc.forward, msg)
        ctx.ensure(f"B{B}.returns", out.ok, note=repr(out.exc) if not out.ok else "")
        if not out.ok:
            continue
        want = np.empty((B, N), dtype=object)
        mp = P(msg)
        for b in range(B):
            want[b] = encode_spec(list(mp[b]), cfg)
        ctx.ensure(f"B{B}.shape_dtype", SP.shape_is(out.value, (B, N)) and out.value.dtype == torch.float32)
        ctx.ensure(f"B{B}.equals_u_times_kronecker_power", SP.shape_is(out.value, (B, N)) and SP.all_eq(P(out.value), want))
        ctx.ensure(f"B{B}.input_unmodified", out.unmodified)


# ================================================================================================ successive cancellation
def f_minsum(a, b):
    """sign(a) sign(b) min(|a|, |b|)   (zero when either argument is zero)"""
    m = S.smin(S.sabs(a), S.sabs(b))
    neg = S.lxor(_b(S.lt(a, 0)), _b(S.lt(b, 0)))
    return S.ite(neg, S.mul(-1, m), m)


def _b(v):
    return bool(v) if not isinstance(v, S.Sym) else v


def boxplus(a, b):
    """2 atanh(tanh(a/2) tanh(b/2)) with tanh / atanh the axiomatised real functions of DESIGN 4.3"""
    return S.mul(2, S.uf_apply("atanh", OS.rmul(S.uf_apply("tanh", S.div(a, 2)), S.uf_apply("tanh", S.div(b, 2)))))


def g_node(a, b, u):
    """b + (1 - 2u) a"""
    return S.add(b, S.mul(S.sub(1, S.mul(2, u)), a)) if not isinstance(u, S.Sym) else S.ite(S.eq(u, 1), S.sub(b, a), S.add(b, a))


def sc_textbook(y, info_mask, frozen_val, bit_reversed, f):
    """Arikan's successive-cancellation rule.  y: list of N channel LLRs (LLR > 0 <=> bit 0).
    For i = 0..N-1 in order:  L_i = L_N^(i)(y, u_0..u_{i-1});  u_i = frozen value if i is frozen, else [L_i < 0].
    L_N^(i) by the per-bit recursion (Arikan 2009, eqs. 75-76) - for the plain Kronecker-power generator the two sub-observations are the
    even / odd positions of y, for the bit-reversed generator the first / second half.
    Returns (u, decision LLRs of the information positions, all check-node outputs) - the last two for preconditions."""
    N = len(y)
    u = [None] * N
    cn_outputs = []

    def L(ys, us, i):
        if len(ys) == 1:
            return ys[0]
        if bit_reversed:
            h = len(ys) // 2
            ya, yb = ys[:h], ys[h:]
        else:
            ya, yb = ys[0::2], ys[1::2]
        j = i // 2
        ua = [S.mod(S.add(us[2 * t], us[2 * t + 1]), 2) for t in range(j)]
        ub = [us[2 * t + 1] for t in range(j)]
        la, lb = L(ya, ua, j), L(yb, ub, j)
        if i % 2 == 0:
            v = f(la, lb)
            cn_outputs.append(v)
            return v
        return g_node(la, lb, us[i - 1])

    dec = []
    for i in range(N):
        if info_mask[i]:
            li = L(list(y), u, i)
            dec.append(li)
            u[i] = S.ite(S.lt(li, 0), 1, 0)
        else:
            u[i] = frozen_val
    return u, dec, cn_outputs


_SC = {}


def sc_decoder(cfg, regime, clip=None):
    key = (tuple(cfg[:6]), regime, clip)
    if key not in _SC:
        from kaira.models.fec.decoders.successive_cancellation import SuccessiveCancellationDecoder

        kw = {"regime": regime}
        if clip is not None:
            kw["clip"] = clip
        _SC[key] = SuccessiveCancellationDecoder(encoder(cfg), **kw)
        _warm(_SC[key], cfg[1])
    return _SC[key]


def _warm(dec, N):
    codes.warm(dec, N, soft=True)


def _sc_cfgs(tier, regimes=("min_sum", "sum_product")):
    """(polar cfg..., regime)"""
    nmax = 8 if tier == "quick" else 16
    out = []
    N = 2
    while N <= nmax:
        for regime in regimes:
            # N = 16 (thorough): measured 6 s (k=4) .. 195 s (k=11) per configuration in the min-sum regime; sum-product k=8 does not finish in 400 s
            ks = range(1, N) if N <= 8 else ((1, 4, 8, 11) if regime == "min_sum" else (1, 4))
            for k in ks:
                for fz, pi in ((0, 0), (1, 1)) + (((0, 1), (1, 0)) if ((tier == "thorough" and N <= 8) or N <= 4) else ()):
                    out.append(Cfg("polar", N, k, fz, pi, None, regime))
        N *= 2
    if "min_sum" in regimes:
        out.append(Cfg("polar", 8, 3, 0, 0, user_mask(8, 3, 0), "min_sum"))
    if "sum_product" in regimes:
        out.append(Cfg("polar", 8, 5, 1, 1, user_mask(8, 5, 1), "sum_product"))
    return out


_SC_FUNCS = (
    FSC + ":SuccessiveCancellationDecoder.forward; " + FSC + ":SuccessiveCancellationDecoder.decode_recursive; " + FSC + ":SuccessiveCancellationDecoder.checknode; "
    + FSC + ":SuccessiveCancellationDecoder.bitnode; " + FSC + ":SuccessiveCancellationDecoder.f2; " + FU + ":min_sum; " + FU + ":sum_product; " + FU + ":sign_to_bin"
)


def _sc_textbook_body(ctx, cfg):
    _, N, k, fz, pi, mask, regime = cfg
    dec = sc_decoder(cfg, regime)
    info = info_positions(cfg)
    imask = [i in info for i in range(N)]
    f = f_minsum if regime == "min_sum" else boxplus
    llr = ctx.reals("llr", (1, N))
    u, dlls, cns = sc_textbook(list(P(llr)[0]), imask, 0 if fz else 1, bool(pi), f)
    # preconditions: decision LLRs non-zero (sign(0) has no bit); no check-node message beyond the decoder's clipping threshold
    for v in dlls:
        ctx.assume(S.ne(v, 0))
    clip = S.norm(float(dec.clip))
    for v in cns:
        ctx.assume(S.le(S.sabs(v), clip))
    with OS.piecewise(abstract_products=(regime == "sum_product")):
        out = ctx.call(dec.forward, llr)
    ctx.ensure("returns", out.ok, note=repr(out.exc) if not out.ok else "")
    if not out.ok:
        return
    ctx.ensure("shape", SP.shape_is(out.value, (1, k)))
    want = np.empty((1, k), dtype=object)
    want[0] = [u[i] for i in info]
    ctx.ensure("equals_textbook_sc", SP.shape_is(out.value, (1, k)) and SP.all_eq(P(out.value), want), note=f"clip={dec.clip}")
    ctx.ensure("input_unmodified", out.unmodified)


@obligation("C11.sc_equals_textbook", function=_SC_FUNCS, configs=lambda tier: _sc_cfgs(tier, ("min_sum",)), timeout_ms=60000, crosscheck=3)
def sc_equals_textbook(ctx, cfg):
    """min-sum regime: piecewise-linear real arithmetic, for every real LLR vector"""
    _sc_textbook_body(ctx, cfg)


@obligation("C11.sc_equals_textbook_sum_product", function=_SC_FUNCS, configs=lambda tier: _sc_cfgs(tier, ("sum_product",)), timeout_ms=120000, crosscheck=0)
def sc_equals_textbook_sp(ctx, cfg):
    """sum-product regime: tanh / atanh / the product of the two tanh values are uninterpreted (with their sign / monotonicity axioms) on both
    sides; equality follows by congruence.  No differential cross-check here (a z3 model interprets the uninterpreted functions freely);
    the native differential check of this regime is C11.sc_native."""
    _sc_textbook_body(ctx, cfg)


# ------------------------------------------------------------------------------------------------ noise-free clause, SC
def noise_free_llr(ctx, x_payload, mags):
    """llr_j = a_j (1 - 2 x_j), written as a case distinction on the code bit (linear in a_j)"""
    vals = np.empty(len(x_payload), dtype=object)
    for j, xj in enumerate(x_payload):
        a = mags[j] if isinstance(mags, (list, tuple)) else mags
        vals[j] = S.ite(S.eq(xj, 1), S.mul(-1, a), a)
    return vals


def _nf_cfgs(tier, regimes=("min_sum", "sum_product")):
    out = []
    grid = []
    for N in (2, 4, 8):
        grid += [(N, k) for k in range(1, N)]
    grid += [(16, k) for k in ((1, 5) if tier == "quick" else (1, 3, 5, 8))]  # larger k: z3 runs out of time (stated bound; natively covered)
    for N, k in grid:
        for fz, pi in ((0, 0), (1, 1)) + (((0, 1), (1, 0)) if (tier == "thorough" or N <= 4) else ()):
            for regime in regimes:
                for mag in ("uniform", "per_position") if N <= 8 else ("uniform",):
                    out.append(Cfg("polar", N, k, fz, pi, None, regime, mag))
    if "min_sum" in regimes:
        out.append(Cfg("polar", 8, 3, 0, 0, user_mask(8, 3, 0), "min_sum", "per_position"))
    if "sum_product" in regimes:
        out.append(Cfg("polar", 8, 5, 1, 1, user_mask(8, 5, 1), "sum_product", "uniform"))
    return out


@obligation("C11.sc_noise_free", function=_SC_FUNCS + "; " + FE + ":PolarCodeEncoder.forward", configs=lambda tier: _nf_cfgs(tier, ("min_sum",)), timeout_ms=60000, crosscheck=2)
def sc_noise_free(ctx, cfg):
    _sc_noise_free_body(ctx, cfg)


@obligation("C11.sc_noise_free_sum_product", function=_SC_FUNCS + "; " + FE + ":PolarCodeEncoder.forward", configs=lambda tier: _nf_cfgs(tier, ("sum_product",)), timeout_ms=120000, crosscheck=0)
def sc_noise_free_sp(ctx, cfg):
    _sc_noise_free_body(ctx, cfg)


def _sc_noise_free_body(ctx, cfg):
    """forall messages m, forall magnitudes a > 0 (one common magnitude, or one per position):  SC(a (1 - 2 forward(m))) == m.
    The codeword comes from the real encoder in the same run.  Sum-product: tanh, atanh and the product are uninterpreted with their sign
    axioms (DESIGN 4.3); float saturation of tanh is outside the model (C11.sc_native covers magnitudes 0.5..100 natively)."""
    _, N, k, fz, pi, mask, regime, mag = cfg
    enc = encoder(cfg)
    dec = sc_decoder(cfg, regime)
    m = ctx.bits("m", (1, k))
    if mag == "uniform":
        a = ctx.scalar("a", "real")
        ctx.assume(S.lt(0, a))
        mags = a
    else:
        at = ctx.reals("a", (N,), sampler=lambda r: abs(r.gauss(0, 3)) + 0.01)
        mags = list(P(at))
        for v in mags:
            ctx.assume(S.lt(0, v))
    cw = ctx.call(enc.forward, m)
    ctx.ensure("encodes", cw.ok)
    if not cw.ok:
        return
    llr = ctx.tensor(noise_free_llr(ctx, list(P(cw.value)[0]), mags).reshape(1, N))
    with OS.piecewise(abstract_products=(regime == "sum_product")):
        out = ctx.call(dec.forward, llr)
    ctx.ensure("returns", out.ok, note=repr(out.exc) if not out.ok else "")
    if out.ok:
        ctx.ensure("decodes_to_message", SP.shape_is(out.value, (1, k)) and SP.all_eq(P(out.value), P(m)))


# ================================================================================================ belief propagation (polar)
_BP = {}


def bp_decoder(cfg, regime, iters, early_stop=False):
    key = (tuple(cfg[:6]), regime, iters, early_stop)
    if key not in _BP:
        from kaira.models.fec.decoders.belief_propagation_polar import BeliefPropagationPolarDecoder

        _BP[key] = _quiet(BeliefPropagationPolarDecoder, encoder(cfg), regime=regime, bp_iters=iters, early_stop=early_stop)
        _warm(_BP[key], cfg[1])
    return _BP[key]


_BP_FUNCS = (
    FBP + ":BeliefPropagationPolarDecoder.forward; " + FBP + ":BeliefPropagationPolarDecoder.decode_iterative; " + FBP + ":BeliefPropagationPolarDecoder.update_left; "
    + FBP + ":BeliefPropagationPolarDecoder.update_right; " + FBP + ":BeliefPropagationPolarDecoder._initialize_graph; " + FBP + ":BeliefPropagationPolarDecoder.checknode; " + FU + ":llr_to_bits; " + FU + ":min_sum"
)


def _bp_sym_cfgs(tier, regime):
    out = []
    if regime == "min_sum":
        grid = [(N, k, it) for N in (2, 4) for k in range(1, N) for it in (1, 2, 10)] + [(8, k, it) for k in range(1, 8) for it in ((1, 2) if tier == "quick" else (1, 2, 3))]
    else:
        grid = [(N, k, it) for N in (2, 4) for k in range(1, N) for it in (1, 2)] + [(8, k, 1) for k in ((2, 4, 7) if tier == "quick" else range(1, 8))]
        if tier == "thorough":
            grid += [(8, k, 2) for k in (2, 4, 7)] + [(4, k, 10) for k in (1, 2, 3)]
    for N, k, it in grid:
        for fz in (0, 1):
            out.append(Cfg("polar", N, k, fz, 0, None, regime, it))
    return out


def _bp_noise_free_body(ctx, cfg):
    _, N, k, fz, pi, mask, regime, iters = cfg
    enc = encoder(cfg)
    dec = bp_decoder(cfg, regime, iters)
    m = ctx.bits("m", (1, k))
    a = ctx.scalar("a", "real")
    ctx.assume(S.lt(0, a))
    cw = ctx.call(enc.forward, m)
    ctx.ensure("encodes", cw.ok)
    if not cw.ok:
        return
    llr = ctx.tensor(noise_free_llr(ctx, list(P(cw.value)[0]), a).reshape(1, N))
    with OS.piecewise(abstract_products=(regime == "sum_product")):
        out = ctx.call(dec.forward, llr)
    ctx.ensure("returns", out.ok, note=repr(out.exc) if not out.ok else "")
    if out.ok:
        ctx.ensure("decodes_to_message", SP.shape_is(out.value, (1, k)) and SP.all_eq(P(out.value), P(m)), note=f"{iters} iteration(s), clip={dec.clip}")


@obligation("C11.bp_noise_free", function=_BP_FUNCS, configs=lambda tier: _bp_sym_cfgs(tier, "min_sum"), timeout_ms=60000, crosscheck=2)
def bp_noise_free(ctx, cfg):
    """forall m, forall a > 0: BP(a (1 - 2 forward(m))) == m   (min-sum check node; N <= 4 with 1, 2 and the default 10 iterations, N = 8 with 1-2)"""
    _bp_noise_free_body(ctx, cfg)


@obligation("C11.bp_noise_free_sum_product", function=_BP_FUNCS + "; " + FU + ":sum_product", configs=lambda tier: _bp_sym_cfgs(tier, "sum_product"), timeout_ms=120000, crosscheck=0)
def bp_noise_free_sp(ctx, cfg):
    """same clause, sum-product check node with tanh / atanh / product uninterpreted under their sign axioms (no differential cross-check: see C11.decoders_native)"""
    _bp_noise_free_body(ctx, cfg)


# ------------------------------------------------------------------------------------------------ lemma: input bound that implies 'no saturation'
@obligation("C11.sc_no_saturation_lemma", function=FSC + ":SuccessiveCancellationDecoder.checknode", configs=lambda tier: [Cfg("polar", N, N - 1, 0, pi, None, "min_sum") for N in ((2, 4, 8) if tier == "quick" else (2, 4, 8, 16)) for pi in (0, 1)], crosscheck=0)
def sc_no_saturation_lemma(ctx, cfg):
    """the precondition of C11.sc_equals_textbook ('no textbook check-node message exceeds the clipping threshold') is implied by the input
    bound |llr_i| <= clip / (N/2); a statement about the specification only (min-sum), proved for all real inputs"""
    _, N, k, fz, pi, mask, regime = cfg
    dec = sc_decoder(cfg, regime)
    clip = S.norm(float(dec.clip))
    llr = ctx.reals("llr", (N,), sampler=lambda r: r.uniform(-1, 1) * float(dec.clip) * 2 / N)
    for v in P(llr):
        ctx.assume(S.le(S.sabs(v), S.div(S.mul(2, clip), N)))
    for fzv in (0, 1):
        _, _, cns = sc_textbook(list(P(llr)), [True] * N, fzv, bool(pi), f_minsum)
        ctx.ensure(f"check_node_messages_within_clip.all_info", SP.conj(S.le(S.sabs(v), clip) for v in cns))
    imask = [i >= N // 2 for i in range(N)]
    for fzv in (0, 1):
        _, _, cns = sc_textbook(list(P(llr)), imask, fzv, bool(pi), f_minsum)
        ctx.ensure(f"check_node_messages_within_clip.half_frozen_{fzv}", SP.conj(S.le(S.sabs(v), clip) for v in cns))


# ================================================================================================ bounded stand-in (native) for both decoders
def _native_cfgs(tier):
    Ns = (2, 4, 8, 16, 32, 64, 256, 1024) if tier == "quick" else (2, 4, 8, 16, 32, 64, 128, 256, 512, 1024)
    return [Cfg("polar_native", N, fz) for N in Ns for fz in (0, 1)]


def _sc_textbook_native(y, imask, frozen_val, pi, regime):
    import math

    if regime == "min_sum":
        f = f_minsum
    else:
        def f(a, b):
            p = math.tanh(float(a) / 2) * math.tanh(float(b) / 2)
            p = max(min(p, 1 - 1e-16), -1 + 1e-16)
            return 2 * math.atanh(p)
    return sc_textbook(y, imask, frozen_val, pi, f)


@obligation("C11.decoders_native", function=_SC_FUNCS + "; " + _BP_FUNCS + "; " + FU + ":stop_criterion; " + FU + ":cyclic_perm", configs=_native_cfgs, kind="custom", engine="standin")
def decoders_native(spec, cfg, tier, seed):
    """BOUNDED stand-in (never counted as proved): the (k, N, frozen, interleave, regime) grid beyond the symbolic reach, natively.
    noise-free LLRs at magnitudes 0.5..100, batch sizes 1..8, all 2^k messages for small k; SC against sc_textbook on random dyadic LLRs."""
    from kaira.models.fec.decoders.belief_propagation_polar import BeliefPropagationPolarDecoder
    from kaira.models.fec.decoders.successive_cancellation import SuccessiveCancellationDecoder

    _, N, fz = cfg
    t0 = time.time()
    rng = random.Random(seed * 977 + N * 2 + fz)
    quick = tier == "quick"
    if N <= (16 if quick else 32):
        ks = list(range(1, N))
    else:
        nk = {32: 8, 64: 4, 128: 3, 256: 2, 512: 2, 1024: 1}[N] * (1 if quick else 3)
        ks = sorted(set([1, N - 1][: max(0, nk - 1)] + [rng.randint(1, N - 1) for _ in range(nk)]))[: nk + 1]
    kexh = 6 if quick else 10
    bp_nmax = 32 if quick else 64
    tb_nmax = 32 if quick else 64
    mags = (0.5, 1.0, 7.3, 50.0, 100.0)
    stats = {}

    def record(name, ok, wit):
        st = stats.setdefault(name, {"n": 0, "fail": None})
        st["n"] += 1
        if not ok and st["fail"] is None:
            st["fail"] = wit

    for k in ks:
        for pi in (0, 1):
            pcfg = Cfg("polar", N, k, fz, pi, None)
            enc = encoder(pcfg)
            if k <= kexh:
                msgs = [list(m) for m in itertools.product([0, 1], repeat=k)]
            else:
                msgs = [[rng.randint(0, 1) for _ in range(k)] for _ in range(12 if N <= 64 else 4)]
            M = torch.tensor(msgs, dtype=torch.float32)
            X = enc(M)
            want_x = [[int(v) for v in encode_spec(m, pcfg)] for m in msgs[:4]]
            record("encoder_matches_spec", X[:4].to(torch.int64).tolist() == want_x, {"N": N, "k": k, "polar_i": pi})
            for regime in ("min_sum", "sum_product"):
                decs = {"sc": sc_decoder(pcfg, regime)}
                if not pi and N <= bp_nmax:
                    decs["bp"] = bp_decoder(pcfg, regime, 10)
                    decs["bp_early_stop"] = bp_decoder(pcfg, regime, 10, early_stop=True)
                    if N <= 16 and N >= 4:
                        key = ("cycle", pcfg, regime)
                        if key not in _BP:
                            _BP[key] = _quiet(BeliefPropagationPolarDecoder, enc, regime=regime, early_stop=True, perm="cycle")
                        decs["bp_cycle_perm"] = _BP[key]
                elif pi and k == ks[0] and regime == "min_sum":
                    try:
                        _quiet(BeliefPropagationPolarDecoder, enc)
                        record("bp_rejects_polar_i", False, {"N": N, "k": k})
                    except ValueError:
                        record("bp_rejects_polar_i", True, None)
                for a in mags:
                    # batches of size 1..8 (a row's result must not depend on the batch)
                    pos, bsz = 0, 1 + (k + int(a)) % 8
                    while pos < len(msgs):
                        mb, xb = M[pos : pos + bsz], X[pos : pos + bsz]
                        llr = a * (1 - 2 * xb)
                        for name, d in decs.items():
                            try:
                                out = _quiet(d, llr)
                                ok = tuple(out.shape) == tuple(mb.shape) and bool((out == mb).all())
                                wit = None if ok else {"N": N, "k": k, "frozen_zeros": fz, "polar_i": pi, "regime": regime, "magnitude": a, "batch": len(mb), "message": mb[0].tolist(), "decoded": out[0].tolist() if out.dim() == 2 else str(tuple(out.shape))}
                            except Exception as e:
                                ok, wit = False, {"N": N, "k": k, "frozen_zeros": fz, "polar_i": pi, "regime": regime, "magnitude": a, "raised": repr(e)[:200]}
                            # float32 sum-product: the check-node magnitude of the worst synthetic channel is about tanh(a/2)^N, which
                            # underflows for small |LLR| and large N; those samples are reported under their own clause (known finding:
                            # genuine float32 behaviour, outside the 'floats are reals' model of the proofs)
                            underflow = regime == "sum_product" and N * math.log10(math.tanh(a / 2)) < -30
                            record(f"{name}.noise_free.{regime}" + (".float32_underflow_regime" if underflow else ""), ok, wit)
                        pos += bsz
                        bsz = bsz % 8 + 1
                # SC == textbook on random dyadic LLRs (exact in float64 for min-sum)
                if N <= tb_nmax:
                    info = info_positions(pcfg)
                    imask = [i in info for i in range(N)]
                    for _ in range(6 if N <= 16 else 2):
                        y = [rng.choice([-1, 1]) * rng.randint(1, 640) / 64 for _ in range(N)]
                        from fractions import Fraction as Fr

                        ys = [Fr(v) for v in y] if regime == "min_sum" else y
                        u, dlls, _ = _sc_textbook_native(ys, imask, 0 if fz else 1, bool(pi), regime)
                        if any(abs(float(v)) < 1e-9 for v in dlls):
                            continue
                        out = decs["sc"](torch.tensor([y], dtype=torch.float64))
                        got = [int(round(float(v))) for v in out[0].tolist()]
                        wantu = [int(u[i]) for i in info]
                        record(f"sc.equals_textbook.{regime}", got == wantu, {"N": N, "k": k, "frozen_zeros": fz, "polar_i": pi, "regime": regime, "llr": y, "decoded": got, "textbook": wantu})
    res = []
    for name, st in sorted(stats.items()):
        r = ObResult(prop="C11", ob=f"{spec.id}/{name}", config=str(cfg), function=spec.function, engine="standin", backend="native", kind="bounded")
        r.verdict = "discharged" if st["fail"] is None else "refuted"
        r.paths = st["n"]
        r.queries = st["n"]
        r.witness = st["fail"]
        r.replay_confirmed = None if st["fail"] is None else True
        r.detail = f"bounded: {st['n']} native evaluations; N={N}, k in {ks[:6]}{'...' if len(ks) > 6 else ''} ({len(ks)} values), magnitudes {mags}, batch sizes 1..8, all 2^k messages for k <= {kexh}"
        r.wall_s = round(time.time() - t0, 2)
        res.append(r)
    return res


# ---------------------------------------------------------------------------------------- float32 underflow (closed obligation; known finding)
@obligation("C11.sc_sum_product_float32_underflow_input", function=F_SC if "F_SC" in globals() else "kaira/models/fec/decoders/successive_cancellation.py:SuccessiveCancellationDecoder.forward", configs=lambda tier: [Cfg("polar", 1024, 933, "mag0.5")], kind="ground", engine="ground")
def sc_float32_underflow_input(cfg):
    """noise-free LLRs of magnitude 0.5 at N = 1024, k = 933, sum-product regime: in float32 the check-node products underflow to 0,
    sign(0) = 0 and the decoder returns 0.5 for many message bits.  Over the reals (the model of the symbolic proofs) the clause holds."""
    import torch

    from kaira.models.fec.decoders.successive_cancellation import SuccessiveCancellationDecoder
    from kaira.models.fec.encoders.polar_code import PolarCodeEncoder

    _, N, k, _m = cfg
    with contextlib.redirect_stdout(io.StringIO()):
        enc = PolarCodeEncoder(k, N)
        dec = SuccessiveCancellationDecoder(enc, regime="sum_product")
    g = torch.Generator().manual_seed(0)
    m = torch.randint(0, 2, (2, k), generator=g).float()
    x = enc(m)
    out = dec(0.5 * (1 - 2 * x))
    wrong = int((out != m).sum())
    yield "noise_free_llrs_decode_to_message", wrong == 0, f"{wrong} of {2 * k} decoded values differ from the message ({int((out == 0.5).sum())} are 0.5, i.e. the float32 decision LLR is exactly 0)"
