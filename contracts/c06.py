"""C06 - demodulators decide for the nearest constellation point and emit correctly signed, scaled max-log LLRs.

Contracts (y in C per symbol and sigma^2 > 0 symbolic; constellation C and labels L read from the REAL objects):

  hard   forall y, forall j:  |y - C[idx(out)]|^2 <= |y - C[j]|^2,   idx(out) = the point whose label equals the returned bits
  soft   exists kappa > 0 (read off ONE concrete evaluation, then proved):
             llr_k(y, sigma^2) == kappa * ( min_{L_jk=1} |y-C_j|^2  -  min_{L_jk=0} |y-C_j|^2 ) / sigma^2
         split into   (a) the identity at sigma^2 = 1 for all y      (clause maxlog_identity_unit_variance, kappa_positive)
                      (b) llr(y, sigma^2) * sigma^2 == llr(y, 1) for all y, sigma^2 > 0 (scalar tensor / Python float / per-symbol)
         (a) and (b) give the identity for every sigma^2 (lemma: f(y,s) = f(y,1)/s and f(y,1) = g(y)  =>  f(y,s) = g(y)/s) and
         llr(y, c sigma^2) = llr(y, sigma^2)/c.
  sign   llr_k > 0 => hard bit k == 0,  llr_k < 0 => hard bit k == 1  (proved directly from a soft and a hard call on the same y)

Spec functions use the reduced metric m_j(y) = |C_j|^2 - 2 Re(y conj C_j) = |y - C_j|^2 - |y|^2 (the common |y|^2 cancels in every
comparison and difference), which makes the specification side linear in y (DESIGN 3.3).

Proof engineering (sound generalisations, see `_prove`): a claim F(t_1..t_n) is proved by proving F(v_1..v_n) for FRESH, universally
quantified reals v_i in place of chosen subterms t_i (if it holds for all v it holds for v_i = t_i):
   'mono'   - after expansion into sums of monomials the nonlinear monomials y_re^2, y_im^2 ... are replaced: linear real arithmetic
   'opaque' - maximal noise-variance-free, ITE-free real subterms (the squared distances) are replaced: a small nonlinear problem in
              sigma^2 and a handful of opaque distances
If the generalised claim is not proved the exact claim goes to z3 unchanged, so refutations always come from the exact claim.

DPSK family: see the second half of this file (soft output on the normalised decision variable z; hard decision on angles is
bounded only).
"""
from __future__ import annotations

import math
import random
import time
from fractions import Fraction

import numpy as np
import torch
import z3

from vk import spec as SP
from vk import sym as S
from vk.harness import ObResult, obligation
from vk.tensor import P, PC

from vk.ops_mod2 import ensure_view_getitem

from . import mods
from .codes import Cfg, split_variant, with_variants

ensure_view_getitem()

FM = "kaira/modulations/"
RTOL = Fraction(1, 10**6)


# ================================================================================================ scheme description
class Scheme:
    """constellation / labels of a configuration read from the objects the real constructors built"""

    def __init__(self, cfg):
        self.cfg = cfg
        self.mod, self.dem = mods.build(cfg)
        fam = cfg[0]
        self.fam = fam
        m = getattr(self.dem, "modulator", None)
        self.hard_returns = "bits"
        if fam == "bpsk":
            # BPSKDemodulator carries no table; the scheme's points/labels are the modulator's constellation, point i labelled i
            self.tables = [_cpoints(self.mod.constellation)]
            self.labels = [[0], [1]]
            self.src = "BPSKModulator.constellation, label of point i is i (BPSKModulator.plot_constellation labels ['0','1'])"
        elif fam == "oqpsk":
            self.tables = [_cpoints(self.mod.constellation)]
            self.labels = _labels(self.mod.bit_patterns)
            self.src = "OQPSKModulator.constellation / bit_patterns (the demodulator carries no table)"
        elif fam == "pi4qpsk":
            self.tables = [_cpoints(m.qpsk), _cpoints(m.qpsk_rotated)]
            self.labels = _labels(m.bit_patterns)
            self.src = "Pi4QPSKDemodulator.modulator.qpsk / qpsk_rotated / bit_patterns (symbol t uses table t mod 2 after reset)"
        elif fam == "pam":
            self.tables = [[(Fraction(float(v)), Fraction(0)) for v in m.levels.tolist()]]
            self.labels = _labels(m.bit_patterns)
            self.src = "PAMDemodulator.modulator.levels / bit_patterns"
        else:
            self.tables = [_cpoints(m.constellation)]
            self.labels = _labels(m.bit_patterns)
            self.src = f"{type(self.dem).__name__}.modulator.constellation / bit_patterns"
        self.b = len(self.labels[0])
        self.n = len(self.labels)

    def table(self, t):
        return self.tables[t % len(self.tables)]


def _cpoints(t):
    return [(Fraction(float(c.real)), Fraction(float(c.imag))) for c in t.detach().to(torch.complex128)]


def _labels(bp):
    return [[int(round(float(v))) for v in row] for row in bp.tolist()]


_KAPPA = {}


def read_kappa(cfg):
    """kappa of the scheme read off one concrete evaluation of the real soft demodulator (sigma^2 = 1, a generic point y0):
    kappa := llr_0 / (min_{L_j0=1}|y0-C_j|^2 - min_{L_j0=0}|y0-C_j|^2), snapped to the nearest multiple of 1/8 (the identity
    is PROVED afterwards with this value, for every bit, so a wrong reading cannot go unnoticed)"""
    if cfg in _KAPPA:
        return _KAPPA[cfg]
    sc = Scheme(cfg)
    C = sc.table(0)
    c0 = C[0]
    y0 = complex(float(c0[0]) * 0.83 + 0.137, float(c0[1]) * 0.83 - 0.0731)
    y = torch.tensor([y0, y0], dtype=torch.complex64)
    with torch.no_grad():
        llr = sc.dem(y, torch.tensor(1.0)).reshape(-1)
    d = [(y0.real - float(c[0])) ** 2 + (y0.imag - float(c[1])) ** 2 for c in C]
    d1 = min(d[j] for j in range(sc.n) if sc.labels[j][0] == 1)
    d0 = min(d[j] for j in range(sc.n) if sc.labels[j][0] == 0)
    ratio = float(llr[0]) / (d1 - d0)
    snapped = Fraction(round(ratio * 8), 8)
    if snapped == 0 or abs(float(snapped) - ratio) > 1e-3 * max(1.0, abs(ratio)):
        snapped = Fraction(ratio).limit_denominator(1000)
    _KAPPA[cfg] = (snapped, {"y0": [y0.real, y0.imag], "noise_var": 1.0, "llr_bit0": float(llr[0]), "d1_minus_d0": d1 - d0, "ratio": ratio})
    return _KAPPA[cfg]


# ================================================================================================ spec functions
def metric(yr, yi, c):
    """reduced squared distance |y - c|^2 - |y|^2 = |c|^2 - 2 (y_re c_re + y_im c_im)"""
    cr, ci = c
    return S.sub(cr * cr + ci * ci, S.mul(2, S.add(S.mul(yr, cr), S.mul(yi, ci))))


def spec_min(vals):
    r = vals[0]
    for v in vals[1:]:
        r = S.smin(r, v)
    return r


def maxlog_difference(yr, yi, C, L, k):
    """min_{L_jk=1} |y-C_j|^2 - min_{L_jk=0} |y-C_j|^2  (the |y|^2 common to both minima cancels)"""
    m = [metric(yr, yi, c) for c in C]
    m1 = spec_min([m[j] for j in range(len(C)) if L[j][k] == 1])
    m0 = spec_min([m[j] for j in range(len(C)) if L[j][k] == 0])
    return S.sub(m1, m0)


def magnitude(yr, yi, C):
    """a positive scale of the squared distances involved (only used for float tolerances in native replays)"""
    return 1 + float(abs(yr)) ** 2 + float(abs(yi)) ** 2 + max(float(c[0] * c[0] + c[1] * c[1]) for c in C)


def nearest_point_claim(ctx, yr, yi, C, is_label):
    """forall j: m_out <= m_j where m_out is the metric of the point selected by the returned label (is_label[i] claims)"""
    m = [metric(yr, yi, c) for c in C]
    mo = m[-1]
    for i in range(len(C) - 2, -1, -1):
        mo = S.ite(is_label[i], m[i], mo)
    slack = 0 if ctx.mode == "sym" else Fraction(1, 10**5) * Fraction(magnitude(yr, yi, C))
    return SP.conj(S.le(mo, S.add(mj, slack)) for mj in m)


# ================================================================================================ proving helpers
def _is_num(a):
    return z3.is_rational_value(a) or z3.is_int_value(a) or z3.is_algebraic_value(a)


def generalise_monomials(e):
    """replace every nonlinear monomial by a fresh real (after z3.simplify(som=True))"""
    e = z3.simplify(e, som=True)
    cache, fresh = {}, {}

    def go(t):
        k = t.get_id()
        if k in cache:
            return cache[k]
        r = t
        if z3.is_app(t) and t.num_args() > 0:
            dk = t.decl().kind()
            if dk == z3.Z3_OP_MUL:
                non = [c for c in t.children() if not _is_num(c)]
                if len(non) >= 2 and all(c.num_args() == 0 or c.decl().kind() == z3.Z3_OP_POWER for c in non):
                    key = tuple(sorted(str(c) for c in non))
                    v = fresh.setdefault(key, z3.Real("mono!%d" % len(fresh)))
                    r = v
                    for c in t.children():
                        if _is_num(c):
                            r = c * r
                    cache[k] = r
                    return r
            if dk == z3.Z3_OP_POWER and all(c.num_args() == 0 for c in t.children()):
                key = (str(t),)
                r = fresh.setdefault(key, z3.Real("mono!%d" % len(fresh)))
                cache[k] = r
                return r
            ch = [go(c) for c in t.children()]
            r = t.decl()(*ch)
        cache[k] = r
        return r

    return go(e), len(fresh)


def generalise_opaque(e, keep):
    """replace the real subterms that mention none of the variables in `keep`, contain no if-then-else and are not themselves
    linear combinations (sums, numeral multiples) of smaller terms by fresh reals: the squared distances become opaque"""
    keep_ids = {v.get_id() for v in keep}
    info = {}

    def scan(t):
        k = t.get_id()
        if k in info:
            return info[k]
        has_keep = k in keep_ids
        has_ite = z3.is_app(t) and t.decl().kind() == z3.Z3_OP_ITE
        for c in t.children():
            a, b = scan(c)
            has_keep |= a
            has_ite |= b
        info[k] = (has_keep, has_ite)
        return info[k]

    scan(e)
    cache, fresh = {}, {}

    LINEAR = (z3.Z3_OP_ADD, z3.Z3_OP_SUB, z3.Z3_OP_UMINUS)

    def go(t):
        k = t.get_id()
        if k in cache:
            return cache[k]
        has_keep, has_ite = info[k]
        if t.sort() == z3.RealSort() and not has_keep and not has_ite and not _is_num(t):
            dk = t.decl().kind() if z3.is_app(t) else None
            ch = t.children()
            if dk in LINEAR or (dk == z3.Z3_OP_MUL and sum(1 for c in ch if not _is_num(c)) == 1) or (dk == z3.Z3_OP_DIV and _is_num(ch[1])):
                r = t.decl()(*[go(c) for c in ch])  # descend through the linear structure: units are the non-linear atoms / variables
            else:
                r = fresh.setdefault(k, z3.Real("opq!%d" % len(fresh)))
        elif t.num_args() == 0:
            r = t
        else:
            r = t.decl()(*[go(c) for c in t.children()])
        cache[k] = r
        return r

    return go(e), len(fresh)


def change_variables(g, keep):
    """second, equally sound step for scaling claims whose minima are taken over quotients d_j / nv (QPSK, DPSK): substitute every
    opaque distance v that occurs as a homogeneous-linear numerator of a division by a noise variance nv by v := q * nv with q fresh
    (for nv > 0 every v has this form, so validity for all q implies validity for all v) and cancel (q nv)/nv = q.
    The divisions disappear; what remains is bilinear (q * nv) with nv > 0."""
    keep_ids = {v.get_id(): v for v in keep}

    def denom_var(d):
        if d.get_id() in keep_ids:
            return d, None
        if z3.is_app(d) and d.decl().kind() == z3.Z3_OP_MUL and d.num_args() == 2:
            a, b = d.children()
            if _is_num(a) and b.get_id() in keep_ids:
                return b, a
            if _is_num(b) and a.get_id() in keep_ids:
                return a, b
        return None, None

    def is_opq(t):
        return z3.is_const(t) and str(t).startswith("opq!")

    def homog(n):
        if is_opq(n):
            return True
        if not z3.is_app(n):
            return False
        dk = n.decl().kind()
        ch = n.children()
        if dk in (z3.Z3_OP_ADD, z3.Z3_OP_SUB, z3.Z3_OP_UMINUS):
            return all(homog(c) for c in ch)
        if dk == z3.Z3_OP_MUL:
            non = [c for c in ch if not _is_num(c)]
            return len(non) == 1 and homog(non[0])
        return False

    def vars_of(n, acc):
        if is_opq(n):
            acc.add(n)
        for c in n.children():
            vars_of(c, acc)
        return acc

    assign, seen, ok = {}, set(), [True]

    def scan(t):
        if t.get_id() in seen:
            return
        seen.add(t.get_id())
        if z3.is_app(t) and t.decl().kind() == z3.Z3_OP_DIV:
            kv, _ = denom_var(t.arg(1))
            if kv is not None and homog(t.arg(0)):
                for v in vars_of(t.arg(0), set()):
                    if assign.setdefault(v.get_id(), kv).get_id() != kv.get_id():
                        ok[0] = False
                return
        for c in t.children():
            scan(c)

    scan(g)
    if not ok[0] or not assign:
        return None
    q = {}

    def qvar(v):
        return q.setdefault(v.get_id(), z3.Real("q!" + str(v)[4:]))

    cache = {}

    def inner(n):  # numerator with v -> q
        if is_opq(n):
            return qvar(n)
        if n.num_args() == 0:
            return n
        return n.decl()(*[inner(c) for c in n.children()])

    def go(t):
        k = t.get_id()
        if k in cache:
            return cache[k]
        if z3.is_app(t) and t.decl().kind() == z3.Z3_OP_DIV:
            kv, coef = denom_var(t.arg(1))
            if kv is not None and homog(t.arg(0)) and all(v.get_id() in assign for v in vars_of(t.arg(0), set())):
                r = inner(t.arg(0))
                if coef is not None:
                    r = r / coef
                cache[k] = r
                return r
        if is_opq(t) and k in assign:
            r = qvar(t) * assign[k]
        elif t.num_args() == 0:
            r = t
        else:
            r = t.decl()(*[go(c) for c in t.children()])
        cache[k] = r
        return r

    return go(g)


def _free_vars(t, acc=None, seen=None):
    acc = set() if acc is None else acc
    seen = set() if seen is None else seen
    if t.get_id() in seen:
        return acc
    seen.add(t.get_id())
    if z3.is_const(t) and t.decl().kind() == z3.Z3_OP_UNINTERPRETED:
        acc.add(str(t))
    for c in t.children():
        _free_vars(c, acc, seen)
    return acc


def _try(ctx, name, g, note):
    """try to prove the candidate g (which implies the clause) with z3 under the path's assumptions and path condition; side
    constraints (definitions of auxiliary Sqrt variables) are used only when they share a variable with g - dropping hypotheses
    can only make the proof harder.  The clause is recorded as discharged (backend z3) only on `unsat`."""
    ex = ctx.ex
    gv = _free_vars(g)
    s = z3.Solver()
    s.set("timeout", ex.solver.params().get("timeout") if False else _TIMEOUT[0])
    for c in ex.assumes + ex.pc:
        s.add(c)
    for c in ex.sides:
        if _free_vars(c) & gv:
            s.add(c)
    s.add(z3.Not(g))
    t0 = time.time()
    try:
        r = s.check()
    except z3.Z3Exception:
        r = z3.unknown
    dt = time.time() - t0
    ex.nqueries += 1
    ex.solver_time += dt
    if r != z3.unsat:
        return False
    rec = ctx.acc.setdefault(name, {"paths": 0, "refuted": None, "unknown": 0, "nf": 0, "smt": 0, "note": note, "solver_s": 0.0})
    rec["paths"] += 1
    rec["smt"] += 1
    rec["solver_s"] += dt
    return True


_TIMEOUT = [40000]


def _prove(ctx, name, claims, how, keep=(), note="", stronger=None):
    """ctx.ensure(name, c) for every conjunct c of `claims` (independent conjuncts, e.g. one per symbol, are proved one by one),
    with sound proof candidates attempted first (symbolic mode only): stronger[i] implies claims[i]; each candidate is generalised
    (see module docstring) - a generalised or stronger claim that z3 proves discharges the conjunct, otherwise the exact claim goes
    to z3 unchanged (refutations only ever come from the exact claim)"""
    if not isinstance(claims, (list, tuple)):
        claims = [claims]
        stronger = None if stronger is None else [stronger]
    tag = "nonlinear monomials" if how == "mono" else "noise-variance-free distance terms"
    for j, claim in enumerate(claims):
        if ctx.mode != "sym" or not isinstance(claim, S.Sym):
            ctx.ensure(name, claim, note=note)
            continue
        cands = ([stronger[j]] if stronger is not None else []) + [claim]
        done = False
        for i, cand in enumerate(cands):
            if not isinstance(cand, S.Sym):
                continue
            try:
                f = S.as_bool(cand)
                g, nfresh = generalise_monomials(f) if how == "mono" else generalise_opaque(f, keep)
            except z3.Z3Exception:
                continue
            what = ("exact equality (stronger than the 1e-6 tolerance); " if i < len(cands) - 1 else "") + f"{tag} replaced by fresh universally quantified reals"
            pre = (note + " | " if note else "") + "proved on the generalised claim: " + what
            g2 = change_variables(g, keep) if how == "opaque" else None
            if g2 is not None and _try(ctx, name, g2, pre + "; distances under a division by the noise variance rescaled (v = q * nv, nv > 0)"):
                done = True
                break
            if _try(ctx, name, g, pre):
                done = True
                break
        if not done:
            ctx.ensure(name, claim, note=note)


def _nv_tensor(ctx, v):
    """0-dim float tensor holding the scalar v in the current mode"""
    if ctx.mode == "sym":
        return ctx.tensor(np.asarray(v, dtype=object), torch.float32)
    return torch.tensor(float(v), dtype=torch.float32)


def _positive(ctx, name):
    v = ctx.scalar(name, "real", sampler=lambda r: 10 ** r.uniform(-3, 3))
    ctx.assume(S.lt(0, v))
    return v


# ================================================================================================ configurations
SOFT_FAMILIES = ("bpsk", "qpsk", "psk", "qam", "pam", "oqpsk", "pi4qpsk")


def _schemes(tier):
    return mods.catalogue(tier, families=SOFT_FAMILIES)


def _layouts(cfg, tier):
    """(1,): one symbol 1-D;  (2,): two symbols 1-D;  (1,2): batched"""
    npts = mods.points(cfg)
    if cfg[0] == "pi4qpsk":
        return ["n2", "b12"]
    if npts <= (8 if cfg[0] == "psk" else 16):
        return ["n1", "b12"]
    return ["n1"]  # the batched layout exercises indexing only, which does not depend on the constellation size


SHAPES = {"n1": (1,), "n2": (2,), "b12": (1, 2), "b21": (2, 1)}

SOFT_PROOF_LIMIT = {"psk": 32, "qam": 64}  # larger constellations: minutes of case analysis per bit -> bounded stand-in (C06.soft_large_bounded)


def _tractable(c):
    return mods.points(c) <= SOFT_PROOF_LIMIT.get(c[0], 64)



def _hard_cfgs(tier):
    out = []
    for c in _schemes(tier):
        if _tractable(c):
            out += with_variants([c], _layouts(c, tier))
    return out


def _symbols(y):
    """list of (index tuple, symbol position t) of a payload shaped (..., N)"""
    return [(idx, idx[-1]) for idx in np.ndindex(*y.shape)]


# ================================================================================================ hard decision
@obligation(
    "C06.hard_nearest_point",
    function=FM + "psk.py:BPSKDemodulator.forward; " + FM + "psk.py:QPSKDemodulator.forward; " + FM + "psk.py:PSKDemodulator.forward; " + FM + "qam.py:QAMDemodulator.forward; " + FM + "pam.py:PAMDemodulator.forward; " + FM + "pam.py:PAMDemodulator._hard_decision; " + FM + "oqpsk.py:OQPSKDemodulator.forward; " + FM + "pi4qpsk.py:Pi4QPSKDemodulator.forward",
    configs=_hard_cfgs,
    max_paths=64,
    timeout_ms=60000,
)
def hard_nearest_point(ctx, vcfg):
    cfg, lay = split_variant(vcfg)
    sc = Scheme(cfg)
    shape = SHAPES[lay]
    y = ctx.complexes("y", shape)
    out = ctx.call(sc.dem.forward, y)
    ctx.ensure("returns", out.ok, note=repr(out.exc) if not out.ok else sc.src)
    if not out.ok:
        return
    yr, yi = PC(y)
    o = P(out.value)
    index_output = cfg[0] == "pi4qpsk" and len(shape) == 1  # 1-D hard output of Pi4QPSKDemodulator is the point index, not its label
    want_shape = shape if index_output else shape[:-1] + (shape[-1] * sc.b,)
    ctx.ensure("output_shape", SP.shape_is(out.value, want_shape), note="1-D pi/4-QPSK hard output is the index of the decided point" if index_output else "")
    if not SP.shape_is(out.value, want_shape):
        return
    valid, nearest = [], []
    for idx, t in _symbols(yr):
        C = sc.table(t)
        if index_output:
            is_label = [S.eq(o[idx], i) for i in range(sc.n)]
        else:
            bits = [o[idx[:-1] + (t * sc.b + k,)] for k in range(sc.b)]
            is_label = [SP.conj(S.eq(bits[k], sc.labels[i][k]) for k in range(sc.b)) for i in range(sc.n)]
        valid.append(SP.disj(is_label))
        nearest.append(nearest_point_claim(ctx, yr[idx], yi[idx], C, is_label))
    ctx.ensure("returns_a_label_of_the_scheme", SP.conj(valid))
    _prove(ctx, "decided_point_is_at_minimum_distance", nearest, "mono")
    ctx.ensure("input_unmodified", out.unmodified)


# ================================================================================================ soft output at unit variance
def _soft_cfgs(tier):
    return _hard_cfgs(tier)


def _llr_at(o, idx, t, b, k):
    return o[idx[:-1] + (t * b + k,)]


def _close(ctx, lhs, rhs, scale_native):
    """|lhs - rhs| <= 1e-6 |rhs| ; native replays add the float32 cancellation error of the two minima"""
    tol = S.mul(RTOL, S.sabs(rhs))
    if ctx.mode != "sym":
        tol = S.add(tol, Fraction(scale_native) * Fraction(1, 10**4))
    return S.le(S.sabs(S.sub(lhs, rhs)), tol)


SOFT_FUNCS = (
    FM + "psk.py:BPSKDemodulator.forward; " + FM + "psk.py:QPSKDemodulator.forward; " + FM + "psk.py:QPSKDemodulator._min_distance_to_points; " + FM + "psk.py:PSKDemodulator.forward; "
    + FM + "qam.py:QAMDemodulator.forward; " + FM + "qam.py:QAMDemodulator._min_squared_distance; " + FM + "pam.py:PAMDemodulator.forward; " + FM + "pam.py:PAMDemodulator._compute_llrs; "
    + FM + "pam.py:PAMDemodulator._min_distance_to_levels; " + FM + "oqpsk.py:OQPSKDemodulator.forward; " + FM + "pi4qpsk.py:Pi4QPSKDemodulator.forward"
)


@obligation("C06.soft_maxlog", function=SOFT_FUNCS, configs=_soft_cfgs, max_paths=64, timeout_ms=60000)
def soft_maxlog(ctx, vcfg):
    cfg, lay = split_variant(vcfg)
    sc = Scheme(cfg)
    kappa, reading = read_kappa(cfg)
    shape = SHAPES[lay]
    y = ctx.complexes("y", shape)
    out = ctx.call(sc.dem.forward, y, torch.tensor(1.0))
    ctx.ensure("returns", out.ok, note=repr(out.exc) if not out.ok else sc.src)
    if not out.ok:
        return
    ctx.ensure("kappa_positive", kappa > 0, note=f"kappa={kappa} read from {reading}")
    want_shape = shape[:-1] + (shape[-1] * sc.b,)
    ctx.ensure("output_shape", SP.shape_is(out.value, want_shape))
    if not SP.shape_is(out.value, want_shape):
        return
    yr, yi = PC(y)
    o = P(out.value)
    per_bit = {k: [] for k in range(sc.b)}
    exact = {k: [] for k in range(sc.b)}
    for idx, t in _symbols(yr):
        C = sc.table(t)
        for k in range(sc.b):
            rhs = S.mul(kappa, maxlog_difference(yr[idx], yi[idx], C, sc.labels, k))
            per_bit[k].append(_close(ctx, _llr_at(o, idx, t, sc.b, k), rhs, magnitude(yr[idx], yi[idx], C) if ctx.mode != "sym" else 0))
            exact[k].append(S.eq(_llr_at(o, idx, t, sc.b, k), rhs))
    for k in range(sc.b):
        _prove(ctx, f"maxlog_identity_unit_variance.bit{k}", per_bit[k], "mono", note=f"kappa={kappa}", stronger=exact[k])
    ctx.ensure("input_unmodified", out.unmodified)


# ================================================================================================ scaling with the noise variance
def _scal_cfgs(tier):
    out = []
    for c in _schemes(tier):
        v = ["t0", "pf", "ps"]
        if mods.points(c) <= 16:
            v.append("bps")
            if c[0] not in ("pi4qpsk", "psk"):  # PSKDemodulator indexes the variance per symbol and rejects (B, 1) with an IndexError
                v.append("bs1")  # one noise variance PER SAMPLE of a batch: shape (B, 1) against y of shape (B, N)
        out += with_variants([c], v)
    return out


@obligation("C06.soft_scaling", function=SOFT_FUNCS, configs=_scal_cfgs, max_paths=64, timeout_ms=60000)
def soft_scaling(ctx, vcfg):
    """llr(y, sigma^2) * sigma^2 == llr(y, 1): t0 = 0-dim tensor, pf = Python float, ps = per-symbol tensor (2 symbols),
    bps = per-symbol tensor on a (1,2) batch"""
    cfg, form = split_variant(vcfg)
    sc = Scheme(cfg)
    shape = (2, 2) if form == "bs1" else ((1, 2) if form == "bps" else ((2,) if form == "ps" or cfg[0] == "pi4qpsk" else (1,)))
    # native samples (differential cross-check, replay search) stay near the constellation: float32 evaluates (d1 - d0) / sigma^2 with
    # an absolute error of about |y|^2 * 1e-7 / sigma^2, which for |y| ~ 12 and sigma^2 ~ 0.007 exceeded the cross-check's 5e-4
    # relative tolerance on 64-PSK (engine-fault report on the unchanged tree in the thorough tier); the PROOF is for all y, sigma^2 > 0
    y = ctx.complexes("y", shape, sampler=lambda r: r.gauss(0, 1.2))
    if form in ("t0", "pf"):
        s = _positive(ctx, "nv")
        nv_of = lambda idx: s
        arg = _nv_tensor(ctx, s) if form == "t0" else s
        keep = [z3.Real("nv")]
    elif form == "bs1":
        nvt = ctx.reals("nv", (shape[0], 1), sampler=lambda r: 10 ** r.uniform(-1, 2))
        nvp = P(nvt)
        for v in nvp.reshape(-1):
            ctx.assume(S.lt(0, v))
        nv_of = lambda idx: nvp[idx[0], 0]
        arg = nvt
        keep = [z3.Real(f"nv[{i}]") for i in range(shape[0])]
    else:
        nvt = ctx.reals("nv", shape, sampler=lambda r: 10 ** r.uniform(-3, 3))
        nvp = P(nvt)
        for v in nvp.reshape(-1):
            ctx.assume(S.lt(0, v))
        nv_of = lambda idx: nvp[idx]
        arg = nvt
        keep = [z3.Real(f"nv[{i}]") for i in range(int(np.prod(shape)))]
    sc1 = Scheme(cfg)  # a second, fresh object for the reference call (schemes with memory toggle their state)
    out = ctx.call(sc.dem.forward, y, arg)
    if form == "bs1" and not out.ok and out.raised(IndexError, RuntimeError, ValueError, TypeError):
        # a demodulator that does not broadcast a (B, 1) variance rejects it (PSKDemodulator indexes it per symbol): an error is not a
        # wrong LLR; the clause is stated for the demodulators that accept the shape
        return
    ref = ctx.call(sc1.dem.forward, y, torch.tensor(1.0))
    ctx.ensure("returns", out.ok and ref.ok, note=repr(out.exc or ref.exc) if not (out.ok and ref.ok) else "")
    if not (out.ok and ref.ok):
        return
    ctx.ensure("output_shape", SP.shape_is(out.value, tuple(ref.value.shape)))
    if not SP.shape_is(out.value, tuple(ref.value.shape)):
        return
    yr, yi = PC(y)
    o, r = P(out.value), P(ref.value)
    claims = []
    for idx, t in _symbols(yr):
        for k in range(sc.b):
            a, b = _llr_at(o, idx, t, sc.b, k), _llr_at(r, idx, t, sc.b, k)
            lhs = S.mul(a, nv_of(idx))
            if ctx.mode == "sym":
                claims.append(S.eq(lhs, b))
            else:
                claims.append(S.le(S.sabs(S.sub(lhs, b)), S.add(S.mul(Fraction(1, 10**4), S.sabs(b)), Fraction(magnitude(yr[idx], yi[idx], sc.table(t))) * Fraction(1, 10**4))))
    _prove(ctx, "llr_times_variance_is_unit_variance_llr", claims, "opaque", keep=keep)


# ================================================================================================ sign of the LLR vs hard decision
def _sign_cfgs(tier):
    return with_variants([c for c in _schemes(tier) if _tractable(c)], ["n"])


@obligation("C06.soft_sign_agrees_with_hard", function=SOFT_FUNCS, configs=_sign_cfgs, max_paths=64, timeout_ms=60000)
def soft_sign(ctx, vcfg):
    """llr_k(y, 1) > 0 => hard bit k == 0 and llr_k(y, 1) < 0 => hard bit k == 1 (every sigma^2 by C06.soft_scaling)"""
    cfg, _ = split_variant(vcfg)
    sc, sc1 = Scheme(cfg), Scheme(cfg)
    shape = (1, 2) if cfg[0] == "pi4qpsk" else (1,)  # batched pi/4-QPSK returns bits (1-D returns point indices)
    y = ctx.complexes("y", shape)
    soft = ctx.call(sc.dem.forward, y, torch.tensor(1.0))
    hard = ctx.call(sc1.dem.forward, y)
    ctx.ensure("returns", soft.ok and hard.ok, note=repr(soft.exc or hard.exc) if not (soft.ok and hard.ok) else "")
    if not (soft.ok and hard.ok):
        return
    ctx.ensure("same_shape", tuple(soft.value.shape) == tuple(hard.value.shape))
    if tuple(soft.value.shape) != tuple(hard.value.shape):
        return
    yr, yi = PC(y)
    sp, hp = P(soft.value), P(hard.value)
    for k in range(sc.b):
        claims = []
        for idx, t in _symbols(yr):
            l, h = _llr_at(sp, idx, t, sc.b, k), _llr_at(hp, idx, t, sc.b, k)
            eps = 0 if ctx.mode == "sym" else Fraction(magnitude(yr[idx], yi[idx], sc.table(t))) * Fraction(1, 10**4)
            claims.append(S.lor(S.le(l, eps), S.eq(h, 0)))
            claims.append(S.lor(S.le(S.mul(-1, eps), l), S.eq(h, 1)))
        _prove(ctx, f"sign_agrees.bit{k}", claims, "mono")


def _carried_cfgs(tier):
    return with_variants([c for c in _schemes(tier) if c[0] == "pi4qpsk"], ["p1", "p3"] if tier == "quick" else ["p1", "p2", "p3", "p5"])


@obligation("C06.pi4qpsk_soft_and_hard_share_carried_state", function=FM + "pi4qpsk.py:Pi4QPSKDemodulator.forward", configs=_carried_cfgs, max_paths=64, timeout_ms=60000)
def pi4_carried_state(ctx, vcfg):
    """the alternating scheme in its default (training) mode carries the constellation phase across calls.  Two fresh
    demodulators first consume the same concrete chunk of p symbols (hard call), then one demodulates a symbolic y hard, the
    other soft: both must use the constellation of absolute position p + t for symbol t - the hard output is a nearest point
    of that table and the LLR sign agrees with the hard bit"""
    cfg, var = split_variant(vcfg)
    p = int(var[1:])
    sc, sc1 = Scheme(cfg), Scheme(cfg)
    prior = torch.tensor([[complex(0.3 + 0.1 * j, -0.2 + 0.15 * j) for j in range(p)]], dtype=torch.complex64)
    with torch.no_grad():
        sc.dem(prior)
        sc1.dem(prior)
    shape = (1, 2)
    y = ctx.complexes("y", shape)
    soft = ctx.call(sc.dem.forward, y, torch.tensor(1.0))
    hard = ctx.call(sc1.dem.forward, y)
    ctx.ensure("returns", soft.ok and hard.ok, note=repr(soft.exc or hard.exc) if not (soft.ok and hard.ok) else "")
    if not (soft.ok and hard.ok):
        return
    ctx.ensure("same_shape", tuple(soft.value.shape) == tuple(hard.value.shape) == (1, 4))
    if not tuple(soft.value.shape) == tuple(hard.value.shape) == (1, 4):
        return
    yr, yi = PC(y)
    sp, hp = P(soft.value), P(hard.value)
    nearest = []
    for idx, t in _symbols(yr):
        C = sc.table(p + t)
        bits = [hp[idx[:-1] + (t * sc.b + k,)] for k in range(sc.b)]
        is_label = [SP.conj(S.eq(bits[k], sc.labels[i][k]) for k in range(sc.b)) for i in range(sc.n)]
        nearest.append(nearest_point_claim(ctx, yr[idx], yi[idx], C, is_label))
    _prove(ctx, "hard_uses_table_of_absolute_position", nearest, "mono")
    for k in range(sc.b):
        claims = []
        for idx, t in _symbols(yr):
            l, h = _llr_at(sp, idx, t, sc.b, k), _llr_at(hp, idx, t, sc.b, k)
            eps = 0 if ctx.mode == "sym" else Fraction(magnitude(yr[idx], yi[idx], sc.table(p + t))) * Fraction(1, 10**4)
            claims.append(S.lor(S.le(l, eps), S.eq(h, 0)))
            claims.append(S.lor(S.le(S.mul(-1, eps), l), S.eq(h, 1)))
        _prove(ctx, f"sign_agrees.bit{k}", claims, "mono")


# ================================================================================================ DPSK family
# The property speaks of the decision variable z = y_t conj(y_{t-1}); DPSKDemodulator.forward normalises it, zn = z/(|z|+1e-9),
# and computes its soft output from zn.  Contracts:
#   C06.dpsk_min_distance   helper: _min_distance_to_points(z, points, nv)[i] == - min_j |z_i - p_j|^2 / nv_i   (any z)
#   C06.dpsk_soft_forward   forward(y, sigma^2): max-log identity in terms of zn, stated for |z| = 1 (sqrt lemma: |z| = 1 => the
#                           engine's Sqrt term equals 1), unit variance + scaling, kappa read off one evaluation
#   C06.dpsk_hard_bounded   hard decision compares wrapped ANGLES (torch.angle = atan2): out of reach, bounded stand-in on a
#                           dense polar grid including the decision boundaries +- eps
DPSK_F = FM + "dpsk.py:DPSKDemodulator.forward; " + FM + "dpsk.py:DPSKDemodulator._min_distance_to_points"
EPS_NORM = Fraction(float(1e-09))


def _dpsk_cfgs(tier):
    return mods.catalogue(tier, families=("dpsk", "dbpsk", "dqpsk"))


def read_kappa_dpsk(cfg):
    if cfg in _KAPPA:
        return _KAPPA[cfg]
    sc = Scheme(cfg)
    C = sc.table(0)
    ang = 0.3
    y = torch.tensor([1.0 + 0j, complex(math.cos(ang), math.sin(ang))], dtype=torch.complex64)
    with torch.no_grad():
        llr = sc.dem(y, torch.tensor(1.0)).reshape(-1)
    z = complex(y[1]) * complex(y[0]).conjugate()
    zn = z / (abs(z) + 1e-9)
    d = [(zn.real - float(c[0])) ** 2 + (zn.imag - float(c[1])) ** 2 for c in C]
    d1 = min(d[j] for j in range(sc.n) if sc.labels[j][0] == 1)
    d0 = min(d[j] for j in range(sc.n) if sc.labels[j][0] == 0)
    ratio = float(llr[0]) / (d1 - d0)
    snapped = Fraction(round(ratio * 8), 8)
    if snapped == 0 or abs(float(snapped) - ratio) > 1e-3 * max(1.0, abs(ratio)):
        snapped = Fraction(ratio).limit_denominator(1000)
    _KAPPA[cfg] = (snapped, {"y": [[1.0, 0.0], [math.cos(ang), math.sin(ang)]], "noise_var": 1.0, "llr_bit0": float(llr[0]), "d1_minus_d0": d1 - d0, "ratio": ratio})
    return _KAPPA[cfg]


def _subset(sc, k, b):
    idx = [j for j in range(sc.n) if sc.labels[j][k] == b]
    return idx


@obligation("C06.dpsk_min_distance", function=FM + "dpsk.py:DPSKDemodulator._min_distance_to_points", configs=lambda tier: with_variants(_dpsk_cfgs(tier), ["n2", "b12"]), max_paths=64, timeout_ms=60000)
def dpsk_min_distance(ctx, vcfg):
    """contract of the helper on the arguments forward passes: z (.., N) complex, points = the constellation points whose bit k
    is b (taken from the real object with the same boolean-mask indexing forward uses), nv (.., N) > 0"""
    cfg, lay = split_variant(vcfg)
    sc = Scheme(cfg)
    shape = SHAPES[lay]
    z = ctx.complexes("z", shape)
    nvt = ctx.reals("nv", shape, sampler=lambda r: 10 ** r.uniform(-3, 3))
    nvp = P(nvt)
    for v in nvp.reshape(-1):
        ctx.assume(S.lt(0, v))
    const = sc.dem.modulator.constellation
    bp = sc.dem.modulator.bit_patterns
    k = sc.b - 1
    pts_idx = _subset(sc, k, 0)
    points = const[bp[:, k] == 0]
    C = [sc.table(0)[j] for j in pts_idx]
    ones = torch.ones(shape)
    out = ctx.call(sc.dem._min_distance_to_points, z, points, nvt)
    ref = ctx.call(sc.dem._min_distance_to_points, z, points, ones)
    ctx.ensure("returns", out.ok and ref.ok, note=repr(out.exc or ref.exc) if not (out.ok and ref.ok) else "")
    if not (out.ok and ref.ok):
        return
    ctx.ensure("output_shape", SP.shape_is(out.value, shape) and SP.shape_is(ref.value, shape))
    if not (SP.shape_is(out.value, shape) and SP.shape_is(ref.value, shape)):
        return
    zr, zi = PC(z)
    o, r = P(out.value), P(ref.value)
    unit, unit_close, scal = [], [], []
    for idx in np.ndindex(*shape):
        y2 = S.add(S.mul(zr[idx], zr[idx]), S.mul(zi[idx], zi[idx]))
        want = S.mul(-1, S.add(y2, spec_min([metric(zr[idx], zi[idx], c) for c in C])))  # - min_j |z - p_j|^2
        unit.append(S.eq(r[idx], want))
        tol = S.mul(RTOL, S.sabs(want)) if ctx.mode == "sym" else S.add(S.mul(RTOL, S.sabs(want)), Fraction(magnitude(zr[idx], zi[idx], C)) * Fraction(1, 10**4))
        unit_close.append(S.le(S.sabs(S.sub(r[idx], want)), tol))
        lhs = S.mul(o[idx], nvp[idx])
        scal.append(S.eq(lhs, r[idx]) if ctx.mode == "sym" else S.le(S.sabs(S.sub(lhs, r[idx])), S.add(S.mul(Fraction(1, 10**4), S.sabs(r[idx])), Fraction(1, 10**4))))
    _prove(ctx, "unit_variance_is_minus_min_squared_distance", unit_close, "mono", stronger=unit)
    _prove(ctx, "result_times_variance_is_unit_variance_result", scal, "opaque", keep=[z3.Real(f"nv[{i}]") for i in range(int(np.prod(shape)))])
    ctx.ensure("inputs_unmodified", S.land(out.unmodified, ref.unmodified))


def _sqrt_unit_lemmas(ctx, hyp, moduli=()):
    """for every Sqrt term s the engine introduced on this path (side constraint s >= 0 and s*s == r): prove s == 1 from the
    hypothesis |z_t|^2 = 1.  Fast route: r is, as a polynomial, identical to one of the squared moduli of the hypothesis
    (z3.simplify(r - m, som=True) == 0), then s >= 0, s*s == 1 |- s == 1; otherwise the full query goes to z3.
    Returns the substitution list [(s, 1)] of the proved ones (used only under that hypothesis)"""
    subs = []
    if ctx.mode != "sym":
        return subs
    h = S.zbool(hyp)
    mods2 = [S.zreal(m) for m in moduli]
    for c in ctx.ex.sides:
        if z3.is_and(c) and c.num_args() == 2 and z3.is_ge(c.arg(0)) and z3.is_eq(c.arg(1)):
            s = c.arg(0).arg(0)
            if z3.is_const(s) and str(s).startswith("sqrt!"):
                r = c.arg(1).arg(1)
                if any(z3.is_rational_value(d) and d.numerator_as_long() == 0 for d in (z3.simplify(r - m, som=True) for m in mods2)):
                    q = z3.Solver()
                    q.add(s >= 0, s * s == 1, s != 1)
                    if q.check() == z3.unsat:
                        subs.append((s, z3.RealVal(1)))
                        continue
                q = z3.Solver()
                q.set("timeout", 10000)
                q.add(c, h, s != 1)
                if q.check() == z3.unsat:
                    subs.append((s, z3.RealVal(1)))
    return subs


def _under(hyp, claim, subs):
    """hyp => claim, with the Sqrt terms proved equal to 1 under hyp substituted in claim"""
    if not isinstance(claim, S.Sym) and not isinstance(hyp, S.Sym):
        return (not hyp) or claim
    c = S.zbool(claim)
    if subs:
        c = z3.substitute(c, *subs)
    return S.Sym(z3.Implies(S.zbool(hyp), c))


def _dpsk_direct_cfgs(tier):
    """the direct (non-modular) proof needs the solver to reason about minima over quotients: 16-DPSK only in the thorough tier"""
    return with_variants([c for c in _dpsk_cfgs(tier) if mods.points(c) <= (8 if tier == "quick" else 16)], ["ref1", "gen", "pf", "ps"])


@obligation("C06.dpsk_soft_forward", function=DPSK_F, configs=_dpsk_direct_cfgs, max_paths=64, timeout_ms=60000)
def dpsk_soft_forward(ctx, vcfg):
    """ref1: y = (1, y1), 0-dim tensor sigma^2;  gen: y = (y0, y1) both symbolic;  pf: Python float sigma^2;  ps: y = (1, y1, y2), per-pair
    sigma^2 tensor.  Every clause is stated under the hypothesis |z_t| = 1 for the decision variables z_t = y_t conj(y_{t-1})
    (native replays accept | |z|^2 - 1 | <= 1e-6)"""
    cfg, form = split_variant(vcfg)
    sc, sc1 = Scheme(cfg), Scheme(cfg)
    kappa, reading = read_kappa_dpsk(cfg)
    nsym = 3 if form == "ps" else 2
    unit = lambda r: r.choice([(1.0, 0.0), (0.0, 1.0), (-1.0, 0.0), (0.0, -1.0)])
    if form == "gen":
        y = ctx.complexes("y", (nsym,), sampler=lambda r: r.choice([1.0, 0.0, -1.0, r.gauss(0, 1)]))
        yr, yi = PC(y)
    else:
        y1 = ctx.complexes("y", (nsym - 1,), sampler=lambda r: r.choice([1.0, 0.0, -1.0, r.gauss(0, 1)]))
        y1r, y1i = PC(y1)
        yr = np.asarray([1] + list(y1r), dtype=object)
        yi = np.asarray([0] + list(y1i), dtype=object)
        y = _complex_tensor(ctx, yr, yi)
    zs, hyps, moduli = [], [], []
    for t in range(1, nsym):
        zr = S.add(S.mul(yr[t], yr[t - 1]), S.mul(yi[t], yi[t - 1]))
        zi = S.sub(S.mul(yi[t], yr[t - 1]), S.mul(yr[t], yi[t - 1]))
        zs.append((zr, zi))
        m2 = S.add(S.mul(zr, zr), S.mul(zi, zi))
        moduli.append(m2)
        hyps.append(S.eq(m2, 1) if ctx.mode == "sym" else S.le(S.sabs(S.sub(m2, 1)), Fraction(1, 10**6)))
    hyp = SP.conj(hyps)
    if form == "ps":
        nvt = ctx.reals("nv", (nsym - 1,), sampler=lambda r: 10 ** r.uniform(-3, 3))
        nvp = P(nvt)
        for v in nvp.reshape(-1):
            ctx.assume(S.lt(0, v))
        nv_of = lambda t: nvp[t]
        arg = nvt
        keep = [z3.Real(f"nv[{i}]") for i in range(nsym - 1)]
    else:
        s = _positive(ctx, "nv")
        nv_of = lambda t: s
        arg = s if form == "pf" else _nv_tensor(ctx, s)
        keep = [z3.Real("nv")]
    out = ctx.call(sc.dem.forward, y, arg)
    ref = ctx.call(sc1.dem.forward, y, torch.tensor(1.0))
    ctx.ensure("returns", out.ok and ref.ok, note=repr(out.exc or ref.exc) if not (out.ok and ref.ok) else sc.src)
    if not (out.ok and ref.ok):
        return
    want_shape = ((nsym - 1) * sc.b,)
    ctx.ensure("output_shape", SP.shape_is(out.value, want_shape) and SP.shape_is(ref.value, want_shape), note="one symbol fewer than the input (reference symbol)")
    if not (SP.shape_is(out.value, want_shape) and SP.shape_is(ref.value, want_shape)):
        return
    ctx.ensure("kappa_positive", kappa > 0, note=f"kappa={kappa} read from {reading}")
    subs = _sqrt_unit_lemmas(ctx, hyp, moduli)
    o, r = P(out.value), P(ref.value)
    C = sc.table(0)
    one_eps = S.add(1, EPS_NORM)
    for k in range(sc.b):
        exact, close, scal = [], [], []
        for t, (zr, zi) in enumerate(zs):
            znr, zni = S.div(zr, one_eps), S.div(zi, one_eps)  # zn = z / (|z| + 1e-9) with |z| = 1
            rhs = S.mul(kappa, maxlog_difference(znr, zni, C, sc.labels, k))
            a, b = o[t * sc.b + k], r[t * sc.b + k]
            exact.append(S.eq(b, rhs))
            tol = S.mul(RTOL, S.sabs(rhs)) if ctx.mode == "sym" else S.add(S.mul(RTOL, S.sabs(rhs)), Fraction(1, 10**3))
            close.append(S.le(S.sabs(S.sub(b, rhs)), tol))
            lhs = S.mul(a, nv_of(t))
            scal.append(S.eq(lhs, b) if ctx.mode == "sym" else S.le(S.sabs(S.sub(lhs, b)), S.add(S.mul(Fraction(1, 10**3), S.sabs(b)), Fraction(1, 10**3))))
        note = f"kappa={kappa}; under |z|=1; {len(subs)} Sqrt term(s) proved equal to 1 under that hypothesis and substituted"
        _prove(ctx, f"maxlog_identity_unit_variance.bit{k}", [_under(hyp, c, subs) for c in close], "mono", note=note, stronger=[_under(hyp, c, subs) for c in exact])
        _prove(ctx, f"llr_times_variance_is_unit_variance_llr.bit{k}", [_under(hyp, c, subs) for c in scal], "opaque", keep=keep, note=note)


def _complex_tensor(ctx, re, im):
    if ctx.mode != "sym":
        return torch.tensor([complex(float(a), float(b)) for a, b in zip(re, im)], dtype=torch.complex64)
    from vk.tensor import SymTensor

    return SymTensor(np.asarray(re, dtype=object), np.asarray(im, dtype=object), torch.complex64)


def _polar_grid(sc, tier, seed):
    """decision variables z: radii x (dense angle grid + every decision boundary -eps, exactly, +eps)"""
    rng = random.Random(seed * 13 + 1)
    nang = 720 if tier == "quick" else 2880
    angs = [2 * math.pi * i / nang for i in range(nang)]
    cang = sorted(math.atan2(float(c[1]), float(c[0])) % (2 * math.pi) for c in sc.table(0))
    for a, b in zip(cang, cang[1:] + [cang[0] + 2 * math.pi]):
        mid = (a + b) / 2
        for e in (-1e-2, -1e-3, -1e-4, 0.0, 1e-4, 1e-3, 1e-2):
            angs.append((mid + e) % (2 * math.pi))
    for c in cang:
        angs.append(c)
    radii = [1.0, 0.05, 0.5, 2.0, 10.0]
    pts = [(r, a) for r in radii for a in angs]
    pts += [(10 ** rng.uniform(-2, 2), rng.uniform(0, 2 * math.pi)) for _ in range(500 if tier == "quick" else 5000)]
    return pts


@obligation("C06.dpsk_hard_bounded", function=DPSK_F, configs=_dpsk_cfgs, kind="custom", engine="standin")
def dpsk_hard_bounded(spec, cfg, tier, seed):
    t0 = time.time()
    sc = Scheme(cfg)
    C = [complex(float(c[0]), float(c[1])) for c in sc.table(0)]
    L = sc.labels
    rng = random.Random(seed * 17 + 3)
    pts = _polar_grid(sc, tier, seed)
    # y_{t-1} arbitrary (random modulus and phase), y_t such that y_t conj(y_{t-1}) = z
    prev = [complex(10 ** rng.uniform(-1, 1) * math.cos(p), 10 ** rng.uniform(-1, 1) * math.sin(p)) for p in [rng.uniform(0, 2 * math.pi) for _ in pts]]
    zs = [complex(r * math.cos(a), r * math.sin(a)) for r, a in pts]
    cur = [z / p.conjugate() for z, p in zip(zs, prev)]
    fails = {"hard_label_is_a_nearest_point": None, "soft_sign_agrees_with_hard": None, "soft_maxlog_identity_any_modulus": None}
    kappa, _ = read_kappa_dpsk(cfg)
    nvs = [10 ** rng.uniform(-3, 3) for _ in pts]
    evals = 0
    with torch.no_grad():
        for i in range(len(pts)):
            y = torch.tensor([prev[i], cur[i]], dtype=torch.complex128).to(torch.complex64)
            hard = [int(round(float(v))) for v in sc.dem(y).reshape(-1)]
            soft = [float(v) for v in sc.dem(y, nvs[i]).reshape(-1)]
            evals += 1
            z = complex(y[1]) * complex(y[0]).conjugate()
            zn = z / (abs(z) + 1e-9)
            d = [abs(zn - c) ** 2 for c in C]
            lab = [j for j in range(sc.n) if L[j] == hard]
            w = {"y": [[prev[i].real, prev[i].imag], [cur[i].real, cur[i].imag]], "z_modulus": pts[i][0], "z_angle": pts[i][1], "hard": hard, "soft": soft, "noise_var": nvs[i]}
            if fails["hard_label_is_a_nearest_point"] is None and (not lab or d[lab[0]] > min(d) + 1e-5):
                fails["hard_label_is_a_nearest_point"] = dict(w, nearest_label=L[d.index(min(d))])
            for k in range(sc.b):
                d1 = min(d[j] for j in range(sc.n) if L[j][k] == 1)
                d0 = min(d[j] for j in range(sc.n) if L[j][k] == 0)
                want = float(kappa) * (d1 - d0) / nvs[i]
                if fails["soft_maxlog_identity_any_modulus"] is None and abs(soft[k] - want) > 1e-3 * (abs(want) + 1.0 / nvs[i]):
                    fails["soft_maxlog_identity_any_modulus"] = dict(w, bit=k, expected=want)
                margin = 1e-4 / nvs[i]
                if fails["soft_sign_agrees_with_hard"] is None and ((soft[k] > margin and hard[k] != 0) or (soft[k] < -margin and hard[k] != 1)):
                    fails["soft_sign_agrees_with_hard"] = dict(w, bit=k)
    res = []
    for name, fail in fails.items():
        r = ObResult(prop="C06", ob=f"{spec.id}/{name}", config=str(cfg), function=spec.function, engine="standin", backend="native", kind="bounded")
        r.verdict = "discharged" if fail is None else "refuted"
        r.paths = evals
        r.queries = len(pts)
        r.witness = fail
        r.replay_confirmed = None if fail is None else True
        r.detail = f"bounded: hard decision uses torch.angle (atan2), out of reach of the symbolic engine; {len(pts)} decision variables on a polar grid (5 moduli x dense angles incl. every decision boundary +-1e-4..1e-2, seeded random), random y_(t-1)" + (f"; kappa={kappa}" if name.startswith("soft_maxlog") else "")
        r.wall_s = round(time.time() - t0, 2)
        res.append(r)
    return res


# ------------------------------------------------------------------------------------------------ DPSK forward, modular
@obligation("C06.dpsk_forward_modular", function=FM + "dpsk.py:DPSKDemodulator.forward", configs=lambda tier: with_variants(_dpsk_cfgs(tier), ["t0", "ps"]), max_paths=64, timeout_ms=60000)
def dpsk_forward_modular(ctx, vcfg):
    """forward with `_min_distance_to_points` replaced by its contract (C06.dpsk_min_distance): the stub returns fresh symbols M_{k,b}
    (universally quantified; natively it calls the real helper).  Clauses: the helper is called once per (bit k, value b) with the
    points whose bit k is b, with the normalised decision variable zn = z/(|z|+1e-9) (stated under |z_t| = 1) and with 2 sigma^2;
    the output is llr_k = gamma (M_{k,0} - M_{k,1}) with gamma > 0: since M_{k,b} = -min_{L_jk=b}|zn - C_j|^2/(2 sigma^2) by the
    helper's contract this is the max-log identity with kappa = gamma/2."""
    cfg, form = split_variant(vcfg)
    sc = Scheme(cfg)
    kappa, reading = read_kappa_dpsk(cfg)
    gamma = 2 * kappa
    nsym = 3
    y = ctx.complexes("y", (nsym,), sampler=lambda r: r.choice([1.0, 0.0, -1.0, r.gauss(0, 1)]))
    yr, yi = PC(y)
    if form == "ps":
        nvt = ctx.reals("nv", (nsym - 1,), sampler=lambda r: 10 ** r.uniform(-3, 3))
        nvp = P(nvt)
        for v in nvp.reshape(-1):
            ctx.assume(S.lt(0, v))
        nv_of = lambda t: nvp[t]
        arg = nvt
    else:
        s = _positive(ctx, "nv")
        nv_of = lambda t: s
        arg = _nv_tensor(ctx, s)
    calls = []
    real_helper = sc.dem._min_distance_to_points

    def stub(z, points, nv):
        i = len(calls)
        if ctx.mode == "sym":
            ret = ctx.reals(f"M{i}", tuple(z.shape))
        else:
            ret = real_helper(z, points, nv)
            ctx.drawn[f"M{i}"] = [float(v) for v in ret.reshape(-1)]  # the stub's return values are inputs of the obligation
        calls.append((z, points, nv, ret))
        return ret

    sc.dem._min_distance_to_points = stub
    out = ctx.call(sc.dem.forward, y, arg)
    ctx.ensure("returns", out.ok, note=repr(out.exc) if not out.ok else sc.src)
    if not out.ok:
        return
    ctx.ensure("output_shape", SP.shape_is(out.value, ((nsym - 1) * sc.b,)))
    ctx.ensure("helper_called_once_per_bit_and_value", len(calls) == 2 * sc.b)
    if len(calls) != 2 * sc.b or not SP.shape_is(out.value, ((nsym - 1) * sc.b,)):
        return
    zs, hyps, moduli = [], [], []
    for t in range(1, nsym):
        zr = S.add(S.mul(yr[t], yr[t - 1]), S.mul(yi[t], yi[t - 1]))
        zi = S.sub(S.mul(yi[t], yr[t - 1]), S.mul(yr[t], yi[t - 1]))
        zs.append((zr, zi))
        m2 = S.add(S.mul(zr, zr), S.mul(zi, zi))
        moduli.append(m2)
        hyps.append(S.eq(m2, 1) if ctx.mode == "sym" else S.le(S.sabs(S.sub(m2, 1)), Fraction(1, 10**6)))
    hyp = SP.conj(hyps)
    subs = _sqrt_unit_lemmas(ctx, hyp, moduli)
    C = sc.table(0)
    one_eps = S.add(1, EPS_NORM)
    o = P(out.value)
    # which call serves which (bit, value): identified by the points it received
    pts_ok, z_ok, nv_ok, comb = [], [], [], []
    served = {}
    for (z, points, nv, ret) in calls:
        got = _cpoints(points if not hasattr(points, "re") else _lower(points))
        for k in range(sc.b):
            for b in (0, 1):
                if got == [C[j] for j in _subset(sc, k, b)] and (k, b) not in served:
                    served[(k, b)] = (z, nv, ret)
                    break
            else:
                continue
            break
    ctx.ensure("helper_receives_the_points_of_each_bit_value", len(served) == 2 * sc.b, note="points compared exactly with constellation[bit_patterns[:, k] == b]")
    if len(served) != 2 * sc.b:
        return
    tolz = 0 if ctx.mode == "sym" else Fraction(1, 10**5)
    for (k, b), (z, nv, ret) in served.items():
        zr_, zi_ = PC(z)
        nvp_ = P(nv)
        for t, (zr, zi) in enumerate(zs):
            z_ok.append(S.land(S.le(S.sabs(S.sub(zr_[t], S.div(zr, one_eps))), tolz), S.le(S.sabs(S.sub(zi_[t], S.div(zi, one_eps))), tolz)))
            want = S.mul(2, nv_of(t))
            nv_ok.append(S.le(S.sabs(S.sub(nvp_[t], want)), S.mul(RTOL, want)))
    for k in range(sc.b):
        m0, m1 = P(served[(k, 0)][2]), P(served[(k, 1)][2])
        for t in range(nsym - 1):
            rhs = S.mul(gamma, S.sub(m0[t], m1[t]))
            comb.append(S.eq(o[t * sc.b + k], rhs) if ctx.mode == "sym" else S.le(S.sabs(S.sub(o[t * sc.b + k], rhs)), S.add(S.mul(RTOL, S.sabs(rhs)), Fraction(1, 10**6))))
    ctx.ensure("helper_receives_the_normalised_decision_variable", _under(hyp, SP.conj(z_ok), subs), note=f"under |z_t|=1; {len(subs)} Sqrt term(s) proved equal to 1 under that hypothesis and substituted")
    ctx.ensure("helper_receives_twice_the_noise_variance", SP.conj(nv_ok))
    ctx.ensure("gamma_positive", gamma > 0, note=f"gamma = 2 kappa = {gamma}; kappa read from {reading}")
    ctx.ensure("llr_is_gamma_times_M0_minus_M1", SP.conj(comb), note=f"gamma={gamma}")


def _lower(t):
    from vk.tensor import lower

    return lower(t)



# ------------------------------------------------------------------------------------------------ large constellations, bounded
def _large_cfgs(tier):
    return [c for c in _schemes(tier) if not _tractable(c)]


@obligation("C06.soft_large_bounded", function=SOFT_FUNCS, configs=_large_cfgs, kind="custom", engine="standin")
def soft_large_bounded(spec, cfg, tier, seed):
    """64-PSK / 256-QAM: nearest-point hard decision, max-log identity at unit variance and sign-vs-hard agreement evaluated natively on a dense grid over and beyond
    the bounding box, on every midpoint between neighbouring points +- eps, and at seeded random points (the
    scaling with the noise variance IS proved for these constellations: C06.soft_scaling)"""
    t0 = time.time()
    sc = Scheme(cfg)
    kappa, _ = read_kappa(cfg)
    C = [complex(float(c[0]), float(c[1])) for c in sc.table(0)]
    L = sc.labels
    rng = random.Random(seed * 19 + 5)
    ext = 1.3 * max(max(abs(c.real), abs(c.imag)) for c in C) + 0.5
    g = 61 if tier == "quick" else 121
    pts = [complex(-ext + 2 * ext * i / (g - 1), -ext + 2 * ext * j / (g - 1)) for i in range(g) for j in range(g)]
    for i, a in enumerate(C):  # decision boundaries between nearest neighbours
        near = sorted(range(len(C)), key=lambda j: abs(C[j] - a))[1:5]
        for j in near:
            mid, dirn = (a + C[j]) / 2, (C[j] - a) / abs(C[j] - a)
            for e in (-1e-3, 0.0, 1e-3):
                pts.append(mid + e * dirn)
    pts += [complex(rng.gauss(0, ext / 2), rng.gauss(0, ext / 2)) for _ in range(2000)]
    y = torch.tensor(pts, dtype=torch.complex128).to(torch.complex64)
    with torch.no_grad():
        soft = sc.dem(y, torch.tensor(1.0)).reshape(len(pts), sc.b).to(torch.float64)
        hard = sc.dem(y).reshape(len(pts), sc.b)
    yy = y.to(torch.complex128)
    Ct = torch.tensor(C, dtype=torch.complex128)
    d = (yy.unsqueeze(1) - Ct.unsqueeze(0)).abs() ** 2
    Lt = torch.tensor(L)
    fails = {"hard_label_is_a_nearest_point": None, "maxlog_identity_unit_variance": None, "sign_agrees_with_hard": None}
    dmin = d.min(dim=1).values
    for i in range(len(pts)):
        lab = [j for j in range(sc.n) if L[j] == [int(round(float(v))) for v in hard[i]]]
        if not lab or float(d[i, lab[0]]) > float(dmin[i]) + 1e-5 * (1 + float(dmin[i])):
            fails["hard_label_is_a_nearest_point"] = {"y": [pts[i].real, pts[i].imag], "hard": [int(v) for v in hard[i]]}
            break
    for k in range(sc.b):
        d1 = d[:, Lt[:, k] == 1].min(dim=1).values
        d0 = d[:, Lt[:, k] == 0].min(dim=1).values
        want = float(kappa) * (d1 - d0)
        scale = 1 + d1 + d0
        bad = ((soft[:, k] - want).abs() > 1e-4 * scale).nonzero().reshape(-1)
        if len(bad) and fails["maxlog_identity_unit_variance"] is None:
            i = int(bad[0])
            fails["maxlog_identity_unit_variance"] = {"y": [pts[i].real, pts[i].imag], "bit": k, "llr": float(soft[i, k]), "expected": float(want[i]), "kappa": str(kappa)}
        tol = 1e-4 * scale
        bad = (((soft[:, k] > tol) & (hard[:, k] != 0)) | ((soft[:, k] < -tol) & (hard[:, k] != 1))).nonzero().reshape(-1)
        if len(bad) and fails["sign_agrees_with_hard"] is None:
            i = int(bad[0])
            fails["sign_agrees_with_hard"] = {"y": [pts[i].real, pts[i].imag], "bit": k, "llr": float(soft[i, k]), "hard": [int(v) for v in hard[i]]}
    res = []
    for name, fail in fails.items():
        r = ObResult(prop="C06", ob=f"{spec.id}/{name}", config=str(cfg), function=spec.function, engine="standin", backend="native", kind="bounded")
        r.verdict = "discharged" if fail is None else "refuted"
        r.paths = len(pts)
        r.queries = len(pts)
        r.witness = fail
        r.replay_confirmed = None if fail is None else True
        r.detail = f"bounded: {len(pts)} received points ({g}x{g} grid over 1.3x the bounding box, midpoints to the 4 nearest neighbours of every point +-1e-3, 2000 seeded random); the symbolic proof of these two clauses needs minutes of case analysis per bit for this constellation size; kappa={kappa}"
        r.wall_s = round(time.time() - t0, 2)
        res.append(r)
    return res


# ================================================================================================ reference tables of the demodulators
def _ref_cfgs(tier):
    out = [c for c in mods.catalogue("thorough") if c[0] not in ("bpsk", "oqpsk")]  # construction only: all orders in both tiers
    out += [Cfg("dpsk_alias", b, g, style) for b in (1, 2, 3, 4) for g in ("gray", "bin") for style in ("bits_per_symbol+gray_coded", "order+gray_coded", "bits_per_symbol+gray_coding", "order+both_disagreeing")]
    return out


@obligation("C06.demodulator_reference_tables", function=FM + "psk.py:QPSKDemodulator.__init__; " + FM + "psk.py:PSKDemodulator.__init__; " + FM + "qam.py:QAMDemodulator.__init__; " + FM + "pam.py:PAMDemodulator.__init__; " + FM + "dpsk.py:DPSKDemodulator.__init__; " + FM + "pi4qpsk.py:Pi4QPSKDemodulator.__init__",
            configs=_ref_cfgs, kind="ground", engine="ground")
def demodulator_reference_tables(cfg):
    """the C06 contracts read points and labels off the table the demodulator decides against (its internal reference modulator);
    this closes the loop: that table IS the table of the modulator built with the same options (every option spelling) - buffers
    compared exactly"""
    from kaira.modulations import dpsk

    if cfg[0] == "dpsk_alias":
        _, b, g, style = cfg
        gc = g == "gray"
        kw = {"bits_per_symbol+gray_coded": dict(bits_per_symbol=b, gray_coded=gc), "order+gray_coded": dict(order=2**b, gray_coded=gc), "bits_per_symbol+gray_coding": dict(bits_per_symbol=b, gray_coding=gc),
              "order+both_disagreeing": dict(order=2**b, gray_coding=not gc, gray_coded=gc)}[style]
        mod, dem = dpsk.DPSKModulator(**kw), dpsk.DPSKDemodulator(**kw)
        canon = dpsk.DPSKModulator(order=2**b, gray_coding=gc)
        yield "alias_options_build_the_documented_scheme", _same_buffers(mod, canon), f"DPSKModulator({kw}) vs DPSKModulator(order={2 ** b}, gray_coding={gc})"
    else:
        mod, dem = mods.build(cfg)
    ref = getattr(dem, "modulator", None)
    if ref is None:
        yield "demodulator_has_reference_modulator", False, f"{type(dem).__name__} has no .modulator"
        return
    yield "reference_table_is_the_modulators_table", _same_buffers(ref, mod), f"{type(dem).__name__}.modulator buffers vs {type(mod).__name__} buffers: {sorted(_bufs(mod))}"
    yield "same_bits_per_symbol", dem.bits_per_symbol == mod.bits_per_symbol == ref.bits_per_symbol, f"{dem.bits_per_symbol} / {mod.bits_per_symbol} / {ref.bits_per_symbol}"


def _bufs(m):
    return {k: v for k, v in m.named_buffers() if not k.startswith("_")}


def _same_buffers(a, b):
    x, y = _bufs(a), _bufs(b)
    return x.keys() == y.keys() and all(x[k].shape == y[k].shape and x[k].dtype == y[k].dtype and bool(torch.equal(x[k], y[k])) for k in x)
