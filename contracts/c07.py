"""C07 - additive-noise channels deliver exactly the configured noise power / SNR; one definition of SNR everywhere.

RNG contract (assumed, DESIGN 4.2): torch.randn* return fresh independent symbols g_j with E g = 0, E g^2 = 1 (complex draws:
1/2 per component); torch.rand* fresh independent uniform [0,1) symbols.  The draws are universally quantified inputs.

Noise algebra (the moment lemma L-moment is the only step outside the solver).  For a channel run  y = F(x; g):
   zero_draw      F(x; 0) == base            base = x (AWGN/Laplacian), f(x) (nonlinear), h.x (fading)      -> E[y - base] = 0
   affine         F(x; g) - F(x; 0) == sum_j C[:, j] * g_j    with  C[:, j] := F(x; e_j) - F(x; 0)   (evaluation of the REAL code at
                  the unit vectors of the draw space: the coefficients are, by construction, free of RNG symbols)
   own_symbols    C[i, j] == 0 unless symbol j sits at the position of output element i            -> elements are independent
   power          sum_j |C[i, j]|^2 Var(g_j) == configured noise power   (per element; complex: real + imaginary parts)
   snr            mean|base|^2 == 10^(snr/10) * sum_j |C[i, j]|^2 Var(g_j)       (relative 1e-6; 10^(snr/10) is the float64 value)
Evaluation at another RNG point = re-execution of the real function with the RNG stub returning prescribed values (both modes).

Tolerances: equalities are |a - b| <= 1e-6 * scale + 1e-12 where scale contains the magnitudes that enter the float computation
(|x_i| enters because `result - x` cancels in float32 when a witness is replayed natively).
"""
from __future__ import annotations

import math
from fractions import Fraction

import numpy as np
import torch

from vk import ops_chan as OC
from vk import spec as SP
from vk import sym as S
from vk.harness import ObResult, obligation
from vk.mode import NativeRNGMode, SymMode
from vk.tensor import PC, SymTensor, oarr

from .codes import Cfg

OC.ENABLE_SQRT_MEMO[0] = True

FA = "kaira/channels/analog.py"
FU = "kaira/utils/snr.py"
RT = Fraction(1, 10**6)
AT = Fraction(1, 10**12)

SHAPES = {"n1": (1,), "n2": (2,), "n3": (3,), "n4": (4,), "2x2": (2, 2), "1x3": (1, 3), "2x1x2": (2, 1, 2)}
SNR_GRID_Q = (-20.0, 0.0, 3.0, 10.0, 40.0)
SNR_GRID_T = (-20.0, -10.0, -3.0, 0.0, 1.5, 3.0, 6.0, 10.0, 15.0, 20.0, 30.0, 40.0)
P_GRID_Q = (1e-3, 1.0, 1e3)
P_GRID_T = (1e-3, 1e-2, 0.1, 0.5, 1.0, 2.0, 10.0, 1e2, 1e3)


# ================================================================================================ helpers
def near(a, b, scale):
    """|a - b| <= RT * scale + AT"""
    if a is b:
        return True
    d = S.sub(a, b)
    if not isinstance(d, S.Sym):
        return S.le(abs(d), S.add(S.mul(RT, scale), AT)) if isinstance(scale, S.Sym) else abs(d) <= RT * scale + AT
    return S.le(S.sabs(d), S.add(S.mul(RT, scale), AT))


def all_near(a, b, scale):
    a, b = np.asarray(a, dtype=object), np.asarray(b, dtype=object)
    if a.shape != b.shape:
        return False
    sc = np.broadcast_to(np.asarray(scale, dtype=object), a.shape)
    return SP.conj(near(p, q, s) for p, q, s in zip(a.reshape(-1), b.reshape(-1), sc.reshape(-1)))


def cabs1(re, im):
    """|re| + |im| elementwise (a cheap magnitude for tolerances)"""
    out = np.empty(re.shape, dtype=object)
    for i in np.ndindex(*re.shape):
        out[i] = S.add(S.sabs(re[i]), S.sabs(im[i]))
    return out


def sq(v):
    return S.mul(v, v)


def mean_abs2(re, im):
    acc = 0
    n = 0
    for a, b in zip(re.reshape(-1), im.reshape(-1)):
        acc = S.add(acc, S.add(sq(a), sq(b)))
        n += 1
    return S.div(acc, n)


class Forced:
    """RNG contract stub that returns prescribed values: evaluation of the code under contract at a chosen point of the draw space"""

    def __init__(self, ctx, values):
        self.ctx = ctx
        self.values = list(values)
        self.k = 0

    def draw(self, law, shape, dtype):
        if self.k >= len(self.values):
            raise S.EngineFault("re-execution consumed more RNG draws than the recorded run")
        re, im = self.values[self.k]
        self.k += 1
        if tuple(re.shape) != tuple(shape) or (im is not None) != dtype.is_complex:
            raise S.EngineFault("re-execution requested a different RNG shape/dtype than the recorded run")
        if self.ctx.mode == "sym":
            return SymTensor(re.copy(), None if im is None else im.copy(), dtype)
        fdt = torch.float64
        tr = torch.tensor([float(v) for v in re.reshape(-1)], dtype=fdt).reshape(tuple(shape))
        if im is None:
            return tr.to(dtype)
        ti = torch.tensor([float(v) for v in im.reshape(-1)], dtype=fdt).reshape(tuple(shape))
        return torch.complex(tr, ti).to(dtype)


def eval_at(ctx, fn, args, kwargs, values):
    """run the real function with the RNG draws prescribed; returns the result tensor"""
    rng = Forced(ctx, values)
    with (SymMode(rng=rng) if ctx.mode == "sym" else NativeRNGMode(rng)):
        out = fn(*args, **kwargs)
    if rng.k != len(values):
        raise S.EngineFault("re-execution consumed fewer RNG draws than the recorded run")
    return out


VAR = {"normal": (1, None), "normal:complex": (Fraction(1, 2), Fraction(1, 2))}


def draw_symbols(draws, var_override=None):
    """list of real RNG symbols of the recorded draws: dict(k, comp, pos, sym, var)"""
    out = []
    for k, (name, law, t) in enumerate(draws):
        re, im = PC(t) if t.dtype.is_complex else (PC(t)[0], None)
        vr = VAR.get(law) if var_override is None else (var_override, var_override)
        if vr is None:
            raise S.Unsupported(f"moment table has no entry for RNG law {law}")
        for m, v in enumerate(re.reshape(-1)):
            out.append(dict(k=k, comp=0, pos=m, sym=v, var=vr[0]))
        if im is not None:
            for m, v in enumerate(im.reshape(-1)):
                out.append(dict(k=k, comp=1, pos=m, sym=v, var=vr[1]))
    return out


def zero_values(draws):
    vals = []
    for name, law, t in draws:
        vals.append((oarr(tuple(t.shape), 0), oarr(tuple(t.shape), 0) if t.dtype.is_complex else None))
    return vals


def unit_values(draws, s):
    vals = zero_values(draws)
    re, im = vals[s["k"]]
    (re if s["comp"] == 0 else im).reshape(-1)[s["pos"]] = 1
    return vals


def noise_algebra(ctx, fn, args, kwargs, y, base, draws, target=None, snr_lin=None, signal_power=None, var_override=None, tag="", xscale=None):
    """the five clauses of the module docstring for one channel run.
    y: result tensor of the recorded run; base = (re, im) payload the noise is added to; draws: the recorded RNG draws of the noise stage
    (all draws of the run); target: configured noise power (payload scalar) or None; snr_lin: 10^(snr/10) as exact rational of the float64."""
    yr, yi = PC(y)
    br, bi = base
    n = yr.size
    syms = draw_symbols(draws, var_override)
    shapes_ok = all(int(np.prod(tuple(t.shape))) == n for _, _, t in draws)
    ctx.ensure(tag + "one_draw_per_element", shapes_ok and len(syms) > 0)
    if not shapes_ok or not syms:
        return None
    y0 = eval_at(ctx, fn, args, kwargs, zero_values(draws))
    y0r, y0i = PC(y0)
    if xscale is None:
        xscale = cabs1(br, bi)
    ctx.ensure(tag + "zero_draw_gives_base", S.land(all_near(y0r, br, xscale), all_near(y0i, bi, xscale)))
    # coefficients by evaluation at the unit vectors
    C = []
    for s in syms:
        yj = eval_at(ctx, fn, args, kwargs, unit_values(draws, s))
        yjr, yji = PC(yj)
        cr = np.array([S.sub(a, b) for a, b in zip(yjr.reshape(-1), y0r.reshape(-1))], dtype=object)
        ci = np.array([S.sub(a, b) for a, b in zip(yji.reshape(-1), y0i.reshape(-1))], dtype=object)
        C.append((cr, ci))
    yrf, yif, y0rf, y0if = yr.reshape(-1), yi.reshape(-1), y0r.reshape(-1), y0i.reshape(-1)
    xs = np.asarray(xscale, dtype=object).reshape(-1)
    aff, own, pw = [], [], []
    powers = []
    for i in range(n):
        accr, acci, mag, p = 0, 0, xs[i], 0
        for s, (cr, ci) in zip(syms, C):
            if s["pos"] != i:
                own.append(S.land(near(cr[i], 0, xs[i]), near(ci[i], 0, xs[i])))
                continue
            accr = S.add(accr, S.mul(cr[i], s["sym"]))
            acci = S.add(acci, S.mul(ci[i], s["sym"]))
            p = S.add(p, S.mul(S.add(sq(cr[i]), sq(ci[i])), s["var"]))
            mag = S.add(mag, S.mul(S.add(S.sabs(cr[i]), S.sabs(ci[i])), S.sabs(s["sym"])))
        aff.append(S.land(near(S.sub(yrf[i], y0rf[i]), accr, mag), near(S.sub(yif[i], y0if[i]), acci, mag)))
        powers.append(p)
    ctx.ensure(tag + "affine_in_draws", SP.conj(aff))
    ctx.ensure(tag + "own_symbols", SP.conj(own))
    for i in range(n):
        csum = 0
        for s, (cr, ci) in zip(syms, C):
            if s["pos"] == i:
                csum = S.add(csum, S.add(S.sabs(cr[i]), S.sabs(ci[i])))
        if target is not None:
            pw.append(near(powers[i], target, S.add(S.sabs(target), S.mul(xs[i], csum))))
        if snr_lin is not None:
            pw.append(near(S.mul(powers[i], snr_lin), signal_power, S.add(S.sabs(signal_power), S.mul(S.mul(xs[i], csum), snr_lin))))
    ctx.ensure(tag + ("noise_power" if target is not None else "snr"), SP.conj(pw))
    return powers


def snr_linear_const(snr_db):
    return Fraction(10.0 ** (float(snr_db) / 10.0))


def power_tensor(ctx, p):
    """0-dim float32 tensor holding the (symbolic) noise power"""
    if ctx.mode == "sym":
        return ctx.tensor(np.asarray(p, dtype=object), torch.float32)
    return torch.tensor(float(p))


def make_input(ctx, kind, shape, name="x", dtype=None):
    if kind == "real":
        return ctx.reals(name, shape, dtype or torch.float32)
    return ctx.complexes(name, shape, dtype or torch.complex64)


# ================================================================================================ AWGN
def _awgn_cfgs(tier):
    out = []
    shapes = ("n3", "2x2") if tier == "quick" else ("n1", "n2", "n3", "n4", "2x2", "1x3", "2x1x2")
    for kind in ("real", "complex"):
        for shp in shapes:
            out.append(Cfg("awgn", kind, shp, "P", "sym"))
        for p in P_GRID_Q if tier == "quick" else P_GRID_T:
            out.append(Cfg("awgn", kind, "n2", "P", p))
        for s in SNR_GRID_Q if tier == "quick" else SNR_GRID_T:
            out.append(Cfg("awgn", kind, "n3" if kind == "real" else "n2", "snr", s))
        if tier == "thorough":
            for s in (-20.0, 7.0, 40.0):
                out.append(Cfg("awgn", kind, "2x2", "snr", s))
    return out


def _configure(ctx, how, val):
    """(constructor kwargs, target noise power payload | None, snr_lin | None)"""
    if how == "P":
        if val == "sym":
            p = ctx.scalar("P", "real", sampler=lambda r: 10 ** r.uniform(-3, 3))
            ctx.assume(S.lt(0, p))
            return dict(avg_noise_power=power_tensor(ctx, p)), p, None
        return dict(avg_noise_power=float(val)), Fraction(float(val)), None
    return dict(snr_db=float(val)), None, snr_linear_const(val)


@obligation("C07.awgn", function=FA + ":AWGNChannel.forward; " + FA + ":_apply_noise; " + FU + ":snr_to_noise_power; " + FU + ":snr_db_to_linear", configs=_awgn_cfgs, max_paths=64, timeout_ms=60000)
def awgn(ctx, cfg):
    from kaira.channels.analog import AWGNChannel

    _, kind, shp, how, val = cfg
    shape = SHAPES[shp]
    x = make_input(ctx, kind, shape)
    with ctx.sym():
        kw, target, snr_lin = _configure(ctx, how, val)
        chan = AWGNChannel(**kw)
    out = ctx.call(chan.forward, x)
    ctx.ensure("returns", out.ok, note=repr(out.exc) if not out.ok else "")
    if not out.ok:
        return
    y = out.value
    ctx.ensure("shape_dtype_preserved", SP.shape_is(y, shape) and y.dtype == x.dtype)
    ctx.ensure("input_unmodified", out.unmodified)
    xr, xi = PC(x)
    noise_algebra(ctx, chan.forward, (x,), {}, y, (xr, xi), list(ctx.rng_draws), target=target, snr_lin=snr_lin, signal_power=mean_abs2(xr, xi))


# ================================================================================================ caller-supplied noise
def _sup_cfgs(tier):
    out = []
    for xk in ("real", "complex"):
        for nk in ("real", "complex"):
            for shp in ("n3", "2x2") + (("n1", "2x1x2") if tier == "thorough" else ()):
                out.append(Cfg("awgn_supplied", xk, nk, shp))
    return out


@obligation("C07.awgn_supplied_noise", function=FA + ":AWGNChannel.forward", configs=_sup_cfgs, max_paths=16, timeout_ms=20000)
def awgn_supplied(ctx, cfg):
    """forward(x, noise=n) == x + n : no RNG draw, no rescaling (equality up to the float rounding of the addition on native replay)"""
    from kaira.channels.analog import AWGNChannel

    _, xk, nk, shp = cfg
    shape = SHAPES[shp]
    x = make_input(ctx, xk, shape)
    n = make_input(ctx, nk, shape, name="n")
    chan = AWGNChannel(avg_noise_power=0.5)
    out = ctx.call(chan.forward, x, noise=n)
    ctx.ensure("returns", out.ok, note=repr(out.exc) if not out.ok else "")
    if not out.ok:
        return
    y = out.value
    ctx.ensure("shape_preserved", SP.shape_is(y, shape))
    ctx.ensure("no_rng_draw", len(ctx.rng_draws) == 0)
    ctx.ensure("input_unmodified", out.unmodified)
    (xr, xi), (nr, ni), (yr, yi) = PC(x), PC(n), PC(y)
    sc = np.array([S.add(a, b) for a, b in zip(cabs1(xr, xi).reshape(-1), cabs1(nr, ni).reshape(-1))], dtype=object).reshape(shape)
    sr = np.array([S.add(a, b) for a, b in zip(xr.reshape(-1), nr.reshape(-1))], dtype=object).reshape(shape)
    si = np.array([S.add(a, b) for a, b in zip(xi.reshape(-1), ni.reshape(-1))], dtype=object).reshape(shape)
    ctx.ensure("y_is_x_plus_n", S.land(all_near(yr, sr, sc), all_near(yi, si, sc)))
    if ctx.mode == "sym":
        ctx.ensure("y_is_x_plus_n_exact_over_reals", S.land(SP.all_eq(yr, sr), SP.all_eq(yi, si)))


# ================================================================================================ nonlinear channel
def _cubic(t):
    return t + 0.1 * t * t * t


NLF = {"cubic": _cubic, "tanh": torch.tanh}
XCONC = {"n3": [(0.75, -0.5), (-1.25, 0.25), (0.5, 2.0)], "n2": [(1.5, 0.5), (-0.25, -1.0)]}


def _nl_cfgs(tier):
    out = []
    noise = [("none", 0), ("P", "sym"), ("snr", 10.0)] + ([("snr", -20.0), ("snr", 40.0), ("P", 1e-3), ("P", 1e3)] if tier == "thorough" else [])
    for how, val in noise:
        for f in ("cubic", "tanh"):
            out.append(Cfg("nonlinear", "real", "n3", f, "direct", how, val))
            out.append(Cfg("nonlinear", "complex", "n2", f, "cartesian", how, val))
        out.append(Cfg("nonlinear", "complex", "n2", "cubic", "direct", how, val))
        out.append(Cfg("nonlinear", "xconc", "n3", "cubic", "polar", how, val))
    if tier == "thorough":
        out.append(Cfg("nonlinear", "real", "2x2", "cubic", "direct", "P", "sym"))
        out.append(Cfg("nonlinear", "complex", "2x2", "cubic", "cartesian", "snr", 3.0))
    return out


def _nl_spec(ctx, f, mode, x):
    """f applied as the documentation of complex_mode says: direct f(x); cartesian f(Re) + i f(Im); polar f(|x|) e^{i arg x}"""
    with ctx.sym():
        if not x.dtype.is_complex or mode == "direct":
            return PC(f(x))
        if mode == "cartesian":
            return PC(f(x.real))[0], PC(f(x.imag))[0]
        mag = torch.abs(x)
        r = f(mag) / mag
        return PC(r * x)


@obligation("C07.nonlinear", function=FA + ":NonlinearChannel.forward; " + FA + ":_apply_noise", configs=_nl_cfgs, max_paths=64, timeout_ms=60000)
def nonlinear(ctx, cfg):
    from kaira.channels.analog import NonlinearChannel

    _, kind, shp, fname, mode, how, val = cfg
    shape = SHAPES[shp]
    f = NLF[fname]
    if kind == "xconc":
        x = torch.tensor([complex(a, b) for a, b in XCONC[shp]], dtype=torch.complex64)
    else:
        x = make_input(ctx, kind, shape)
    with ctx.sym():
        if how == "none":
            kw, target, snr_lin = dict(add_noise=False), None, None
        else:
            kw, target, snr_lin = _configure(ctx, how, val)
            kw["add_noise"] = True
        chan = NonlinearChannel(f, complex_mode=mode, **kw)
    out = ctx.call(chan.forward, x)
    ctx.ensure("returns", out.ok, note=repr(out.exc) if not out.ok else "")
    if not out.ok:
        return
    y = out.value
    ctx.ensure("shape_preserved", SP.shape_is(y, shape))
    ctx.ensure("input_unmodified", out.unmodified)
    br, bi = _nl_spec(ctx, f, mode, x)
    xr, xi = PC(x)
    sc = np.array([S.add(S.add(a, b), 1) for a, b in zip(cabs1(br, bi).reshape(-1), cabs1(xr, xi).reshape(-1))], dtype=object).reshape(shape)
    if how == "none":
        yr, yi = PC(y)
        ctx.ensure("no_rng_draw", len(ctx.rng_draws) == 0)
        ctx.ensure("y_is_f_of_x", S.land(all_near(yr, br, sc), all_near(yi, bi, sc)))
        return
    noise_algebra(ctx, chan.forward, (x,), {}, y, (br, bi), list(ctx.rng_draws), target=target, snr_lin=snr_lin, signal_power=mean_abs2(br, bi), xscale=sc)
